"""C18 — settings resolve CLI > env > file > default; a stored config re-creates the run.

spec   : spec/ConfigPrecedenceContract.tla (Q1..Q4), spec/ConfigPrecedence.tla (design layer:
         attributes_from_config / attributes_from_env / update / arg_default / argparse / validate)
MC     : MC_ConfigPrecedence_{design,asis_lenient}.cfg exhaustive; devS29 / devS30 negative controls;
         MC_ConfigPrecedence_export.cfg exports the expected outcome per case
binding: spec -> code: every exported case pattern is instantiated on EVERY option of EVERY command of
         the real command tree (temp gallia.toml via GALLIA_CONFIG, GALLIA_<NAME>, real create_parser +
         parse_typed_args); code -> spec: every execution validated by Trace_ConfigPrecedence (TLC).
         Q3: dump -> load of every distinct parsed config, META.json / run_meta row through the real
         Rerunner.  Q4: --template output vs declared keys vs keys the loader reads.
"""

from __future__ import annotations

import contextlib
import io
import json
import multiprocessing as mp
import os
import random
from collections import Counter
from concurrent.futures import ProcessPoolExecutor, ThreadPoolExecutor
from typing import Any

from harness import c18_cases as C
from harness import c18_lib as L
from harness import tlc
from harness.common import Machinery, Report, quiet_gallia_logging

ORDER = ["cli", "env", "file", "default"]
CFG_TMPL = """SPECIFICATION Spec
CONSTANTS
  Classes <- AllClasses
  Strict = TRUE
  Dev_S29_AnnotatedFieldsLoseConfigMeta = {s29}
  Dev_S30_PositionalIgnoresDefaults = {s30}
INVARIANT Export
CHECK_DEADLOCK FALSE
"""
DESIGNS = {
    "as-is": ("FALSE", "TRUE"),  # the code as it is meant to work today (S30 is its documented behaviour)
    "Dev_S29_AnnotatedFieldsLoseConfigMeta": ("TRUE", "TRUE"),
}


def _export(name: str) -> dict[str, dict[str, Any]]:
    s29, s30 = DESIGNS[name]
    res = tlc.run_tlc("MC_ConfigPrecedence", cfg_text=CFG_TMPL.format(s29=s29, s30=s30), workers=1, timeout=600)
    table: dict[str, dict[str, Any]] = {}
    for p in res.prints:
        if isinstance(p, list) and p and p[0] == "CASE":
            table.setdefault(C.flag_key(p[1]), {})[json.dumps(p[2], sort_keys=True)] = p[3]
    if not table:
        raise Machinery(f"TLC exported no cases for design {name}:\n{res.out[-1500:]}")
    return {"table": table, "res": res}  # type: ignore[dict-item]


def _agrees(design_out: dict[str, Any], rec: dict[str, Any]) -> bool:
    out = rec["out"]
    if design_out["t"] == "value":
        src = ORDER[design_out["id"] - 1]
        return out["t"] == "value" and rec["val"][src] > 0 and out["id"] == rec["val"][src]
    named = design_out["named"]["$set"] if isinstance(design_out["named"], dict) else design_out["named"]
    return out["t"] == "error" and all(s in out["named"] for s in named)


def _validate(records: list[dict[str, Any]], rep: Report | None, label: str) -> dict[int, str]:
    verdicts: dict[int, str] = {}
    CH = 20000
    for off in range(0, len(records), CH):
        sub = {"traces": records[off:off + CH]}
        res = tlc.validate_batch("Trace_ConfigPrecedence", "Trace_ConfigPrecedence.cfg", sub, timeout=1500)
        if rep is not None:
            rep.add_tlc(res, f"Trace_ConfigPrecedence {label} [{off}:{off + len(sub['traces'])}]")
        for p in res.prints:
            if isinstance(p, list) and len(p) == 3 and p[0] == "V":
                verdicts[p[1]] = p[2]
        last = res
    missing = [r["id"] for r in records if r["id"] not in verdicts]
    if missing:
        raise Machinery(f"TLC produced no verdict for {len(missing)} records (first id {missing[0]}):\n"
                        + last.out[-2000:])
    return verdicts


# ---------------------------------------------------------------- Q4


from gallia.command.config import Field, GalliaBaseModel  # noqa: E402  (names the declaration parser evaluates)

_ROOT_LEVEL_CFG: list[type] = []


def _declare_root_level_config() -> None:
    """A config class whose options live at the ROOT of gallia.toml (`config_section=""`, which
    GalliaBaseModel.__init_subclass__ / attributes_from_config support explicitly; no stock command uses it, a
    plugin may).  Declared once per process, after the stock command tree has been imported."""
    if _ROOT_LEVEL_CFG:
        return

    class C18RootLevelConfig(GalliaBaseModel, cli_group="c18", config_section=""):
        c18_bench_id: str = Field("bench-0", description="Identifier of the test bench (root level of gallia.toml)")
        c18_bench_rev: int = Field(3, description="Revision of the test bench (root level of gallia.toml)")

    _ROOT_LEVEL_CFG.append(C18RootLevelConfig)


def _selftest_inherit_sources() -> dict[str, Any]:
    """binding self-test of the declaration reader: which sources a REdeclared option keeps must not depend on the
    field metadata of the tree under test (hand-made declarations, expected keys fixed here)"""
    D = L.Decl
    base = D(name="opt", owner="m.Base", gallia_field=True, arg_field=True, section="a.b", section_explicit=True)
    plain = D(name="opt", owner="m.Base")
    cases = {
        "new default via Field(), no section written": (base, D("opt", "m.Sub", gallia_field=True, arg_field=True), "a.b.opt", True),
        "section written out in the redeclaration": (base, D("opt", "m.Sub", gallia_field=True, arg_field=True, section="c",
                                                         section_explicit=True), "c.opt", True),
        "config_section=None written out": (base, D("opt", "m.Sub", gallia_field=True, arg_field=True,
                                                    section_explicit=True), None, True),
        "hidden=True": (base, D("opt", "m.Sub", gallia_field=True, arg_field=True, hidden=True), None, True),
        "bare `opt: T = v`": (base, D("opt", "m.Sub", bare=True), "a.b.opt", True),
        "another Field function": (base, D("opt", "m.Sub", arg_field=True), None, False),
        "parent without a section": (plain, D("opt", "m.Sub", gallia_field=True, arg_field=True), None, True),
        "no parent": (None, D("opt", "m.Sub", gallia_field=True, arg_field=True), None, True),
        "twice": (L.inherit_sources(base, D("opt", "m.Mid", gallia_field=True, arg_field=True)),
                  D("opt", "m.Sub", gallia_field=True, arg_field=True), "a.b.opt", True),
    }
    got = {}
    for what, (prev, new, key, env) in cases.items():
        d = L.inherit_sources(prev, new)
        got[what] = d.key
        if d.key != key or d.gallia_field != env or d.owner != new.owner:
            raise Machinery(f"binding self-test: declaration reader, case {what!r}: key {d.key!r} env {d.gallia_field} "
                            f"(expected {key!r} {env})")
    if L.inherit_sources(*cases["twice"][:2]).sources_from != "m.Base":
        raise Machinery("binding self-test: declaration reader loses the introducing class over two redeclarations")
    return got


def template_records() -> list[dict[str, Any]]:
    from gallia.cli import gallia as gcli
    from gallia.config import Config

    L.all_config_classes()  # the stock classes register first, as they do when the CLI starts
    _declare_root_level_config()

    buf = io.StringIO()
    with contextlib.redirect_stdout(buf):
        gcli.template()
    tkeys: list[str] = []
    sec = ""
    import re

    for ln in buf.getvalue().split("\n"):
        m = re.match(r"^\[([^\]]+)\]\s*$", ln)
        if m:
            sec = m.group(1)
            continue
        m = re.match(r"^(?:# )?([A-Za-z_][A-Za-z0-9_]*) = ", ln)
        if m:
            tkeys.append(f"{sec}.{m.group(1)}" if sec else m.group(1))

    class Recording(Config):
        def __init__(self) -> None:
            super().__init__()
            self.asked: list[str] = []

        def get_value(self, key: str, default: Any | None = None) -> Any | None:
            self.asked.append(key)
            return default

    declared: dict[str, list[tuple[type, L.Decl]]] = {}
    for k in L.all_config_classes():
        for d in L.declarations(k).values():
            if d.key is not None:
                declared.setdefault(d.key, []).append((k, d))
    reads: dict[type, set[str]] = {}
    for k in L.all_config_classes():
        r = Recording()
        k.attributes_from_config(r)
        reads[k] = set(r.asked)
    out = []
    for key in sorted(set(tkeys) | set(declared)):
        users = declared.get(key, [])
        read_ok = bool(users) and all(key in reads[k] for k, _ in users)
        annot = sorted({"top-level Annotated" if d.annot_toplevel else "plain" for _, d in users})
        out.append({"rec": {"kind": "template", "template": [key] if key in tkeys else [],
                            "declared": [key] if users else [], "read": [key] if read_ok else []},
                    "detail": {"key": key, "declared_by": sorted({d.owner for _, d in users})[:4],
                               "not_read_by": sorted(k.__name__ for k, _ in users if key not in reads[k])[:6],
                               "annotation": annot}})
    undeclared_reads = sorted({x for s in reads.values() for x in s} - set(declared))
    out.append({"rec": {"kind": "template", "template": [], "declared": [], "read": []},
                "detail": {"key": "(none)", "loader_also_reads_undeclared_keys": undeclared_reads[:12],
                           "n": len(undeclared_reads)}})
    return out


# ---------------------------------------------------------------- run


def _patterns_for(tier: str, table: dict[str, dict[str, Any]]) -> dict[str, list[dict[str, int]]]:
    out: dict[str, list[dict[str, int]]] = {}
    for fk, cases in table.items():
        out[fk] = [json.loads(k) for k in sorted(cases)]
    return out


def _jobs(tier: str, patterns: dict[str, Any], ncmd: int, seed: int) -> list[dict[str, Any]]:
    jobs = []
    # quick: the presence combinations with valid values on every option of every command; the validity
    # patterns once per DECLARATION (declaring class, option) -- on the first command, counted from a
    # seed-dependent offset, that has it.  thorough: everything everywhere.
    cmds = L.walk_commands()
    full: dict[int, list[str]] = {i: [] for i in range(ncmd)}
    seen: set[tuple[str, str]] = set()
    for j in range(ncmd):
        i = (j + seed) % ncmd
        for name, d in L.declarations(cmds[i][1].CONFIG_TYPE).items():
            if (d.owner, name) not in seen:
                seen.add((d.owner, name))
                full[i].append(name)
    for i in range(ncmd):
        if tier == "quick":
            jobs.append({"index": i, "tier": tier, "patterns": patterns, "variants": [0], "n_meta": 2,
                         "full": full[i]})
        else:
            jobs.append({"index": i, "tier": tier, "patterns": patterns, "variants": [0, 1, 2], "n_meta": 12,
                         "short": True})
    return jobs


def _tree_jobs(tier: str, patterns: dict[str, Any], ncmd: int, seed: int) -> list[dict[str, Any]]:
    """the same cases through the parser of the WHOLE command tree (0.17 s per build): all-valid presence
    combinations; quick: a seeded sample of options, thorough: every option"""
    valid_only = {fk: [p for p in ps if all(v != 0 for v in p.values())] for fk, ps in patterns.items()}
    # per option: every source alone (does the value arrive at all?), all three sources at once and env+file
    # (who wins?); quick also cli+env -- patterns naming "file" are not instantiable for options without a key
    def keep(p: dict[str, int], thorough: bool) -> bool:
        n = sum(v == 1 for v in p.values())
        if thorough:
            return n == 1 or n == 3 or (p["cli"] == -1 and n == 2) or (p["file"] == -1 and n == 2)
        return n in (1, 3) or (p["file"] == -1 and n == 2)

    pats = {fk: [p for p in ps if keep(p, tier == "thorough")] for fk, ps in valid_only.items()}
    rnd = random.Random(seed)
    jobs = []
    cmds = L.walk_commands()
    for i in range(ncmd):
        names = list(cmds[i][1].CONFIG_TYPE.model_fields)
        if tier == "quick":
            only = sorted(rnd.sample(names, 1))
            jobs.append({"index": i, "tier": tier, "patterns": pats, "variants": [0], "n_meta": 0, "tree": True,
                         "only": only, "reload_cap": 0})
        else:
            jobs.append({"index": i, "tier": tier, "patterns": pats, "variants": [1], "n_meta": 0, "tree": True,
                         "reload_cap": 0})
    return jobs


def _sig(detail: dict[str, Any], rec: dict[str, Any], explained: str) -> dict[str, Any]:
    live = [s for s in ORDER if s in rec["present"] and s in rec["applies"]]
    return {"field_annotation": detail["annotation"], "source": live[0] if live else "none",
            "explained_by": explained}


def run(tier: str, seed: int) -> Report:
    quiet_gallia_logging()
    rep = Report("C18", tier, seed)
    rep.rule = ("executions = parses of the real parser (create_parser + parse_typed_args) of one command with one "
                "option under test in a clean environment (temp gallia.toml via GALLIA_CONFIG, GALLIA_<NAME>, argv), "
                "one per (command, option, TLC case pattern = presence of cli/env/file x validity of each present "
                "source [, value variant, whole-tree parser]); plus one dump->load per distinct parsed configuration "
                "(model_dump_json; META.json and run_meta row through the real Rerunner) and one template record per "
                "config key.  distinct = distinct (command, option, pattern, variant, mode).  non-trivial = at least "
                "two sources hold pairwise different values, or the deciding source holds an invalid value")
    rep.assumptions = [
        "validity and value of a raw text are taken from the config class applied directly to it "
        "(CONFIG_TYPE(**{option: raw})): C18 is about WHICH source wins and how a rejection is attributed, not "
        "about the grammar of AutoInt / ranges / URIs (C20)",
        "which options are env/file-configurable, positional, const, hidden and under which section is read from "
        "the class SOURCES (ast), independently of what the installed pydantic made of the declarations; the section "
        "(and, for a redeclaration without a Field() call, the environment binding) of an option is the one of the "
        "class that introduces it: a subclass redeclaring the option keeps `S.<name>` -- the key --template prints "
        "and every sibling command reads -- unless the redeclaration itself writes config_section= (Field or class "
        "statement) or hidden=True (c18_lib.inherit_sources); never taken from the ConfigArgFieldInfo under test",
        "an error text 'names' a source if it mentions the option's command-line name / GALLIA_<NAME> or "
        "'environment' / 'config' or the key (liberal projection: can only miss, never alarm)",
        "positional arguments without a command-line value: the statement is silent (usage error accepted); "
        "options declared without gallia's Field(): env honoured or ignored both accepted; cross-option "
        "constraints (model validators): any rejection accepted",
    ]
    # ---- 1. model checking: design vs contract, negative controls, exported cases
    with ThreadPoolExecutor(max_workers=4) as tp:
        f_mc = {c: tp.submit(tlc.run_tlc, "MC_ConfigPrecedence", f"MC_ConfigPrecedence_{c}.cfg",
                             workers=2, coverage=(c == "design"), timeout=900)
                for c in ("design", "asis_lenient", "devS29", "devS30")}
        f_ex = {n: tp.submit(_export, n) for n in DESIGNS}
        mc = {c: f.result() for c, f in f_mc.items()}
        ex = {n: f.result() for n, f in f_ex.items()}
    for c in ("design", "asis_lenient"):
        rep.add_tlc(mc[c], f"MC_ConfigPrecedence_{c}")
        if not mc[c].ok:
            rep.violate(f"design/{mc[c].violated}", {"where": "ConfigPrecedence design layer", "cfg": c},
                        {"cex": mc[c].cex[-4:], "out": mc[c].out[-1500:]})
    cov = mc["design"].coverage
    never = [a for a in ("Init", "FromConfig", "FromEnv", "Merge", "AddArgument", "ParseArgs", "Validate")
             if cov.get(a, (0, 0))[0] == 0]
    if never:
        raise Machinery(f"design-layer actions never taken: {never}")
    rep.extra["design_action_coverage"] = {a: cov[a][0] for a in cov}
    for c in ("devS29", "devS30"):
        rep.add_tlc(mc[c], f"MC_ConfigPrecedence_{c} (negative control)")
        if mc[c].violated not in ("Q12_Contract", "Q1_Effective", "Q2_NotIgnored", "Q2_NamesSource"):
            raise Machinery(f"negative control {c} did not violate the contract (got {mc[c].violated})")
    for n in DESIGNS:
        rep.add_tlc(ex[n]["res"], f"MC_ConfigPrecedence export {n}")
    table = ex["as-is"]["table"]
    patterns = _patterns_for(tier, table)
    rep.extra["tlc_case_patterns"] = sum(len(v) for v in patterns.values())
    rep.extra["tlc_option_classes"] = len(patterns)

    # ---- 2./3. spec -> code -> spec: every pattern on every option of every command
    ncmd = len(L.walk_commands())
    jobs = _jobs(tier, patterns, ncmd, seed) + _tree_jobs(tier, patterns, ncmd, seed)
    nproc = max(2, min(12, (os.cpu_count() or 4) - 2))
    with ProcessPoolExecutor(max_workers=nproc, mp_context=mp.get_context("fork")) as pool:
        results = list(pool.map(C.run_command, jobs, chunksize=1))
    records: list[dict[str, Any]] = []
    meta: list[dict[str, Any]] = []
    skipped: Counter[str] = Counter()
    n_options = 0
    opt_classes: Counter[str] = Counter()
    skipped_cmds = []
    for job, r in zip(jobs, results):
        for k, v in r["skipped"].items():
            skipped[k] += v
        if not job.get("tree"):
            n_options += len(r["options"])
            for o in r["options"]:
                opt_classes[o["tclass"]] += 1
            if "no-valid-command-line-base" in r["skipped"] or "base-invocation-rejected" in r["skipped"]:
                skipped_cmds.append({"command": " ".join(r["path"]), "why": r.get("base_error", "no valid base")})
        for c in r["cases"]:
            rec = dict(c["rec"])
            rec["id"] = len(records)
            records.append(rec)
            meta.append(c)
        for c in r["reloads"]:
            rec = dict(c["rec"])
            rec["id"] = len(records)
            records.append(rec)
            meta.append(c)
    for c in template_records():
        rec = dict(c["rec"])
        rec["id"] = len(records)
        records.append(rec)
        meta.append(c)
    if not records:
        raise Machinery("no executions recorded")
    verdicts = _validate(records, rep, "batch")
    rep.traces = len(records)
    rep.evaluations = len(records)

    # ---- verdicts -> report
    kinds = Counter(r["kind"] for r in records)
    unspecified = Counter()
    drift = 0
    covered_classes: Counter[str] = Counter()
    for rec, m in zip(records, meta):
        v = verdicts[rec["id"]]
        d = m["detail"]
        if rec["kind"] == "prec":
            vals = [x for x in rec["val"].values() if x > 0]
            live = [s for s in ORDER if s in rec["present"] and s in rec["applies"]]
            if (len(vals) >= 2 and len(set(vals)) == len(vals)) or (live and rec["val"][live[0]] == 0):
                rep.nontrivial.add(rec["id"])
            covered_classes[d["type_class"]] += 1
            pk = json.dumps(d["pattern"], sort_keys=True)
            fk = C.flag_key(m["flags"])
            simple = all(x != -2 for x in rec["val"].values())
            if v == "ok-unspecified":
                why = ("positional-without-cli" if rec["positional"] and "cli" not in rec["present"]
                       else "source-not-declared-for-option" if set(rec["present"]) - set(rec["applies"])
                       else "shadowed-invalid-value-rejected")
                unspecified[why] += 1
            if v.startswith("ok"):
                want = table.get(fk, {}).get(pk)
                if simple and want is not None and not _agrees(want, rec):
                    drift += 1
                    rep.drift.append({"command": d["command"], "option": d["option"], "pattern": d["pattern"],
                                      "design": want, "code": rec["out"]})
            else:
                explained = "none"
                for n in ("Dev_S29_AnnotatedFieldsLoseConfigMeta",):
                    want = ex[n]["table"].get(fk, {}).get(pk)
                    if simple and want is not None and _agrees(want, rec):
                        explained = n
                rep.violate(v, _sig(d, rec, explained), {**d, "record": rec})
        elif rec["kind"] == "reload":
            if v != "ok":
                rep.violate(v, {"how": d["how"], "config_type": d["config_type"],
                                "fields": d["differs"][:4] or ["(rejected)"]}, d)
        else:
            if v != "ok":
                rep.violate(v, {"key": d["key"], "field_annotation": "/".join(d.get("annotation", []))}, d)
    rep.extra["records"] = dict(kinds)
    rep.extra["commands"] = ncmd
    rep.extra["option_instances"] = n_options
    rep.extra["option_type_classes"] = dict(opt_classes)
    rep.extra["cases_per_type_class"] = dict(covered_classes)
    rep.extra["unspecified"] = dict(unspecified)
    rep.extra["not_instantiable"] = dict(skipped)
    rep.extra["commands_without_valid_command_line"] = skipped_cmds
    rep.extra["spec_to_code_drift"] = drift
    rep.extra["verdicts"] = dict(Counter(verdicts.values()))
    rep.extra["deviation_flags_in_force"] = ["Dev_S30_PositionalIgnoresDefaults (lenient reading: unspecified)"]
    rep.exhaustive = True
    rep.extra["exhaustive_over"] = (
        ("every instantiable TLC case pattern (presence of cli/env/file x validity) x every non-hidden option of "
         "every command of load_commands(), through the per-command parser" if tier == "thorough" else
         "every instantiable all-valid presence pattern x every non-hidden option of every command of "
         "load_commands(); every validity pattern x every distinct option declaration (declaring class, name)")
        + ("; x 3 value variants (notations, short option names); the single-source and all-sources patterns of "
           "every option also through the whole-tree parser"
           if tier == "thorough" else "; whole-tree parser: seeded sample of 1 option per command"))
    ok_prec = [i for i, r in enumerate(records) if r["kind"] == "prec" and verdicts[r["id"]] == "ok"]
    for i in ok_prec[:: max(1, len(ok_prec) // 5)][:5]:
        d = meta[i]["detail"]
        rep.sample({"command": " ".join(d["command"]), "option": d["option"], "argv": d["argv"][-4:],
                    "env": d["env"], "toml": d["toml"], "observed": d["observed"], "val": records[i]["val"]})

    # ---- 4. binding self-tests: corrupted accepted records must be rejected
    cands = [i for i in ok_prec if records[i]["out"]["t"] == "value" and i in rep.nontrivial
             and sum(1 for x in records[i]["val"].values() if x > 0) >= 2]
    errs = [i for i in ok_prec if records[i]["out"]["t"] == "error" and records[i]["out"]["named"]
            and not records[i]["positional"] and "default" in records[i]["present"]]
    rel = [i for i, r in enumerate(records) if r["kind"] == "reload" and verdicts[r["id"]] == "ok" and len(r["orig"]) > 3]
    if not cands or not errs or not rel:
        raise Machinery(f"no accepted record to corrupt (value:{len(cands)} error:{len(errs)} reload:{len(rel)})")
    t1 = json.loads(json.dumps(records[cands[0]]))
    other = [x for x in t1["val"].values() if x > 0 and x != t1["out"]["id"]]
    t1["out"]["id"] = other[0]
    t2 = json.loads(json.dumps(records[errs[0]]))
    t2["out"] = {"t": "value", "id": t2["val"]["default"], "others": True}
    t3 = json.loads(json.dumps(records[errs[0]]))
    t3["out"]["named"] = []
    t4 = json.loads(json.dumps(records[rel[0]]))
    t4["re"][1] = max(t4["orig"]) + 1
    t5 = json.loads(json.dumps(records[cands[0]]))
    t5["out"]["others"] = False
    muts = [t1, t2, t3, t4, t5]
    for i, t in enumerate(muts):
        t["id"] = i
    mv = _validate(muts, None, "selftest")
    if any(mv[i].startswith("ok") for i in range(len(muts))):
        raise Machinery(f"binding self-test: corrupted records accepted: {mv}")
    rep.extra["binding_selftest"] = {"corrupted_rejected": [mv[i] for i in range(len(muts))],
                                     "redeclared_option_keys": _selftest_inherit_sources()}
    kept = sorted({(m["detail"]["declared_by"], m["detail"]["option"], m["detail"]["file_key"]) for m in meta
                   if m["detail"].get("sources_kept_from")})
    rep.extra["redeclarations_keeping_inherited_sources"] = [list(x) for x in kept][:20]
    return rep


def replay(path: str) -> int:
    quiet_gallia_logging()
    data = json.loads(open(path).read())
    cmds = L.walk_commands()
    bad = 0
    for v in data["violations"]:
        d = v["detail"]
        if "key" in d and "pattern" not in d:  # Q4
            recs = [c for c in template_records() if c["detail"]["key"] == d["key"]]
            rec = dict(recs[0]["rec"]) if recs else {"kind": "template", "template": [], "declared": [], "read": []}
            rec["id"] = 0
            verdict = _validate([rec], None, "replay")[0]
            print(f"replay template key={d['key']} record={rec} verdict={verdict}")
            bad += verdict != "ok"
            continue
        if "how" in d:  # Q3: re-create the configuration from its invocation, store it, feed it back
            idx = next(i for i, (p, _) in enumerate(cmds) if list(p) == d["command"])
            cmd = cmds[idx][1]
            sb = L.Sandbox()
            try:
                names = [o.name for o in L.options_of(cmd, sb)]
                o = d["origin"]
                cfg, err = sb.parse(cmd, o["argv"], o["env"], o["toml"])
                if cfg is None:
                    print(f"replay: invocation no longer parses: {L.error_message(err or '')[:200]}")
                    continue
                r = C.reload_record(cmd.CONFIG_TYPE, cfg, names, d["how"], C.LOADERS[d["how"]](cmd, sb))
            finally:
                sb.close()
            rec = dict(r["rec"])
            rec["id"] = 0
            verdict = _validate([rec], None, "replay")[0]
            print(f"replay reload {' '.join(d['command'])} argv={o['argv'][-4:]} how={d['how']} "
                  f"differs={r['detail']['differs']} error={r['detail']['error'][:120]!r} verdict={verdict}")
            bad += verdict != "ok"
            continue
        idx = next(i for i, (p, _) in enumerate(cmds) if list(p) == d["command"])
        sb = L.Sandbox()
        try:
            ctx = C.CommandCtx(cmds[idx][0], cmds[idx][1], sb)
            tree = L.load_commands() if d["mode"] == "tree" else None
            c = ctx.build_case(d["option"], d["pattern"], d["variant"], tree=tree, use_short=d.get("short", False))
        finally:
            sb.close()
        if c is None:
            print(f"replay: case no longer instantiable: {d['command']} {d['option']} {d['pattern']}")
            continue
        rec = dict(c["rec"])
        rec["id"] = 0
        verdict = _validate([rec], None, "replay")[0]
        print(f"replay {' '.join(d['command'])} {d['option']} pattern={d['pattern']} argv={c['detail']['argv'][-3:]} "
              f"env={c['detail']['env']} observed={c['detail']['observed']} verdict={verdict}")
        bad += not verdict.startswith("ok")
    if bad:
        print(f"VIOLATION property=C18 replay={path}")
        return 1
    return 0
