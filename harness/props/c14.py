"""C14 — the virtual ECU survives any request and its answers are accepted by the client.

spec   : spec/VEcuContract.tla (StepVerdictA: A1 no raise / loop alive / silence only with the
         suppress bit, A2 session offered, A3 well formed + accepted by the real client)
MC     : MC_VEcu_default (default switches: no raise, session always offered -- even with the
         as-found deviations of C13 switched on), MC_VEcu_a2neg negative control
binding: code -> spec, three ways, all validated by Trace_VEcu (TLC), mode "A":
         (1) UDSServerTransport.handle_request directly, reply judged by the client's helpers.parse_pdu;
         (2) the real UDSClient.request() against the server in-process;
         (3) the real TCPUDSServerTransport.handle_client loop and the real TCPLinesTransport +
             UDSClient joined by in-memory streams.
"""

from __future__ import annotations

import asyncio
import json
import random
import time
from concurrent.futures import ThreadPoolExecutor
from typing import Any

import gallia.services.uds.server as srv

from harness import c13_client as K
from harness import c13_corpus as C
from harness import c13_ecu as E
from harness import tlc, vloop
from harness.common import Machinery, Report, quiet_gallia_logging


# ------------------------------------------------------------------ request families
def random_strings(rnd: random.Random, n: int) -> list[bytes]:
    return [rnd.randbytes(rnd.randint(1, 64)) for _ in range(n)]


def sid_payloads(rnd: random.Random, variants: int) -> list[bytes]:
    """Every service id x 0..8 payload bytes (zeros, 0xFF, random)."""
    out = []
    for sid in range(256):
        for ln in range(0, 9):
            out.append(bytes([sid]) + bytes(ln))
            if ln:
                out.append(bytes([sid]) + b"\xff" * ln)
                for _ in range(variants):
                    out.append(bytes([sid]) + rnd.randbytes(ln))
    return out


def boundary(rnd: random.Random, m: C.Model) -> list[bytes]:
    """Boundary lengths: 4095-byte requests (the ISO-TP maximum) and their neighbours."""
    known = sorted({sid for v in m.values() for sid in v})
    sids = [0x22, 0x2E, 0x36, 0x31, 0x27, 0x10, 0x3E, 0x19, 0x34] + known[:4] + [rnd.randrange(256)]
    out = []
    for sid in sids:
        for total in (4094, 4095, 4096):
            out.append(bytes([sid]) + bytes(total - 1))
            out.append(bytes([sid]) + rnd.randbytes(total - 1))
        out.append(bytes([sid, 0x01]) + b"\xff" * 4093)
    return out


# ------------------------------------------------------------------ server mutants (binding self-test)
def mutant_servers() -> dict[str, Any]:
    class HandlerRaises(srv.RandomUDSServer):  # one request kind whose handler raises
        def read_data_by_identifier(self, request: Any) -> Any:
            if request.data_identifier == 0x1234:
                raise KeyError("no such identifier")
            return super().read_data_by_identifier(request)

    class WrongEcho(srv.RandomUDSServer):  # reply the client's matcher must refuse
        def default_response_if_session_read(self, request: Any) -> Any:
            r = super().default_response_if_session_read(request)
            if r is not None:
                r.data_identifier = 0xF187
            return r

    class LeavesOfferedSessions(srv.RandomUDSServer):  # accepts any session
        def default_response_if_sub_function_not_supported(self, request: Any) -> Any:
            if request.service_id == 0x10:
                return None
            return super().default_response_if_sub_function_not_supported(request)

    return {"handler-raises": (HandlerRaises, "A1/"), "wrong-echo": (WrongEcho, "A3/"),
            "leaves-offered-sessions": (LeavesOfferedSessions, "A2/")}


# ------------------------------------------------------------------ driving
def pick_sessions(m: C.Model, k: int) -> list[int]:
    others = sorted((s for s in m if s != 1), key=lambda s: (-len(m[s]), s))
    return [1] + others[:k]


async def drive(tier: str, seed: int, corpus: E.Corpus, info: dict[str, Any], *, server_cls: Any = None,
                small: bool = False) -> None:
    quick = tier == "quick"
    rnd = random.Random(seed + 1400)
    seeds = range(0, 2) if small else (range(0, 3) if quick else range(0, 10))
    counts = {"direct": 0, "client": 0, "tcp": 0, "run": 0}
    models = []
    for params in (("mandatory", "dense") if small else E.PARAMS):
        for sd in (range(0, 1) if small else seeds):
            s = await E.make_server(sd + 17 * seed, params)
            if server_cls is not None:
                mut = server_cls(s.seed, s.randomness_parameters)
                mut.services = s.services
                s = mut
            models.append((sd + 17 * seed, params, s, E.model_of(s)))
    info["models"] = len(models)
    for mi_, (sd, pa, s, m) in enumerate(models):
        mi = corpus.model_index(m)
        meta = {"seed": sd, "params": pa}
        # ---- (1) handle_request directly; the reply is judged by the client's parse_pdu
        p = K.ReplyProbe(s)
        for sess in pick_sessions(m, 1 if quick else 3):
            items: list[C.Item] = []
            items += C.structural_family(m, sess, rnd)
            items += random_strings(rnd, 400 if quick else 3000)
            items += C.model_aware_valid(m, sess, rnd, 80 if quick else 1500)
            items += C.structured_valid(rnd, 120 if quick else 1500)
            items += C.structured_boundary()
            items += C.idle_family(m, sess)
            if sess == 1 and (not quick or mi_ % 3 == 0):
                items += sid_payloads(rnd, 0 if quick else 2)
            if not small and (not quick or mi_ % 3 == 0):
                items += boundary(rnd, m)
            p.fresh(E.ALL)
            steps = []
            for it in items:
                if p.state()[0] != sess:
                    for t in (E.nav_path(m, p.state()[0], sess) or [])[:4]:
                        st = await p.exchange(bytes([0x10, t]))
                        st["a"] = E.client_verdict(p.reply, bytes([0x10, t]))
                        steps.append(st)
                pdu = it(p) if callable(it) else it
                if pdu is None:
                    continue
                st = await p.exchange(pdu)
                st["a"] = E.client_verdict(p.reply, pdu)
                steps.append(st)
            counts["direct"] += len(steps)
            corpus.add(m=mi, B=E.ALL, mode="A", steps=steps, meta=dict(meta, origin="direct", home=sess))
    info["counts"] = counts
    info["_models"] = models


def drive_client_and_tcp(tier: str, seed: int, corpus: E.Corpus, info: dict[str, Any], *, small: bool = False) -> None:
    """(2) and (3): the real client against the server, on the virtual-time loop."""
    quick = tier == "quick"
    rnd = random.Random(seed + 1401)
    models = info.pop("_models")
    counts = info["counts"]

    def pdus_for(m: C.Model, sess: int, p: E.Probe, n_rand: int, n_valid: int) -> list[C.Item]:
        items: list[C.Item] = list(C.structural_family(m, sess, rnd))
        items += random_strings(rnd, n_rand)
        items += C.model_aware_valid(m, sess, rnd, n_valid)
        items += C.structured_valid(rnd, n_valid)
        return items

    for mi_, (sd, pa, s, m) in enumerate(models):
        mi = corpus.model_index(m)
        meta = {"seed": sd, "params": pa}

        async def client_part() -> list[dict[str, Any]]:
            p = K.ReplyProbe(s)
            p.fresh(E.ALL)
            out: list[dict[str, Any]] = []
            for typed in (False, True):
                items = pdus_for(m, 1, p, 120 if quick else 600, 120 if quick else 600)
                # dynamic items (keys) are resolved one by one, so send in small slices
                buf: list[bytes] = []
                for it in items:
                    if callable(it):
                        if buf:
                            out.extend(await K.client_history(p, buf, typed=typed))
                            buf = []
                        pdu = it(p)
                        if pdu is not None:
                            out.extend(await K.client_history(p, [pdu], typed=typed))
                    else:
                        buf.append(it)
                if buf:
                    out.extend(await K.client_history(p, buf, typed=typed))
            return out

        steps = vloop.run(client_part())
        counts["client"] += len(steps)
        corpus.add(m=mi, B=E.ALL, mode="A", steps=steps, meta=dict(meta, origin="client"))

        if True:
            async def tcp_part() -> list[dict[str, Any]]:
                s.state = type(s.state)()
                loop = K.TcpLoop(s)
                p0 = E.Probe(s, hook_pre=False)
                items = pdus_for(m, 1, p0, 60 if quick else 300, 60 if quick else 300)
                pdus = [(it(p0) if callable(it) else it) for it in items]
                pdus = [x for x in pdus if x is not None]
                pdus += [bytes([0x22]) + bytes(4094), bytes([0x3E, 0x00])]
                return await loop.history(pdus, typed=False)

            steps = vloop.run(tcp_part())
            counts["tcp"] += len(steps)
            corpus.add(m=mi, B=E.ALL, mode="A", steps=steps, meta=dict(meta, origin="tcp"))

        # ---- (4) the server started the way `gallia script vecu` starts it: UnixUDSServerTransport.run() on a real
        # socket, real client transport, real event loop; requests of every size class up to the 4095 byte maximum
        import shutil
        import tempfile

        tmpd = tempfile.mkdtemp(prefix="c14-")
        try:
            s.state = type(s.state)()
            sizes = [1, 2, 3, 255, 2047, 2048, 2049, 3000, 4095] if mi_ < 2 or not quick else [3, 2049, 4095]
            pdus_r = [bytes([0x3E, 0x00])]
            for n in sizes:
                pdus_r += [(bytes([0x2E, 0xF1, 0x90]) + bytes((i * 7 + n) & 0xFF for i in range(n)))[:max(n, 1)],
                           bytes([0x3E, 0x00])]
            unpatched = srv.time
            srv.time = time.time  # real event loop: real clock (the constant harness clock is for the other paths)
            try:
                steps = asyncio.run(K.RunLoop(s, f"{tmpd}/vecu.sock").history(pdus_r))
            finally:
                srv.time = unpatched
            counts["run"] = counts.get("run", 0) + len(steps)
            corpus.add(m=mi, B=E.ALL, mode="A", steps=steps, meta=dict(meta, origin="run"))
        finally:
            shutil.rmtree(tmpd, ignore_errors=True)


def collect(corpus: E.Corpus, parallel: int = 6) -> tuple[dict[int, tuple[str, list[tuple[int, str]], int]], dict[str, dict[str, Any]]]:
    verdicts = corpus.validate(parallel=parallel, steps_per_batch=36000)
    agg: dict[str, dict[str, Any]] = {}
    for t in corpus.traces:
        verdict, bad, _u = verdicts[t["id"]]
        for idx, label in bad:
            st = t["steps"][idx - 1]
            sig = {"exc": st["x"], "sid": st["q"][0], "path": t["meta"].get("origin", "?"), "acc": st["a"],
                   "len_class": "1" if st["n"] == 1 else ("2" if st["n"] == 2 else ("<=8" if st["n"] <= 9 else ">8"))}
            key = json.dumps([label, sig], sort_keys=True)
            a = agg.setdefault(key, {"label": label, "sig": sig, "n": 0, "detail": None})
            a["n"] += 1
            if a["detail"] is None:
                lo = max(0, idx - 10)
                start = t["init"] if lo == 0 else {"s": t["steps"][lo - 1]["s"], "l": t["steps"][lo - 1]["l"]}
                a["detail"] = {"meta": t["meta"], "start_state": start,
                               "requests": [s["hex"] for s in t["steps"][lo:idx]],
                               "failing": dict({k: st[k] for k in ("rhex", "x", "s", "l", "a", "al")}, hex=st["hex"][:64])}
    return verdicts, agg


def run(tier: str, seed: int) -> Report:
    quiet_gallia_logging()
    E.patch_env(seed)
    rep = Report("C14", tier, seed)
    rep.rule = ("one evaluation = one request sent to a real RandomUDSServer (directly through handle_request, through "
                "the real UDSClient.request() in-process, or through the real TCP connection loop and TCPLinesTransport "
                "on in-memory streams) and judged by TLC (Trace_VEcu mode A, clauses A1..A3); distinct = distinct "
                "(model, path, state before, request bytes); non-trivial = the request is not answered with "
                "serviceNotSupported")
    rep.assumptions = [
        "the 10 s inactivity reset of UDSServerTransport is kept out of play (constant clock patched into "
        "gallia.services.uds.server in the harness process); RNG() without seeds is made reproducible the same way",
        "default behaviour switches (the statement of C14 does not quantify over them; C13 does)",
        "the statement speaks of byte strings a client sends: the empty request, non-hex lines and a connection "
        "closed without any request (handle_client then divides by zero when logging the average) are out of scope",
        "client timeout 0.2 s of virtual time; a missing answer is accepted only for a request whose byte 2 has "
        "the suppress bit (C13 checks the exact suppression rule)",
        "A3 'accepted by the client' = helpers.parse_pdu / UDSClient.request() raise neither RequestResponseMismatch "
        "nor MalformedResponse; the matcher itself is the subject of C03",
    ]
    phases: dict[str, float] = {}
    t_last = [time.time()]

    def mark(name: str) -> None:  # informational only
        now = time.time()
        phases[name] = round(now - t_last[0], 1)
        t_last[0] = now

    rep.extra["phase_s"] = phases
    pool = ThreadPoolExecutor(max_workers=2)
    jobs = {"MC_VEcu_default": pool.submit(tlc.run_tlc, "MC_VEcu", "MC_VEcu_default.cfg", coverage=False, timeout=900,
                                           workers=2, parse_prints=False),
            "MC_VEcu_a2neg": pool.submit(tlc.run_tlc, "MC_VEcu", "MC_VEcu_a2neg.cfg", timeout=900, workers=1,
                                         parse_prints=False)}
    corpus = E.Corpus()
    info: dict[str, Any] = {}
    asyncio.run(drive(tier, seed, corpus, info))
    mark("drive-direct")
    drive_client_and_tcp(tier, seed, corpus, info)
    mark("drive-client-tcp")
    verdicts, agg = collect(corpus)
    mark("validate")
    for res in corpus.tlc_results:
        rep.add_tlc(res, "Trace_VEcu batch")
    for a in agg.values():
        a["detail"]["occurrences"] = a["n"]
        rep.violate(a["label"], a["sig"], a["detail"])
    rep.traces = len(corpus.traces)
    rep.evaluations = corpus.n_steps
    for t in corpus.traces:
        prev = t["init"]["s"]
        o = t["meta"].get("origin")
        for s in t["steps"]:
            if not (s["vk"] == "bytes" and s["vn"] == 3 and s["vb"][0] == 0x7F and s["vb"][2] == 0x11):
                rep.nontrivial.add(hash((t["m"], o, prev, s["hex"])))
            prev = s["s"]
    for t in (corpus.traces[0], corpus.traces[-1]):
        rep.sample({"model": t["meta"], "exchanges": [(s["hex"][:32], s["rhex"], s["a"], s["s"]) for s in t["steps"][:8]]})
    rep.extra.update(info)
    rep.extra["silent_steps"] = sum(1 for t in corpus.traces for s in t["steps"] if s["vk"] == "none")
    rep.extra["positive_replies"] = sum(1 for t in corpus.traces for s in t["steps"]
                                        if s["vk"] == "bytes" and s["vb"][0] != 0x7F)
    rep.extra["max_request_len"] = max(s["n"] for t in corpus.traces for s in t["steps"])
    rep.exhaustive = False
    for name, job in jobs.items():
        res = job.result()
        rep.add_tlc(res, name + (" (negative control)" if name.endswith("neg") else ""))
        if name == "MC_VEcu_a2neg":
            if res.violated != "A2_Unconditional":
                raise Machinery(f"negative control {name} did not violate A2_Unconditional (got {res.violated})")
        elif not res.ok:
            rep.violate(f"design/{res.violated}", {"where": "VEcu design layer", "cfg": name},
                        {"cex": res.cex[-4:], "out": res.out[-1500:]})
    pool.shutdown()
    mark("model-checking (tail)")
    # binding self-tests: (i) corrupted traces, (ii) mutated servers -- one TLC run
    n_real = len(corpus.traces)
    corrupted = corrupt_traces(corpus, verdicts)
    if not corrupted and not rep.violations:
        raise Machinery("binding self-test: no accepted exchange to corrupt")
    mut_traces: dict[str, list[dict[str, Any]]] = {}
    for name, (cls, _prefix) in mutant_servers().items():
        n0 = len(corpus.traces)
        minfo: dict[str, Any] = {}
        asyncio.run(drive("quick", seed, corpus, minfo, server_cls=cls, small=True))
        drive_client_and_tcp("quick", seed, corpus, minfo, small=True)
        mut_traces[name] = corpus.traces[n0:]
    sv = corpus.validate([c for _k, c in corrupted] + [t for ts in mut_traces.values() for t in ts], parallel=1,
                         steps_per_batch=10**9)
    del corpus.traces[n_real:]
    cor = {k: sv[c["id"]][0] for k, c in corrupted}
    if any(x == "ok" for x in cor.values()):
        raise Machinery(f"binding self-test: corrupted traces accepted: {cor}")
    mres: dict[str, Any] = {}
    for name, (_cls, prefix) in mutant_servers().items():
        labels = sorted({lab for t in mut_traces[name] for _i, lab in sv[t["id"]][1]})
        paths = sorted({t["meta"].get("origin") for t in mut_traces[name]
                        if any(lab.startswith(prefix) for _i, lab in sv[t["id"]][1])})
        mres[name] = {"labels": labels, "paths": paths}
        if not any(lab.startswith(prefix) for lab in labels):
            if rep.violations:  # the tree under test is itself broken: report that, not the self-test
                mres[name]["inconclusive"] = "the tree under test already violates the contract"
                continue
            raise Machinery(f"binding self-test: server mutant '{name}' not rejected with a {prefix} clause "
                            f"(labels: {labels})")
    rep.extra["binding_selftest"] = {"corrupted": cor, "server_mutants": mres}
    mark("selftests")
    E.unpatch_env()
    return rep


def corrupt_traces(corpus: E.Corpus, verdicts: dict[int, tuple[str, list[tuple[int, str]], int]]) -> list[tuple[str, dict[str, Any]]]:
    # an accepted prefix of a recorded trace (steps are judged one by one)
    t = None
    i = -1
    for cand in corpus.traces:
        bad = verdicts[cand["id"]][1]
        upto = (min(j for j, _l in bad) - 1) if bad else len(cand["steps"])
        i = next((j for j, s in enumerate(cand["steps"][:upto]) if s["vk"] == "bytes"), -1)
        if i >= 0:
            t = cand
            break
    if t is None:
        return []
    cs = []
    for k, upd in (("acc", {"a": "Mismatch"}), ("session", {"s": 0x7D}), ("alive", {"al": False}),
                   ("raised", {"x": "KeyError"}), ("echo", {"vb": [0x7F, (t["steps"][i]["q"][0] + 1) % 256, 0x11], "vn": 3}),
                   ("silence", {"vk": "none", "vn": 0, "vb": [], "q": [t["steps"][i]["q"][0], 0x01], "n": 2, "a": "silent"})):
        c = json.loads(json.dumps(t))
        c["steps"] = c["steps"][: i + 1]
        c["steps"][i].update(upd)
        c["id"] = 10**7 + len(cs)
        cs.append((k, c))
    return cs


def replay(path: str) -> int:
    quiet_gallia_logging()
    data = json.loads(open(path).read())
    E.patch_env(int(data.get("seed", 0)))
    bad = 0
    for v in data["violations"]:
        d = v["detail"]
        meta = d["meta"]

        async def go() -> list[dict[str, Any]]:
            s = await E.make_server(meta["seed"], meta["params"])
            m0 = E.model_of(s)
            nav = E.nav_path(m0, 1, d["start_state"]["s"])
            if nav is None:  # a session the model does not offer cannot be reached by requests
                print(f"replay: start session {d['start_state']['s']:#x} is not offered by this model; set by assignment")
                s.state.session = d["start_state"]["s"]
                nav = []
            pdus = [bytes([0x10, t]) for t in nav] + [bytes.fromhex(h) for h in d["requests"]]
            if meta.get("origin") == "tcp":
                return await K.TcpLoop(s).history(pdus)
            p = K.ReplyProbe(s)
            if meta.get("origin") == "client":
                return await K.client_history(p, pdus, typed=False)
            steps = []
            for pdu in pdus:
                st = await p.exchange(pdu)
                st["a"] = E.client_verdict(p.reply, pdu)
                steps.append(st)
            return steps

        steps = vloop.run(go())

        async def model() -> C.Model:
            return E.model_of(await E.make_server(meta["seed"], meta["params"]))

        m = asyncio.run(model())
        c = E.Corpus()
        c.add(m=c.model_index(m), B=E.ALL, mode="A", steps=steps, meta={}, init=(1, -1))
        verdict = c.validate(parallel=1)[0][0] if steps else "ok"
        last = steps[-1] if steps else {}
        print(f"replay path={meta.get('origin')} requests={[h[:24] for h in d['requests'][-3:]]} reply={last.get('rhex')} "
              f"raised={last.get('x') or '-'} client={last.get('a')} verdict={verdict}")
        bad += verdict != "ok"
    E.unpatch_env()
    if bad:
        print(f"VIOLATION property=C14 replay={path}")
        return 1
    return 0
