"""C14 — the virtual ECU survives any request and its answers are accepted by the client.

spec   : spec/VEcuContract.tla (StepVerdictA: A1 no raise / loop alive / silence only with the
         suppress bit, A2 session offered, A3 well formed + accepted by the real client)
MC     : MC_VEcu_default (default switches: no raise, session always offered -- even with the
         as-found deviations of C13 switched on), MC_VEcu_a2neg negative control
binding: code -> spec, three ways, all validated by Trace_VEcu (TLC), mode "A":
         (1) UDSServerTransport.handle_request directly, reply judged by the client's helpers.parse_pdu;
         (2) the real UDSClient.request() against the server in-process;
         (3) the real TCPUDSServerTransport.handle_client loop and the real TCPLinesTransport +
             UDSClient joined by in-memory streams.
histories: besides the families of (mostly independent) requests, structured multi-step histories of the services
         that keep state between requests, derived from the model: SecurityAccess over every ordered pair / triple of
         the levels a session offers (in every session that offers one), consecutive DiagnosticSessionControl,
         RoutineControl start/stop/results, RequestDownload/Upload-TransferData-Exit (see `stateful_histories`).
objects  : all of the above hand a fresh request object to the client for every exchange.  Family "reused-objects"
         (`reuse_plans`): request objects a script KEEPS -- one RawRequest whose `pdu` is reassigned between sends, typed
         requests whose public fields are reassigned, the same object sent twice unchanged, two objects of equal
         content, an object sent / changed / sent / changed back / sent -- through UDSClient.request() and against
         helpers.parse_pdu directly; every answer must be accepted as the answer to the bytes that were really sent.
"""

from __future__ import annotations

import asyncio
import json
import random
import time
from concurrent.futures import ThreadPoolExecutor
from typing import Any

import gallia.services.uds.server as srv

from harness import c13_client as K
from harness import c13_corpus as C
from harness import c13_ecu as E
from harness import tlc, vloop
from harness.common import Machinery, Report, quiet_gallia_logging


# ------------------------------------------------------------------ request families
def random_strings(rnd: random.Random, n: int) -> list[bytes]:
    return [rnd.randbytes(rnd.randint(1, 64)) for _ in range(n)]


def sid_payloads(rnd: random.Random, variants: int) -> list[bytes]:
    """Every service id x 0..8 payload bytes (zeros, 0xFF, random)."""
    out = []
    for sid in range(256):
        for ln in range(0, 9):
            out.append(bytes([sid]) + bytes(ln))
            if ln:
                out.append(bytes([sid]) + b"\xff" * ln)
                for _ in range(variants):
                    out.append(bytes([sid]) + rnd.randbytes(ln))
    return out


def boundary(rnd: random.Random, m: C.Model) -> list[bytes]:
    """Boundary lengths: 4095-byte requests (the ISO-TP maximum) and their neighbours."""
    known = sorted({sid for v in m.values() for sid in v})
    sids = [0x22, 0x2E, 0x36, 0x31, 0x27, 0x10, 0x3E, 0x19, 0x34] + known[:4] + [rnd.randrange(256)]
    out = []
    for sid in sids:
        for total in (4094, 4095, 4096):
            out.append(bytes([sid]) + bytes(total - 1))
            out.append(bytes([sid]) + rnd.randbytes(total - 1))
        out.append(bytes([sid, 0x01]) + b"\xff" * 4093)
    return out


# ------------------------------------------------------------------ structured multi-step histories
# The families above are (mostly) independent requests.  The services below keep state BETWEEN requests -- or are
# the ones an ECU keeps state for (pending seed, active session, running routine, open transfer) --, so they are also
# asked in every short ORDER of their steps, derived from the model (`server.services`): what is offered in the active
# session decides which levels / sessions are combined.  A history is a list of items; the state is only brought back
# to the home session BETWEEN histories, never inside one.
SID_IOC, SID_RD, SID_RU, SID_TD, SID_RTE = 0x2F, 0x34, 0x35, 0x36, 0x37
History = list[C.Item]


def key_for(level: int, how: str = "right", suppress: bool = False) -> Any:
    """SendKey for seed level `level` (odd) computed from the seed handed out last: the reply to the preceding request
    if that was a seed reply (whatever level it names), else the server's own bookkeeping.  how: right | wrong."""

    def f(p: Any) -> bytes | None:
        seed: bytes | None = None
        r = getattr(p, "reply", None)
        if r is not None and len(r) >= 2 and r[0] == E.SID_SA + 0x40 and r[1] % 2 == 1:
            seed = bytes(r[2:])
        else:
            ls = p.last_seed()
            if ls is not None:
                seed = ls[1]
        if how == "right":
            if not seed:
                return None  # a key has at least one byte; nothing to answer an empty / unknown seed with
            key = seed
        else:
            key = bytes([(seed[0] if seed else 0) ^ 0xFF]) + (seed[1:] if seed else b"")
        return bytes([E.SID_SA, (level + 1) | (0x80 if suppress else 0)]) + key

    return f


def seed_levels(m: C.Model, sess: int) -> list[int]:
    return [x for x in (m.get(sess, {}).get(E.SID_SA) or []) if x % 2 == 1]


def pick_levels(levels: list[int], k: int, rnd: random.Random) -> list[int]:
    """At most k of the offered levels: the first ones, the last one and a random one in between."""
    if len(levels) <= k:
        return list(levels)
    if k <= 2:
        return sorted({levels[0], levels[-1]})[:max(k, 1)]
    return sorted(set(levels[:k - 2]) | {levels[-1], rnd.choice(levels[k - 2:-1])})


def sa_histories(m: C.Model, sess: int, rnd: random.Random, k_pairs: int, k_triples: int) -> list[History]:
    """SecurityAccess: every ordered pair (A, B) -- A = B included -- of levels the session offers, with everything a
    tester may do between the two seed requests (nothing, TesterPresent answered / suppressed, a key that is right /
    wrong / for the other level / suppressed, another service, a level that is not offered, a session change, a reset,
    a seed request with the suppress bit or a data record), and the ordered triples."""
    here = m.get(sess, {})
    offered = seed_levels(m, sess)
    if not offered:
        return []
    levels = pick_levels(offered, k_pairs, rnd)
    tp, tps, rd = bytes([E.SID_TP, 0x00]), bytes([E.SID_TP, 0x80]), bytes([E.SID_RDBI, 0xF1, 0x86])
    unoffered = next(x for x in [0x7D, 0x6B, 0x05, 0x09] + list(range(1, 0x7E, 2)) if x not in offered)
    resets = (here.get(E.SID_ER) or [])[:1]
    plain = [s for s in sorted(here) if here[s] is None and s != E.SID_RDBI][:1]

    def seed(lv: int, sup: bool = False, rec: bytes = b"") -> bytes:
        return bytes([E.SID_SA, lv | (0x80 if sup else 0)]) + rec

    out: list[History] = []
    for a in levels:
        for b in levels:
            out += [
                [seed(a), seed(b), key_for(b)],
                [seed(a), tp, seed(b), key_for(b)],
                [seed(a), tps, seed(b), key_for(b, "wrong")],
                [seed(a, True), seed(b), key_for(b)],
                [seed(a), seed(b, True), key_for(b)],
                [seed(a, True), tps, seed(b, True), tp],
                [seed(a), key_for(b), seed(b), key_for(b)],  # a key for another level than the one just asked
                [seed(a), key_for(a, "wrong"), seed(b), key_for(b)],
                [seed(a), key_for(a), seed(b), key_for(b), seed(a)],
                [seed(a), key_for(a, suppress=True), seed(b), key_for(b, suppress=True), tp],
                [seed(a), rd, seed(b), key_for(b)],
                [seed(a, rec=b"\x01\x02"), seed(b), seed(a, rec=b"\x00")],
                [seed(a), seed(unoffered), seed(b), key_for(b)],
                [seed(a), bytes([E.SID_SA]), seed(b)],
                [seed(a), bytes([E.SID_SA, a + 1]), seed(b), key_for(b)],
            ]
            for sid in plain:
                out.append([seed(a), bytes([sid, 0x12, 0x34, 0x56]), seed(b)])
            for sub in resets:
                out.append([seed(a), bytes([E.SID_ER, sub]), seed(b), key_for(b)])
            if sess in (here.get(E.SID_DSC) or []):
                out.append([seed(a), bytes([E.SID_DSC, sess]), seed(b), key_for(b)])
    tri = pick_levels(offered, k_triples, rnd)
    if len(offered) >= 2:
        for a in tri:
            for b in tri:
                for c in tri:
                    if a == b == c:
                        continue
                    out += [[seed(a), seed(b), seed(c), key_for(c)],
                            [seed(a), tp, seed(b), tps, seed(c), key_for(c, "wrong")],
                            [seed(a), key_for(a), seed(b), key_for(b), seed(c), key_for(c), rd]]
    # a seed left pending while the session changes: the levels of the session entered
    for t in [x for x in (here.get(E.SID_DSC) or []) if x != sess and x in m][:3]:
        for a in levels[:2]:
            for b in pick_levels(seed_levels(m, t), 2, rnd):
                out += [[seed(a), bytes([E.SID_DSC, t]), seed(b), key_for(b)],
                        [seed(a), key_for(a), bytes([E.SID_DSC, t | 0x80]), seed(b), key_for(b)]]
    return out


def dsc_histories(m: C.Model, sess: int, k: int) -> list[History]:
    """DiagnosticSessionControl: consecutive session changes along the offered transitions (t from the home session,
    u from t), answered / suppressed, repeated, with TesterPresent or a reset between them; the session is read back."""
    here = m.get(sess, {})
    rd, tp = bytes([E.SID_RDBI, 0xF1, 0x86]), bytes([E.SID_TP, 0x00])
    out: list[History] = []
    for t in [x for x in (here.get(E.SID_DSC) or []) if x in m][:k]:
        there = m[t]
        for u in (there.get(E.SID_DSC) or [])[:k]:
            out += [[bytes([E.SID_DSC, t]), bytes([E.SID_DSC, u]), rd],
                    [bytes([E.SID_DSC, t]), tp, bytes([E.SID_DSC, u]), bytes([E.SID_DSC, t]), rd],
                    [bytes([E.SID_DSC, t | 0x80]), bytes([E.SID_DSC, u | 0x80]), rd],
                    [bytes([E.SID_DSC, t | 0x80]), bytes([E.SID_DSC, u]), bytes([E.SID_DSC, u]), rd]]
        out.append([bytes([E.SID_DSC, t]), bytes([E.SID_DSC, t]), rd, bytes([E.SID_DSC, C.unoffered_session(m)]), rd])
        for sub in (there.get(E.SID_ER) or [])[:2]:
            out.append([bytes([E.SID_DSC, t]), bytes([E.SID_ER, sub]), rd, bytes([E.SID_DSC, t]), rd])
    return out


def rc_histories(m: C.Model, sess: int, rnd: random.Random, n_rids: int) -> list[History]:
    """RoutineControl: start / stop / requestResults of one routine in every order a tester produces (twice, results
    before start, stop after stop, with the suppress bit, with an option record), and two routines interleaved."""
    if E.SID_RC not in m.get(sess, {}):
        return []
    rids = [0x0000, 0x0203, 0xFF00, 0xFF01][:max(1, n_rids - 2)] + [rnd.randrange(0x10000) for _ in range(2)]

    def rc(sub: int, rid: int, sup: bool = False, rec: bytes = b"") -> bytes:
        return bytes([E.SID_RC, sub | (0x80 if sup else 0), rid >> 8, rid & 0xFF]) + rec

    out: list[History] = []
    for i, r in enumerate(rids):
        r2 = rids[(i + 1) % len(rids)]
        out += [[rc(1, r), rc(1, r), rc(3, r), rc(2, r), rc(3, r), rc(2, r)],
                [rc(3, r), rc(2, r), rc(1, r, True), rc(3, r), rc(2, r, True), rc(3, r, True), rc(1, r, rec=b"\x01")],
                [rc(1, r), rc(1, r2), rc(3, r), rc(2, r2), rc(3, r2), rc(2, r)]]
    return out


def transfer_histories(m: C.Model, sess: int) -> list[History]:
    """RequestDownload / RequestUpload - TransferData - RequestTransferExit, in and out of sequence (block counter
    repeated / skipped / wrapped, exit without transfer, transfer after exit, a second request while one is open)."""
    if not any(s in m.get(sess, {}) for s in (SID_RD, SID_RU, SID_TD, SID_RTE)):
        return []
    dl, ul = bytes([SID_RD, 0x00, 0x22, 0x10, 0x00, 0x00, 0x40]), bytes([SID_RU, 0x00, 0x22, 0x10, 0x00, 0x00, 0x40])
    ex = bytes([SID_RTE])

    def td(n: int, data: bytes = b"\xde\xad\xbe\xef") -> bytes:
        return bytes([SID_TD, n & 0xFF]) + data

    return [[dl, td(1), td(2), td(3), ex],
            [dl, td(1), td(1), td(3), td(0), ex, td(1), ex],
            [ex], [td(1)], [td(0xFF), td(0x00), td(0x01)],
            [ul, td(1, b""), td(2, b""), ex],
            [dl, dl, ex, ex], [dl, ul, td(1), ex], [ul, bytes([E.SID_TP, 0x00]), td(1, b""), ex + b"\x00"]]


def sa_core_histories(m: C.Model, sess: int, rnd: random.Random, k: int) -> list[History]:
    """The two shortest histories of every ordered pair of levels (seed A, [TesterPresent,] seed B, key B)."""
    levels = pick_levels(seed_levels(m, sess), k, rnd)
    return [[bytes([E.SID_SA, a])] + mid + [bytes([E.SID_SA, b]), key_for(b)]
            for a in levels for b in levels for mid in ([], [bytes([E.SID_TP, 0x00])])]


def some(rnd: random.Random, hists: list[History], n: int) -> list[History]:
    return hists if len(hists) <= n else rnd.sample(hists, n)


def stateful_histories(m: C.Model, sess: int, rnd: random.Random, *, main: bool, quick: bool) -> list[History]:
    """main: one of the sessions the other families are run in; otherwise a session that is only visited because it
    offers a stateful service (reduced set).  thorough: main sessions get every history over four levels and a
    sample of those over eight, the other sessions every history over two levels (first / last) and a sample of those
    over four.  quick: main sessions get every history over two levels and a sample of those over four; the other
    sessions the shortest histories of every ordered pair of two levels and a sample of the rest."""
    if not quick:
        if main:
            out = sa_histories(m, sess, rnd, 4, 3) + some(rnd, sa_histories(m, sess, rnd, 8, 4), 60)
        else:
            out = sa_histories(m, sess, rnd, 2, 2) + some(rnd, sa_histories(m, sess, rnd, 4, 3), 20)
        out += dsc_histories(m, sess, 6 if main else 2) + rc_histories(m, sess, rnd, 6 if main else 3)
        return out + transfer_histories(m, sess)
    if main:
        out = sa_histories(m, sess, rnd, 2, 2) + some(rnd, sa_histories(m, sess, rnd, 4, 3), 30)
        out += some(rnd, dsc_histories(m, sess, 3), 12) + some(rnd, rc_histories(m, sess, rnd, 4), 6)
        return out + transfer_histories(m, sess)
    out = sa_core_histories(m, sess, rnd, 2) + some(rnd, sa_histories(m, sess, rnd, 2, 2), 8)
    return out + some(rnd, rc_histories(m, sess, rnd, 2), 2) + some(rnd, transfer_histories(m, sess), 3)


def stateful_sessions(m: C.Model, main: list[int], k: int) -> list[int]:
    """Every session that offers at least one SecurityAccess level, then (up to k) sessions that are only of interest
    for RoutineControl / the transfer services -- without the main sessions, reachable ones only."""
    sa = [s for s in sorted(m) if s not in main and seed_levels(m, s)]
    rest = [s for s in sorted(m) if s not in main and s not in sa
            and any(x in m[s] for x in (E.SID_RC, SID_RD, SID_RU, SID_TD, SID_RTE))]
    return [s for s in sa + rest[:k] if E.nav_path(m, 1, s) is not None]


async def go_home(m: C.Model, cur: int, home: int, send: Any) -> None:
    """DiagnosticSessionControl requests (part of the recorded history) that lead back to the home session."""
    if cur == home:
        return
    path = E.nav_path(m, cur, home)
    if path is None:
        path = [1] + (E.nav_path(m, 1, home) or [])
    for t in path[:5]:
        await send(bytes([E.SID_DSC, t]))


async def run_histories_direct(p: Any, m: C.Model, home: int, hists: list[History]) -> list[dict[str, Any]]:
    steps: list[dict[str, Any]] = []

    async def send(pdu: bytes) -> None:
        st = await p.exchange(pdu)
        st["a"] = E.client_verdict(p.reply, pdu)
        steps.append(st)

    for h in hists:
        await go_home(m, p.state()[0], home, send)
        for it in h:
            pdu = it(p) if callable(it) else it
            if pdu is not None:
                await send(pdu)
    return steps


async def run_histories_client(p: Any, m: C.Model, home: int, hists: list[History], typed: bool) -> list[dict[str, Any]]:
    steps: list[dict[str, Any]] = []

    async def send(pdu: bytes) -> None:
        steps.extend(await K.client_history(p, [pdu], typed=typed))

    for h in hists:
        await go_home(m, p.state()[0], home, send)
        for it in h:
            pdu = it(p) if callable(it) else it
            if pdu is not None:
                await send(pdu)
    return steps


def static_sa_histories(m: C.Model, sess: int, suppress: bool = True) -> list[bytes]:
    """Seed-after-seed histories that need no reply to be built (for the paths on which all requests are fixed before
    the first one is sent): the first two and the last level the session offers."""
    lv = seed_levels(m, sess)
    lv = lv if len(lv) <= 3 else lv[:2] + lv[-1:]
    out: list[bytes] = []
    for a in lv:
        for b in lv:
            out += [bytes([E.SID_SA, a]), bytes([E.SID_SA, b]), bytes([E.SID_SA, b + 1, 0xAA]),
                    bytes([E.SID_SA, a]), bytes([E.SID_TP, 0x00]), bytes([E.SID_SA, b]), bytes([E.SID_RDBI, 0xF1, 0x86])]
            if suppress:
                out += [bytes([E.SID_SA, a | 0x80]), bytes([E.SID_SA, b]), bytes([E.SID_SA, a]), bytes([E.SID_TP, 0x80]),
                        bytes([E.SID_SA, b]), bytes([E.SID_SA, b + 1])]
    return out


# ------------------------------------------------------------------ re-used request objects
# A3 says "accepted as the answer to exactly THAT request": the request of an exchange is what was sent, whatever the
# object that carried it contained at an earlier exchange.  A send is (object key within the plan, content, typed):
# the first send of a key creates the object (RawRequest(content) / UDSRequest.parse_dynamic(content)), a later one
# with another content assigns it through the public API of the class (K.assign_content) and sends the SAME object.
Reuse = tuple[int, bytes, bool]


def reuse_pool(m: C.Model, sess: int, rnd: random.Random, n: int) -> list[bytes]:
    """Requests whose answers differ in what a client can look at: every service the session offers (every offered
    sub-function of the sub-function services), identifiers / sessions answered positively, services of other
    sessions, an unknown service, a missing sub-function, suppressed answers, plus a sample of the codec generators."""
    here = m.get(sess, {})
    pool: list[bytes] = [bytes([E.SID_TP, 0x00]), bytes([E.SID_RDBI, 0xF1, 0x86]), bytes([E.SID_RDBI, 0x12, 0x34]),
                         bytes([E.SID_RDBI, 0x43, 0x21]), bytes([E.SID_RDBI, 0xF1, 0x86, 0x12, 0x34]),
                         bytes([0x2E, 0x12, 0x34, 0x0A]), bytes([0x2E, 0xF1, 0x90, 0x01, 0x02]), bytes([0x85]),
                         bytes([E.SID_TP, 0x80]), bytes([E.SID_DSC, C.unoffered_session(m)]), bytes([E.SID_DSC, sess])]
    for sid in sorted(here):
        subs = here[sid]
        if subs is None:
            pool += [bytes([sid]) + rnd.randbytes(2), bytes([sid]) + rnd.randbytes(3)]
            continue
        for sub in pick_levels(sorted(subs), 4, rnd):
            if sid == E.SID_SA and sub % 2 == 0:
                continue  # a key needs the seed of an earlier answer
            for tail in C.valid_tails(sid, sub)[:2]:
                pool.append(bytes([sid, sub]) + tail)
    known = {sid for v in m.values() for sid in v}
    pool += [bytes([sid, 0x01, 0x02]) for sid in sorted(known - set(here))[:2]]
    pool.append(bytes([next(x for x in (0xBA, 0x84, 0x29, 0x3B) + tuple(range(1, 0x3E)) if x not in known), 0x01]))
    pool += [x for x in C.model_aware_valid(m, sess, rnd, n) if not callable(x)]
    pool += C.structured_valid(rnd, n)
    out: list[bytes] = []
    for x in pool:
        if x and x not in out:
            out.append(bytes(x))
    return out


def reuse_plans(m: C.Model, sess: int, rnd: random.Random, *, n_pool: int, k_chain: int,
                n_small: int) -> list[tuple[str, list[Reuse]]]:
    pool = reuse_pool(m, sess, rnd, n_pool)
    plans: list[tuple[str, list[Reuse]]] = []
    # (a) one RawRequest, `pdu` reassigned before every send
    sh = list(pool)
    rnd.shuffle(sh)
    for i in range(0, len(sh), k_chain):
        plans.append(("raw-reassigned", [(0, x, False) for x in sh[i:i + k_chain]]))
    # (b) one typed request per request class, its public fields reassigned before every send
    groups: dict[str, list[bytes]] = {}
    for x in pool:
        r = K.as_request(x, True)
        if not isinstance(r, K.service.RawRequest):
            groups.setdefault(type(r).__name__, []).append(x)
    same_class: list[tuple[bytes, bytes]] = []
    for name in sorted(groups):
        ps = groups[name]
        if len(ps) < 2:
            continue
        for i in range(0, len(ps), k_chain):
            chain = ps[i:i + k_chain] if len(ps) - i >= 2 else ps[-2:]
            plans.append(("typed-reassigned", [(0, x, True) for x in chain]))
        same_class += [(ps[j], ps[(j + 1) % len(ps)]) for j in range(len(ps))]
    # (c) small shapes over pairs of contents (a, b): raw over any pair, typed over pairs of one request class
    raw_pairs = [tuple(rnd.sample(pool, 2)) for _ in range(n_small)]
    typed_pairs = same_class if len(same_class) <= n_small else rnd.sample(same_class, n_small)
    for typed, pairs in ((False, raw_pairs), (True, typed_pairs)):
        for a, b in pairs:
            plans.append(("unchanged-twice", [(0, a, typed), (0, a, typed), (1, b, typed), (1, b, typed)]))
            plans.append(("equal-content", [(0, a, typed), (1, a, typed), (2, b, typed), (3, b, typed), (0, a, typed)]))
            plans.append(("there-and-back", [(0, a, typed), (0, b, typed), (0, a, typed), (0, b, typed)]))
    return plans


async def run_reuse_plans(p: Any, m: C.Model, home: int, plans: list[tuple[str, list[Reuse]]], *,
                          direct: bool) -> list[dict[str, Any]]:
    sender = K.ObjectSender(p, direct=direct)

    async def nav(pdu: bytes) -> None:
        await sender.send(K.service.RawRequest(pdu), "fresh")

    for label, sends in plans:
        await go_home(m, p.state()[0], home, nav)
        objs: dict[int, Any] = {}
        for key, content, typed in sends:
            if key not in objs:
                objs[key] = K.as_request(content, typed)
            elif bytes(objs[key].pdu) != content and not K.assign_content(objs[key], content):
                break  # this class does not offer the assignment: nothing is claimed about the object
            await sender.send(objs[key], label)
    return sender.steps


# ------------------------------------------------------------------ server mutants (binding self-test)
def mutant_servers() -> dict[str, Any]:
    class HandlerRaises(srv.RandomUDSServer):  # one request kind whose handler raises
        def read_data_by_identifier(self, request: Any) -> Any:
            if request.data_identifier == 0x1234:
                raise KeyError("no such identifier")
            return super().read_data_by_identifier(request)

    class WrongEcho(srv.RandomUDSServer):  # reply the client's matcher must refuse
        def default_response_if_session_read(self, request: Any) -> Any:
            r = super().default_response_if_session_read(request)
            if r is not None:
                r.data_identifier = 0xF187
            return r

    class LeavesOfferedSessions(srv.RandomUDSServer):  # accepts any session
        def default_response_if_sub_function_not_supported(self, request: Any) -> Any:
            if request.service_id == 0x10:
                return None
            return super().default_response_if_sub_function_not_supported(request)

    return {"handler-raises": (HandlerRaises, "A1/"), "wrong-echo": (WrongEcho, "A3/"),
            "leaves-offered-sessions": (LeavesOfferedSessions, "A2/")}


# ------------------------------------------------------------------ driving
def pick_sessions(m: C.Model, k: int) -> list[int]:
    others = sorted((s for s in m if s != 1), key=lambda s: (-len(m[s]), s))
    return [1] + others[:k]


async def drive(tier: str, seed: int, corpus: E.Corpus, info: dict[str, Any], *, server_cls: Any = None,
                small: bool = False) -> None:
    quick = tier == "quick"
    rnd = random.Random(seed + 1400)
    rnd_h = random.Random(seed + 1402)  # the structured histories draw from their own stream
    rnd_o = random.Random(seed + 1404)  # so do the re-used request objects
    seeds = range(0, 2) if small else (range(0, 3) if quick else range(0, 10))
    counts = {"direct": 0, "direct-stateful": 0, "client": 0, "client-stateful": 0, "tcp": 0, "run": 0}
    models = []
    for params in (("mandatory", "dense") if small else E.PARAMS):
        for sd in (range(0, 1) if small else seeds):
            s = await E.make_server(sd + 17 * seed, params)
            if server_cls is not None:
                mut = server_cls(s.seed, s.randomness_parameters)
                mut.services = s.services
                s = mut
            models.append((sd + 17 * seed, params, s, E.model_of(s)))
    info["models"] = len(models)
    for mi_, (sd, pa, s, m) in enumerate(models):
        mi = corpus.model_index(m)
        meta = {"seed": sd, "params": pa}
        # ---- (1) handle_request directly; the reply is judged by the client's parse_pdu
        p = K.ReplyProbe(s)
        for sess in pick_sessions(m, 1 if quick else 3):
            items: list[C.Item] = []
            items += C.structural_family(m, sess, rnd)
            items += random_strings(rnd, 400 if quick else 3000)
            items += C.model_aware_valid(m, sess, rnd, 80 if quick else 1500)
            items += C.structured_valid(rnd, 120 if quick else 1500)
            items += C.structured_boundary()
            items += C.idle_family(m, sess)
            if sess == 1 and (not quick or mi_ % 3 == 0):
                items += sid_payloads(rnd, 0 if quick else 2)
            if not small and (not quick or mi_ % 3 == 0):
                items += boundary(rnd, m)
            p.fresh(E.ALL)
            steps = []
            for it in items:
                if p.state()[0] != sess:
                    for t in (E.nav_path(m, p.state()[0], sess) or [])[:4]:
                        st = await p.exchange(bytes([0x10, t]))
                        st["a"] = E.client_verdict(p.reply, bytes([0x10, t]))
                        steps.append(st)
                pdu = it(p) if callable(it) else it
                if pdu is None:
                    continue
                st = await p.exchange(pdu)
                st["a"] = E.client_verdict(p.reply, pdu)
                steps.append(st)
            counts["direct"] += len(steps)
            corpus.add(m=mi, B=E.ALL, mode="A", steps=steps, meta=dict(meta, origin="direct", home=sess))
        # ---- (1b) structured multi-step histories of the stateful services, in every session that offers them
        main = pick_sessions(m, 1 if quick else 3)
        for sess in main + stateful_sessions(m, main, 1 if small else (2 if quick else 6)):
            hists = stateful_histories(m, sess, rnd_h, main=sess in main, quick=quick)
            if not hists:
                continue
            p.fresh(E.ALL)
            steps = await run_histories_direct(p, m, sess, hists)
            counts["direct-stateful"] += len(steps)
            corpus.add(m=mi, B=E.ALL, mode="A", steps=steps,
                       meta=dict(meta, origin="direct", home=sess, family="stateful"))
        # ---- (1c) re-used request objects, the reply judged by helpers.parse_pdu(reply, <the object that was sent>)
        if not small:
            for sess in pick_sessions(m, 1 if quick else 3):
                plans = reuse_plans(m, sess, rnd_o, n_pool=12 if quick else 80, k_chain=8, n_small=4 if quick else 24)
                p.fresh(E.ALL)
                steps = await run_reuse_plans(p, m, sess, plans, direct=True)
                counts["direct-reused"] = counts.get("direct-reused", 0) + len(steps)
                corpus.add(m=mi, B=E.ALL, mode="A", steps=steps,
                           meta=dict(meta, origin="direct", home=sess, family="reused-objects"))
    info["counts"] = counts
    info["_models"] = models


def drive_client_and_tcp(tier: str, seed: int, corpus: E.Corpus, info: dict[str, Any], *, small: bool = False) -> None:
    """(2) and (3): the real client against the server, on the virtual-time loop."""
    quick = tier == "quick"
    rnd = random.Random(seed + 1401)
    rnd_h = random.Random(seed + 1403)
    rnd_o = random.Random(seed + 1405)
    models = info.pop("_models")
    counts = info["counts"]

    def pdus_for(m: C.Model, sess: int, p: E.Probe, n_rand: int, n_valid: int) -> list[C.Item]:
        items: list[C.Item] = list(C.structural_family(m, sess, rnd))
        items += random_strings(rnd, n_rand)
        items += C.model_aware_valid(m, sess, rnd, n_valid)
        items += C.structured_valid(rnd, n_valid)
        return items

    for mi_, (sd, pa, s, m) in enumerate(models):
        mi = corpus.model_index(m)
        meta = {"seed": sd, "params": pa}

        async def client_part() -> list[dict[str, Any]]:
            p = K.ReplyProbe(s)
            p.fresh(E.ALL)
            out: list[dict[str, Any]] = []
            for typed in (False, True):
                items = pdus_for(m, 1, p, 120 if quick else 600, 120 if quick else 600)
                # dynamic items (keys) are resolved one by one, so send in small slices
                buf: list[bytes] = []
                for it in items:
                    if callable(it):
                        if buf:
                            out.extend(await K.client_history(p, buf, typed=typed))
                            buf = []
                        pdu = it(p)
                        if pdu is not None:
                            out.extend(await K.client_history(p, [pdu], typed=typed))
                    else:
                        buf.append(it)
                if buf:
                    out.extend(await K.client_history(p, buf, typed=typed))
            return out

        steps = vloop.run(client_part())
        counts["client"] += len(steps)
        corpus.add(m=mi, B=E.ALL, mode="A", steps=steps, meta=dict(meta, origin="client"))

        # ---- (2b) the structured multi-step histories through the real client (raw and typed requests): the default
        # session and the first other session that offers two SecurityAccess levels (else one)
        others = sorted((x for x in m if x != 1 and seed_levels(m, x) and E.nav_path(m, 1, x) is not None),
                        key=lambda x: (len(seed_levels(m, x)) < 2, x))
        for sess in [1] + others[:1]:
            hists = sa_core_histories(m, sess, rnd_h, 2 if quick else 4)
            hists += some(rnd_h, sa_histories(m, sess, rnd_h, 3, 3), 20 if quick else 100)
            hists += some(rnd_h, dsc_histories(m, sess, 2), 4 if quick else 40)
            hists += some(rnd_h, rc_histories(m, sess, rnd_h, 2), 2 if quick else 20)
            hists += some(rnd_h, transfer_histories(m, sess), 2 if quick else 20)
            if not hists:
                continue

            async def client_hist_part() -> list[dict[str, Any]]:
                p = K.ReplyProbe(s)
                out: list[dict[str, Any]] = []
                for typed in (False, True):
                    p.fresh(E.ALL)
                    out.extend(await run_histories_client(p, m, sess, hists, typed))
                return out

            steps = vloop.run(client_hist_part())
            counts["client-stateful"] += len(steps)
            corpus.add(m=mi, B=E.ALL, mode="A", steps=steps,
                       meta=dict(meta, origin="client", home=sess, family="stateful"))

        # ---- (2c) re-used request objects through the real UDSClient.request()
        for sess in ([] if small else pick_sessions(m, 1 if quick else 3)):
            plans = reuse_plans(m, sess, rnd_o, n_pool=12 if quick else 80, k_chain=8, n_small=4 if quick else 24)

            async def client_reuse_part() -> list[dict[str, Any]]:
                p = K.ReplyProbe(s)
                p.fresh(E.ALL)
                return await run_reuse_plans(p, m, sess, plans, direct=False)

            steps = vloop.run(client_reuse_part())
            counts["client-reused"] = counts.get("client-reused", 0) + len(steps)
            corpus.add(m=mi, B=E.ALL, mode="A", steps=steps,
                       meta=dict(meta, origin="client", home=sess, family="reused-objects"))

        if True:
            async def tcp_part() -> list[dict[str, Any]]:
                s.state = type(s.state)()
                loop = K.TcpLoop(s)
                p0 = E.Probe(s, hook_pre=False)
                items = pdus_for(m, 1, p0, 60 if quick else 300, 60 if quick else 300)
                pdus = [(it(p0) if callable(it) else it) for it in items]
                pdus = [x for x in pdus if x is not None]
                pdus += [bytes([0x22]) + bytes(4094), bytes([0x3E, 0x00])]
                pdus += static_sa_histories(m, 1)
                return await loop.history(pdus, typed=False)

            steps = vloop.run(tcp_part())
            counts["tcp"] += len(steps)
            corpus.add(m=mi, B=E.ALL, mode="A", steps=steps, meta=dict(meta, origin="tcp"))

        # ---- (4) the server started the way `gallia script vecu` starts it: UnixUDSServerTransport.run() on a real
        # socket, real client transport, real event loop; requests of every size class up to the 4095 byte maximum
        import shutil
        import tempfile

        tmpd = tempfile.mkdtemp(prefix="c14-")
        try:
            s.state = type(s.state)()
            sizes = [1, 2, 3, 255, 2047, 2048, 2049, 3000, 4095] if mi_ < 2 or not quick else [3, 2049, 4095]
            pdus_r = [bytes([0x3E, 0x00])]
            for n in sizes:
                pdus_r += [(bytes([0x2E, 0xF1, 0x90]) + bytes((i * 7 + n) & 0xFF for i in range(n)))[:max(n, 1)],
                           bytes([0x3E, 0x00])]
            pdus_r += static_sa_histories(m, 1, suppress=False)  # every request answered: no client timeout to wait for
            unpatched = srv.time
            srv.time = time.time  # real event loop: real clock (the constant harness clock is for the other paths)
            try:
                steps = asyncio.run(K.RunLoop(s, f"{tmpd}/vecu.sock").history(pdus_r))
            finally:
                srv.time = unpatched
            counts["run"] = counts.get("run", 0) + len(steps)
            corpus.add(m=mi, B=E.ALL, mode="A", steps=steps, meta=dict(meta, origin="run"))
        finally:
            shutil.rmtree(tmpd, ignore_errors=True)


def collect(corpus: E.Corpus, parallel: int = 6) -> tuple[dict[int, tuple[str, list[tuple[int, str]], int]], dict[str, dict[str, Any]]]:
    verdicts = corpus.validate(parallel=parallel, steps_per_batch=36000)
    agg: dict[str, dict[str, Any]] = {}
    for t in corpus.traces:
        verdict, bad, _u = verdicts[t["id"]]
        for idx, label in bad:
            st = t["steps"][idx - 1]
            sig = {"exc": st["x"], "sid": st["q"][0], "path": t["meta"].get("origin", "?"), "acc": st["a"],
                   "len_class": "1" if st["n"] == 1 else ("2" if st["n"] == 2 else ("<=8" if st["n"] <= 9 else ">8"))}
            if st.get("reuse"):  # family "reused-objects": how the object that carried the request was re-used
                sig["request_object"] = st["reuse"] + ("/typed" if st.get("typed") else "/raw")
            key = json.dumps([label, sig], sort_keys=True)
            a = agg.setdefault(key, {"label": label, "sig": sig, "n": 0, "detail": None})
            a["n"] += 1
            if a["detail"] is None:
                lo = max(0, idx - 10)
                start = t["init"] if lo == 0 else {"s": t["steps"][lo - 1]["s"], "l": t["steps"][lo - 1]["l"]}
                a["detail"] = {"meta": t["meta"], "start_state": start,
                               "requests": [s["hex"] for s in t["steps"][lo:idx]],
                               **({"objects": [[s.get("obj", -1), bool(s.get("typed"))] for s in t["steps"][lo:idx]]}
                                  if t["meta"].get("family") == "reused-objects" else {}),
                               "failing": dict({k: st[k] for k in ("rhex", "x", "s", "l", "a", "al")}, hex=st["hex"][:64])}
    return verdicts, agg


def run(tier: str, seed: int) -> Report:
    quiet_gallia_logging()
    E.patch_env(seed)
    rep = Report("C14", tier, seed)
    rep.rule = ("one evaluation = one request sent to a real RandomUDSServer (directly through handle_request, through "
                "the real UDSClient.request() in-process, or through the real TCP connection loop and TCPLinesTransport "
                "on in-memory streams) and judged by TLC (Trace_VEcu mode A, clauses A1..A3); distinct = distinct "
                "(model, path, state before, request bytes); non-trivial = the request is not answered with "
                "serviceNotSupported")
    rep.assumptions = [
        "the 10 s inactivity reset of UDSServerTransport is kept out of play (constant clock patched into "
        "gallia.services.uds.server in the harness process); RNG() without seeds is made reproducible the same way",
        "default behaviour switches (the statement of C14 does not quantify over them; C13 does)",
        "the statement speaks of byte strings a client sends: the empty request, non-hex lines and a connection "
        "closed without any request (handle_client then divides by zero when logging the average) are out of scope",
        "client timeout 0.2 s of virtual time; a missing answer is accepted only for a request whose byte 2 has "
        "the suppress bit (C13 checks the exact suppression rule)",
        "A3 'accepted by the client' = helpers.parse_pdu / UDSClient.request() raise neither RequestResponseMismatch "
        "nor MalformedResponse; the matcher itself is the subject of C03",
    ]
    phases: dict[str, float] = {}
    t_last = [time.time()]

    def mark(name: str) -> None:  # informational only
        now = time.time()
        phases[name] = round(now - t_last[0], 1)
        t_last[0] = now

    rep.extra["phase_s"] = phases
    pool = ThreadPoolExecutor(max_workers=2)
    jobs = {"MC_VEcu_default": pool.submit(tlc.run_tlc, "MC_VEcu", "MC_VEcu_default.cfg", coverage=False, timeout=900,
                                           workers=2, parse_prints=False),
            "MC_VEcu_a2neg": pool.submit(tlc.run_tlc, "MC_VEcu", "MC_VEcu_a2neg.cfg", timeout=900, workers=1,
                                         parse_prints=False)}
    corpus = E.Corpus()
    info: dict[str, Any] = {}
    asyncio.run(drive(tier, seed, corpus, info))
    mark("drive-direct")
    drive_client_and_tcp(tier, seed, corpus, info)
    mark("drive-client-tcp")
    verdicts, agg = collect(corpus)
    mark("validate")
    for res in corpus.tlc_results:
        rep.add_tlc(res, "Trace_VEcu batch")
    for a in agg.values():
        a["detail"]["occurrences"] = a["n"]
        rep.violate(a["label"], a["sig"], a["detail"])
    rep.traces = len(corpus.traces)
    rep.evaluations = corpus.n_steps
    for t in corpus.traces:
        prev = t["init"]["s"]
        o = t["meta"].get("origin")
        for s in t["steps"]:
            if not (s["vk"] == "bytes" and s["vn"] == 3 and s["vb"][0] == 0x7F and s["vb"][2] == 0x11):
                rep.nontrivial.add(hash((t["m"], o, prev, s["hex"])))
            prev = s["s"]
    for t in (corpus.traces[0], corpus.traces[-1]):
        rep.sample({"model": t["meta"], "exchanges": [(s["hex"][:32], s["rhex"], s["a"], s["s"]) for s in t["steps"][:8]]})
    rep.extra.update(info)
    rep.extra["silent_steps"] = sum(1 for t in corpus.traces for s in t["steps"] if s["vk"] == "none")
    rep.extra["positive_replies"] = sum(1 for t in corpus.traces for s in t["steps"]
                                        if s["vk"] == "bytes" and s["vb"][0] != 0x7F)
    rep.extra["max_request_len"] = max(s["n"] for t in corpus.traces for s in t["steps"])
    # family "reused-objects": how many exchanges would have been judged differently against the content the same
    # object had at its previous exchange (the family is blind to a client that looks at anything but the current
    # content of the object if there are none)
    reused = [s for t in corpus.traces if t["meta"].get("family") == "reused-objects" for s in t["steps"]]
    rep.extra["reused_objects"] = {
        "exchanges": len(reused), "with_changed_content_where_the_old_content_would_be_rejected": {
            o + "/" + k: sum(1 for t in corpus.traces if t["meta"].get("family") == "reused-objects"
                             and t["meta"].get("origin") == o for s in t["steps"]
                             if s.get("stale") and bool(s.get("typed")) == (k == "typed"))
            for o in ("direct", "client") for k in ("raw", "typed")},
        "shapes": sorted({s.get("reuse", "") for s in reused})}
    disc = rep.extra["reused_objects"]["with_changed_content_where_the_old_content_would_be_rejected"]
    # (typed requests without assignable fields would be a legitimate design: their two counts are informational)
    if K.assign_content(K.service.RawRequest(b"\x3e\x00"), b"\x10\x01") and not rep.violations \
            and (disc["direct/raw"] == 0 or disc["client/raw"] == 0):
        raise Machinery(f"family reused-objects does not discriminate: {rep.extra['reused_objects']}")
    rep.exhaustive = False
    for name, job in jobs.items():
        res = job.result()
        rep.add_tlc(res, name + (" (negative control)" if name.endswith("neg") else ""))
        if name == "MC_VEcu_a2neg":
            if res.violated != "A2_Unconditional":
                raise Machinery(f"negative control {name} did not violate A2_Unconditional (got {res.violated})")
        elif not res.ok:
            rep.violate(f"design/{res.violated}", {"where": "VEcu design layer", "cfg": name},
                        {"cex": res.cex[-4:], "out": res.out[-1500:]})
    pool.shutdown()
    mark("model-checking (tail)")
    # binding self-tests: (i) corrupted traces, (ii) mutated servers -- one TLC run
    n_real = len(corpus.traces)
    corrupted = corrupt_traces(corpus, verdicts)
    if not corrupted and not rep.violations:
        raise Machinery("binding self-test: no accepted exchange to corrupt")
    mut_traces: dict[str, list[dict[str, Any]]] = {}
    for name, (cls, _prefix) in mutant_servers().items():
        n0 = len(corpus.traces)
        minfo: dict[str, Any] = {}
        asyncio.run(drive("quick", seed, corpus, minfo, server_cls=cls, small=True))
        drive_client_and_tcp("quick", seed, corpus, minfo, small=True)
        mut_traces[name] = corpus.traces[n0:]
    sv = corpus.validate([c for _k, c in corrupted] + [t for ts in mut_traces.values() for t in ts], parallel=1,
                         steps_per_batch=10**9)
    del corpus.traces[n_real:]
    cor = {k: sv[c["id"]][0] for k, c in corrupted}
    if any(x == "ok" for x in cor.values()):
        raise Machinery(f"binding self-test: corrupted traces accepted: {cor}")
    mres: dict[str, Any] = {}
    for name, (_cls, prefix) in mutant_servers().items():
        labels = sorted({lab for t in mut_traces[name] for _i, lab in sv[t["id"]][1]})
        paths = sorted({t["meta"].get("origin") for t in mut_traces[name]
                        if any(lab.startswith(prefix) for _i, lab in sv[t["id"]][1])})
        mres[name] = {"labels": labels, "paths": paths}
        if not any(lab.startswith(prefix) for lab in labels):
            if rep.violations:  # the tree under test is itself broken: report that, not the self-test
                mres[name]["inconclusive"] = "the tree under test already violates the contract"
                continue
            raise Machinery(f"binding self-test: server mutant '{name}' not rejected with a {prefix} clause "
                            f"(labels: {labels})")
    rep.extra["binding_selftest"] = {"corrupted": cor, "server_mutants": mres}
    mark("selftests")
    E.unpatch_env()
    return rep


def corrupt_traces(corpus: E.Corpus, verdicts: dict[int, tuple[str, list[tuple[int, str]], int]]) -> list[tuple[str, dict[str, Any]]]:
    # an accepted prefix of a recorded trace (steps are judged one by one)
    t = None
    i = -1
    for cand in corpus.traces:
        bad = verdicts[cand["id"]][1]
        upto = (min(j for j, _l in bad) - 1) if bad else len(cand["steps"])
        i = next((j for j, s in enumerate(cand["steps"][:upto]) if s["vk"] == "bytes"), -1)
        if i >= 0:
            t = cand
            break
    if t is None:
        return []
    cs = []
    for k, upd in (("acc", {"a": "Mismatch"}), ("session", {"s": 0x7D}), ("alive", {"al": False}),
                   ("raised", {"x": "KeyError"}), ("echo", {"vb": [0x7F, (t["steps"][i]["q"][0] + 1) % 256, 0x11], "vn": 3}),
                   ("silence", {"vk": "none", "vn": 0, "vb": [], "q": [t["steps"][i]["q"][0], 0x01], "n": 2, "a": "silent"})):
        c = json.loads(json.dumps(t))
        c["steps"] = c["steps"][: i + 1]
        c["steps"][i].update(upd)
        c["id"] = 10**7 + len(cs)
        cs.append((k, c))
    return cs


def replay(path: str) -> int:
    quiet_gallia_logging()
    data = json.loads(open(path).read())
    E.patch_env(int(data.get("seed", 0)))
    bad = 0
    for v in data["violations"]:
        d = v["detail"]
        meta = d["meta"]

        async def go() -> list[dict[str, Any]]:
            s = await E.make_server(meta["seed"], meta["params"])
            m0 = E.model_of(s)
            nav = E.nav_path(m0, 1, d["start_state"]["s"])
            if nav is None:  # a session the model does not offer cannot be reached by requests
                print(f"replay: start session {d['start_state']['s']:#x} is not offered by this model; set by assignment")
                s.state.session = d["start_state"]["s"]
                nav = []
            pdus = [bytes([0x10, t]) for t in nav] + [bytes.fromhex(h) for h in d["requests"]]
            if meta.get("family") == "reused-objects":  # the recorded requests with the recorded object identities
                sender = K.ObjectSender(K.ReplyProbe(s), direct=meta.get("origin") == "direct")
                for t in nav:
                    await sender.send(K.service.RawRequest(bytes([0x10, t])), "fresh")
                objs: dict[int, Any] = {}
                for h, (o, typed) in zip(d["requests"], d.get("objects") or [[-1, False]] * len(d["requests"])):
                    content = bytes.fromhex(h)
                    if o not in objs or o < 0 or (bytes(objs[o].pdu) != content and not K.assign_content(objs[o], content)):
                        objs[o] = K.as_request(content, typed)
                    await sender.send(objs[o], "replay")
                return sender.steps
            if meta.get("origin") == "tcp":
                return await K.TcpLoop(s).history(pdus)
            p = K.ReplyProbe(s)
            if meta.get("origin") == "client":
                return await K.client_history(p, pdus, typed=False)
            steps = []
            for pdu in pdus:
                st = await p.exchange(pdu)
                st["a"] = E.client_verdict(p.reply, pdu)
                steps.append(st)
            return steps

        steps = vloop.run(go())

        async def model() -> C.Model:
            return E.model_of(await E.make_server(meta["seed"], meta["params"]))

        m = asyncio.run(model())
        c = E.Corpus()
        c.add(m=c.model_index(m), B=E.ALL, mode="A", steps=steps, meta={}, init=(1, -1))
        verdict = c.validate(parallel=1)[0][0] if steps else "ok"
        last = steps[-1] if steps else {}
        print(f"replay path={meta.get('origin')} requests={[h[:24] for h in d['requests'][-3:]]} reply={last.get('rhex')} "
              f"raised={last.get('x') or '-'} client={last.get('a')} verdict={verdict}")
        bad += verdict != "ok"
    E.unpatch_env()
    if bad:
        print(f"VIOLATION property=C14 replay={path}")
        return 1
    return 0
