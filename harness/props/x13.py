"""X13 (growth) -- gallia's XCP master: command packets, response decoding in the announced byte order, error /
timeout reporting of services/xcp (XCPService, CANXCPSerivce); the sequence and connection life cycle of
`primitive xcp`; the probes, verdicts and robustness of `discover xcp tcp|udp`.

spec   : spec/XcpContract.tla (S0..S3, R0/R1, P1, D0..D2, E1/E2, N1, T1/T2, Q1..Q3, F1..F5; layouts by position)
         spec/XcpCodec.tla (design of the construct decoders) + spec/Xcp.tla (design of the request/response
         sequence, the CAN receive loop, the primitive) + spec/XcpFind.tla (design of the port scanners)
MC     : quick: MC_XcpCodec_quick, MC_Xcp_{primq,idq,mixq,canq}; thorough: MC_XcpCodec_all (every byte / byte pair, both
         byte orders), MC_Xcp_{prim,id,mix,mix6,can}; both: MC_XcpFind_{tcp,udp}, coverage runs MC_Xcp_cov{raw,can};
         negative controls MC_Xcp_dev* (devF1, devF2 = the tree as found), MC_XcpCodec_dev*, MC_XcpFind_dev* (devF3 = as found)
binding: the REAL XCPService over harness.fakes.ScriptedTransport, the REAL CANXCPSerivce over a scripted subclass of
         RawCANTransport (no AF_CAN in the sandbox), the REAL SimpleTestXCP.run() over the real TCPTransport on
         in-memory streams, the REAL TcpFindXCP / UdpFindXCP .run() over an in-memory socket module; virtual time;
         code->spec: every execution validated by Trace_Xcp (TLC steps through the calls of a session);
         spec->code: TLC-simulated design behaviours (raw and CAN) replayed into the real service (DRIFT only).
findings on tree f9913de: X13-F1 (CAN receive loop restarts the timeout), X13-F2 (primitive xcp connects twice, never
         closes the connection it uses), X13-F3 (UDP scan aborted by a short datagram); note X13-N1 (no Ethernet framing).
"""

from __future__ import annotations

import hashlib
import json
import multiprocessing as mp
import os
from concurrent.futures import ThreadPoolExecutor
from typing import Any

from harness import tlc
from harness import x13_cases as cs
from harness.c10_stack import setup_logging_once
from harness.common import Machinery, Report
from harness.x13_run import run_case

NPROC = max(2, min(10, (os.cpu_count() or 4) - 2))

MC_COMMON = [("MC_Xcp", "covraw"), ("MC_Xcp", "covcan"), ("MC_XcpFind", "tcp"), ("MC_XcpFind", "udp")]
MC_QUICK = [("MC_Xcp", "primq"), ("MC_Xcp", "idq"), ("MC_Xcp", "mixq"), ("MC_Xcp", "canq"), ("MC_XcpCodec", "quick")]
MC_THOROUGH = [("MC_Xcp", "prim"), ("MC_Xcp", "id"), ("MC_Xcp", "mix"), ("MC_Xcp", "mix6"), ("MC_Xcp", "can"),
               ("MC_XcpCodec", "all")]
BIG = {("MC_XcpCodec", "all"), ("MC_Xcp", "mix6"), ("MC_Xcp", "mix"), ("MC_Xcp", "id")}
# short runs: do not spend CPU on the optimising JIT / many GC threads
SMALL_JVM = {"JAVA_TOOL_OPTIONS": "-XX:TieredStopAtLevel=1 -XX:ParallelGCThreads=2 -XX:CICompilerCount=1"}
# negative controls: config -> (invariant TLC must name, label the counterexample must carry)
NEG = {
    ("MC_Xcp", "devF1"): ("T_Timeout_Inv", "T2/timeout-later-than-the-request-timeout"),
    ("MC_Xcp", "devF2"): ("Q_Primitive_Inv", "Q3/connection-used-for-xcp-never-closed"),
    ("MC_Xcp", "devErrAsOk"): ("E_Error_Inv", "E1/"),
    ("MC_Xcp", "devCanNoFilter"): ("R_OneAnswer_Inv", "R0/"),
    ("MC_Xcp", "devNoCatch"): ("Q_Primitive_Inv", "Q1/step-not-attempted"),
    ("MC_Xcp", "devWrongCode"): ("S_Send_Inv", "S2/"),
    ("MC_Xcp", "devSwallowTimeout"): ("T_Timeout_Inv", "T1/"),
    ("MC_Xcp", "devLsbFirst"): ("D_Decode_Inv", "D1/"),
    ("MC_Xcp", "devIgnoreBO"): ("D_Decode_Inv", "D1/"),
    ("MC_Xcp", "devNoStrip"): ("D_Decode_Inv", "D1/"),
    ("MC_XcpCodec", "devLsbFirst"): ("LayoutAgrees", ""),
    ("MC_XcpCodec", "devIgnoreBO"): ("LayoutAgrees", ""),
    ("MC_XcpCodec", "devNoStrip"): ("LayoutAgrees", ""),
    ("MC_XcpFind", "devF3"): ("F_Find_Inv", ""),
    ("MC_XcpFind", "devNoDisconnect"): ("F_Find_Inv", ""),
    ("MC_XcpFind", "devReportAny"): ("F_Find_Inv", ""),
    ("MC_XcpFind", "devNoHeader"): ("F_Find_Inv", ""),
    ("MC_XcpFind", "devStopAtSilent"): ("F_Find_Inv", ""),
}
COVER = {("MC_Xcp", "covraw"), ("MC_Xcp", "covcan"), ("MC_XcpFind", "udp")}
DESIGN_ACTIONS = ("Call", "EnvAnswer", "EnvForeign", "EnvSilence", "EnvEmpty", "Teardown", "Probe")
TRACE_DROP = ("excmsg", "origin", "results", "cls")


# ------------------------------------------------------------------ model checking
def _mc(rep: Report, tier: str) -> None:
    jobs: list[tuple[str, str, tuple[str, str] | None]] = [(m, c, None) for m, c in
                                                           (MC_THOROUGH if tier == "thorough" else MC_QUICK)]
    jobs += [(m, c, None) for m, c in MC_COMMON]
    jobs += [(m, c, want) for (m, c), want in NEG.items()]

    def one(j: tuple[str, str, tuple[str, str] | None]) -> Any:
        m, c, want = j
        big = (m, c) in BIG
        small = (want is not None or (m, c) in MC_COMMON) and (m, c) not in COVER  # (coverage output + JVM options: OOM)
        return tlc.run_tlc(m, f"{m}_{c}.cfg", workers=6 if big else (1 if small else 2), timeout=1500,
                           coverage=(m, c) in COVER, heap="3g" if big else "1g", env=SMALL_JVM if small else None)

    with ThreadPoolExecutor(max_workers=6) as ex:
        results = list(ex.map(one, jobs))
    cover: dict[str, int] = {}
    for (m, c, want), res in zip(jobs, results):
        rep.add_tlc(res, f"{m}_{c}" + (" (negative control)" if want else ""))
        if want is None:
            if not res.ok:
                rep.violate(f"design/{res.violated}", {"where": f"design layer {m}", "cfg": c},
                            {"cex": res.cex[-6:], "out": res.out[-1500:]})
        else:
            inv, label = want
            if res.violated != inv or (label and f'"{label}' not in res.out):
                raise Machinery(f"negative control {m}_{c} did not violate {inv} / {label!r} (got {res.violated}): "
                                "the contract is vacuous there")
        if (m, c) in COVER:
            for a, (n, _) in res.coverage.items():
                if a in DESIGN_ACTIONS:
                    cover[a] = cover.get(a, 0) + n
    never = [a for a in DESIGN_ACTIONS if cover.get(a, 0) == 0]
    if never:
        raise Machinery(f"design actions never taken in the coverage runs: {never}")
    rep.extra["design_action_coverage"] = cover
    rep.extra["negative_controls"] = sorted(f"{m}_{c}" for m, c in NEG)


# ------------------------------------------------------------------ real executions
def _run_cases(cases: list[dict[str, Any]]) -> list[dict[str, Any]]:
    if not cases:
        return []
    ctx = mp.get_context("fork")
    with ctx.Pool(NPROC) as pool:
        return pool.map(run_case, cases, chunksize=8)


def _slim(t: dict[str, Any]) -> dict[str, Any]:
    x = {k: v for k, v in t.items() if k not in TRACE_DROP}
    if t["kind"] == "sess":
        x["calls"] = [{k: v for k, v in c.items() if k not in TRACE_DROP} for c in t["calls"]]
    elif t["kind"] == "find":
        x["ports"] = [{k: v for k, v in p.items() if k not in TRACE_DROP} for p in t["ports"]]
    return x


def _weight(t: dict[str, Any]) -> int:
    return len(t["calls"]) if t["kind"] == "sess" else 1


def _validate(traces: list[dict[str, Any]], rep: Report | None) -> tuple[dict[int, str], dict[int, int], dict[int, int]]:
    jobs: list[list[dict[str, Any]]] = []
    cur: list[dict[str, Any]] = []
    w = 0
    for t in traces:
        cur.append(t)
        w += _weight(t) + 1
        if w >= 2500:
            jobs.append(cur)
            cur, w = [], 0
    if cur:
        jobs.append(cur)

    def one(sub: list[dict[str, Any]]) -> Any:
        return tlc.validate_batch("Trace_Xcp", "Trace_Xcp.cfg", {"traces": [_slim(t) for t in sub]}, timeout=1800,
                                  workers=1, heap="2g",
                                  env={"JAVA_TOOL_OPTIONS": "-Xss64m -XX:ParallelGCThreads=2 -XX:CICompilerCount=2"})

    with ThreadPoolExecutor(max_workers=8) as ex:
        results = list(ex.map(one, jobs))
    verdicts: dict[int, str] = {}
    unspec: dict[int, int] = {}
    where: dict[int, int] = {}
    for res in results:
        if rep is not None:
            rep.add_tlc(res, "Trace_Xcp batch")
        for p in res.prints:
            if isinstance(p, list) and len(p) == 3:
                if p[0] == "V":
                    verdicts[p[1]] = p[2]
                elif p[0] == "U":
                    unspec[p[1]] = p[2]
                elif p[0] == "K":
                    where[p[1]] = p[2]
    missing = [t["id"] for t in traces if t["id"] not in verdicts]
    if missing:
        raise Machinery(f"TLC produced no verdict for {len(missing)} traces (first id {missing[0]}):\n"
                        + results[-1].out[-2000:])
    return verdicts, unspec, where


# ------------------------------------------------------------------ spec -> code
def _plain(v: Any) -> Any:
    if isinstance(v, dict) and "$fn" in v:
        return {k: _plain(x) for k, x in v["$fn"]}
    if isinstance(v, dict) and "$set" in v:
        return [_plain(x) for x in v["$set"]]
    if isinstance(v, dict):
        return {k: _plain(x) for k, x in v.items()}
    if isinstance(v, list):
        return [_plain(x) for x in v]
    return v


def _case_from_hist(hist: list[dict[str, Any]], kind: str, n: int) -> dict[str, Any]:
    calls = []
    for c in hist:
        ans: list[Any] = []
        nfor = 0
        for e in c["io"]:
            if e["e"] == "R":
                if kind == "can":
                    if e["from"] != cs.MASTER:
                        nfor += 1
                    ans.append({"at": 600 * nfor, "src": e["from"], "d": bytes(e["d"]).hex()})
                else:
                    ans.append({"d": bytes(e["d"]).hex()})
            elif e["e"] == "T" and kind != "can":
                ans.append("sil")
            elif e["e"] == "Empty":
                ans.append("empty")
        calls.append({"m": c["m"], "arg": None if c["arg"] == -1 else c["arg"], "ans": ans})
    case: dict[str, Any] = {"kind": "sess", "tr": kind, "timeout": 1.0, "calls": calls, "origin": f"tlc-simulate-{kind}[{n}]"}
    if kind == "can":
        case["master"], case["slave"] = cs.MASTER, cs.SLAVE
    return case


def _projection(calls: list[dict[str, Any]]) -> list[Any]:
    out = []
    for c in calls:
        dec = {k: v for k, v in c["dec"].items() if k != "_"}
        out.append([c["m"], c["out"], (c["exc"] or [""])[0], dec, c["ms"]])
    return out


def _spec_to_code(rep: Report, tier: str, seed: int) -> list[tuple[dict[str, Any], list[Any]]]:
    nsim = 40 if tier == "quick" else 400
    out = []
    for kind, cfg in (("raw", "MC_Xcp_sim.cfg"), ("can", "MC_Xcp_simcan.cfg")):
        _res, behs = tlc.simulate_behaviours("MC_Xcp", cfg, num=nsim // 2, depth=80, seed=seed + 1, timeout=900)
        for n, b in enumerate(behs):
            if not b or b[-1][1].get("pc") != "Done":
                continue
            hist = _plain(b[-1][1]["hist"])
            out.append((_case_from_hist(hist, kind, n), _projection(hist)))
    rep.extra["simulated_behaviours"] = len(out)
    if len(out) < nsim // 2:
        raise Machinery(f"spec->code: only {len(out)} complete design behaviours out of {nsim} simulated")
    return out


# ------------------------------------------------------------------ evidence helpers
def _digest(case: dict[str, Any]) -> str:
    c = {k: v for k, v in case.items() if k != "origin"}
    return hashlib.sha1(json.dumps(c, sort_keys=True).encode()).hexdigest()[:16]


def _nontrivial(t: dict[str, Any]) -> bool:
    if t["kind"] == "sess":
        return any(c["out"] != "ok" or sum(1 for e in c["io"] if e["e"] == "R") > 1 for c in t["calls"])
    if t["kind"] == "prim":
        return True
    return any(p["cls"] not in ("xcp",) for p in t["ports"])


def _sig(t: dict[str, Any], k: int | None) -> dict[str, Any]:
    if t["kind"] == "sess":
        sig: dict[str, Any] = {"unit": "CANXCPSerivce" if t["cfg"]["kind"] == "can" else "XCPService"}
        if k is not None and 1 <= k <= len(t["calls"]):
            c = t["calls"][k - 1]
            sig["method"] = c["m"]
            if t["cfg"]["kind"] == "can":
                foreign = any(e["e"] == "R" and e["from"] != t["cfg"]["master"] for e in c["io"])
                sig["bus"] = "foreign-traffic" if foreign else "quiet"
        return sig
    if t["kind"] == "prim":
        return {"unit": "SimpleTestXCP", "connections": len(t["conns"])}
    short = any(p["answered"] and len(p["answer"]) < 4 for p in t["ports"])
    return {"unit": "UdpFindXCP" if t["udp"] else "TcpFindXCP", "answer_shorter_than_header": short}


def _check_observable(t: dict[str, Any]) -> None:
    if t["kind"] == "find" and t["done"] == "ok" and t["finished"] < 0:
        raise Machinery(f"discover xcp: the final result record was not understood: {t.get('results')}; adapt the "
                        "patterns in harness/x13_run.py")


def build_cases(tier: str, seed: int) -> list[dict[str, Any]]:
    cases: list[dict[str, Any]] = []
    cases += cs.sweeps(tier)
    cases += cs.can_cases(tier)
    cases += cs.seeded(tier, seed)
    cases += cs.prim_cases(tier)
    cases += cs.find_cases(tier)
    if tier == "thorough":
        cases += cs.product_connect()
    return cases


def run(tier: str, seed: int) -> Report:
    setup_logging_once()  # not quiet_gallia_logging(): the client's log records are an observation point
    rep = Report("X13", tier, seed)
    rep.rule = ("executions = sessions of client method calls on one real XCPService / CANXCPSerivce instance against a "
                "scripted slave, complete runs of the real `primitive xcp`, complete runs of the real `discover xcp "
                "tcp|udp`; evaluations = single client calls judged by TLC; distinct = distinct case descriptions; "
                "non-trivial = the slave gave at least one answer other than one well-formed positive response, or "
                "foreign frames were on the bus, or a scanned port was not an XCP slave")
    rep.assumptions = [
        "growth item, not a listed property: statement in growth/X13.json, sources listed in spec/XcpContract.tla",
        "layouts transcribed from the ASAM XCP protocol layer specification as far as known (CONNECT, DISCONNECT, "
        "GET_STATUS, GET_COMM_MODE_INFO, GET_ID, UPLOAD) and from the comments / RESOURCE_VALUES in types.py",
        "the sandbox has no CAN support (AF_CAN: 'Address family not supported by protocol'): RawCANTransport's socket "
        "code is not exercised; CANXCPSerivce runs over a subclass of RawCANTransport with scripted sendto()/recvfrom(); "
        "`primitive xcp` with a can-raw target cannot be constructed here and is driven over tcp:// only",
        "XCPService has no Ethernet variant: over tcp:// it writes the bare packet (no LEN/CTR header) -- recorded as "
        "finding note X13-N1, not judged (the service's sources are silent about the transport framing)",
        "a silent slave never answers late (no stale responses: XCP has no request/response correlation)",
        "decoded fields are observed through the client's own log records (the construct Container logged at INFO, "
        "the result-tagged '-> OK' record); if they cannot be observed the check fails as machinery (D0)",
        "discover xcp: the name `socket` in find_xcp.py is bound to an in-memory network (connect refused / timed out, "
        "recv timeout, peer closed, datagrams); the multicast discovery (test_eth_broadcast) runs against an empty "
        "network and is not judged",
        "virtual time (harness.vloop): a call still pending after 60 request timeouts is recorded as 'hang'",
    ]
    _mc(rep, tier)
    cases = build_cases(tier, seed)
    sims = _spec_to_code(rep, tier, seed)
    proj: dict[int, list[Any]] = {}
    for case, p in sims:
        proj[len(cases)] = p
        cases.append(case)
    traces = _run_cases(cases)
    for i, t in enumerate(traces):
        t["id"] = i
        _check_observable(t)
    drift = 0
    for i, p in proj.items():
        got = _projection(traces[i]["calls"])
        if got != p:
            drift += 1
            bad = next((j for j, (a, b) in enumerate(zip(got, p)) if a != b), -1)
            rep.drift.append({"origin": cases[i]["origin"], "call": bad, "design": p[bad] if bad >= 0 else None,
                              "code": got[bad] if bad >= 0 else None})
    rep.extra["spec_to_code_replayed"] = len(proj)
    rep.extra["spec_to_code_drift"] = drift
    verdicts, unspec, where = _validate(traces, rep)
    rep.traces = len(traces)
    rep.evaluations = sum(_weight(t) for t in traces)
    kinds: dict[str, int] = {}
    for i, t in enumerate(traces):
        key = t["kind"] + ("-" + t["cfg"]["kind"] if t["kind"] == "sess" else "")
        kinds[key] = kinds.get(key, 0) + 1
        if _nontrivial(t):
            rep.nontrivial.add(_digest(cases[i]))
        v = verdicts[i]
        if v.startswith("D0/"):
            raise Machinery(f"decoded fields of the client are not observable any more ({v}, {cases[i]['origin']}): adapt "
                            "FIELD_PREFIX / decoded_of in harness/x13_run.py")
        if v != "ok":
            k = where.get(i)
            detail: dict[str, Any] = {"case": cases[i]}
            if t["kind"] == "sess" and k is not None:
                c = t["calls"][k - 1]
                detail["call_index"] = k
                detail["call"] = {kk: c[kk] for kk in ("m", "arg", "out", "exc", "excmsg", "ms", "okline", "dec")}
                detail["io"] = c["io"][:12]
            elif t["kind"] == "prim":
                detail["trace"] = {kk: t[kk] for kk in ("pk", "conns", "done", "excmsg")}
            elif t["kind"] == "find":
                detail["trace"] = {kk: t[kk] for kk in ("reported", "finished", "done", "excmsg", "results")}
            rep.violate(v, _sig(t, k), detail)
    rep.extra["executions_by_kind"] = kinds
    rep.extra["unspecified"] = {
        "client calls the documented sources are silent about (fill bytes behind the command packet, asynchronous EV / "
        "SERV / DAQ packets, positive responses too short for their layout, commands before any CONNECT response)":
            sum(unspec.get(i, 0) for i, t in enumerate(traces) if t["kind"] == "sess"),
        "primitive runs with a number of connections other than one / nobody listening":
            sum(unspec.get(i, 0) for i, t in enumerate(traces) if t["kind"] == "prim"),
    }
    names = sorted({c["excmsg"][:40] for t in traces if t["kind"] == "sess" for c in t["calls"]
                    if c["out"] == "exc" and any(e["e"] == "R" and e["d"][:1] == [0xFE] for e in c["io"])})
    rep.extra["how_error_packets_are_reported"] = names[:4]
    for i in (0, len(traces) // 5, 2 * len(traces) // 5, 3 * len(traces) // 5, len(traces) - 1):
        t = traces[i]
        if t["kind"] == "sess":
            c = t["calls"][min(1, len(t["calls"]) - 1)]
            rep.sample({"origin": cases[i]["origin"], "verdict": verdicts[i], "calls": len(t["calls"]),
                        "call": {"m": c["m"], "io": [(e["e"], bytes(e.get("d", [])).hex()) for e in c["io"]][:4],
                                 "out": c["out"], "exc": c["exc"][:1], "dec": c["dec"]}})
        else:
            rep.sample({"origin": cases[i]["origin"], "verdict": verdicts[i], "done": t["done"]})
    rep.exhaustive = True
    rep.extra["exhaustive_spaces"] = (
        "model: every byte at every bit-field position "
        + ("and every byte pair at the word/dword positions in both byte orders (MC_XcpCodec_all)" if tier == "thorough"
           else "x 23 boundary values of the neighbouring byte in both byte orders (MC_XcpCodec_quick; thorough: every pair)")
        + "; real code: every RESOURCE byte x both orders, every COMM_MODE_BASIC byte (followed by "
        "GET_STATUS), every session-status / protection / COMM_MODE_OPTIONAL byte, every GET_ID type and UPLOAD count, "
        "every error code (CONNECT, GET_STATUS; thorough: every method), every packet identifier 0..255, every prefix of "
        "every positive response, "
        + ("every (RESOURCE, COMM_MODE_BASIC) pair, " if tier == "thorough" else "")
        + f"every answer-class vector of the 4 steps of `primitive xcp` over {6 if tier == 'quick' else 9} classes, every "
        f"port-class vector of length {2 if tier == 'quick' else 3} for discover xcp tcp (12 classes) / udp (10 classes); "
        "CAN bus timing, seeded sessions: samples")
    rep.extra["design_layer_not_vacuous"] = ("every action of Xcp / XcpFind is taken in the coverage runs "
                                             "(TLC -coverage, counts in design_action_coverage)")
    _selftest(rep, traces, cases, verdicts)
    return rep


# ------------------------------------------------------------------ binding self-test
def _selftest(rep: Report, traces: list[dict[str, Any]], cases: list[dict[str, Any]], verdicts: dict[int, str]) -> None:
    def clone(t: dict[str, Any]) -> dict[str, Any]:
        return json.loads(json.dumps(t))

    def pick(pred: Any) -> dict[str, Any]:
        for i, t in enumerate(traces):
            if verdicts[i] == "ok" and pred(t):
                return t
        raise Machinery("no accepted trace of the kind the binding self-test needs")

    def has(t: dict[str, Any], m: str, out: str, first: int | None = None) -> bool:
        return t["kind"] == "sess" and any(
            c["m"] == m and c["out"] == out and (first is None or any(e["e"] == "R" and e["d"][:1] == [first]
                                                                       for e in c["io"])) for c in t["calls"])

    def idx(t: dict[str, Any], m: str, out: str, first: int | None = None) -> int:
        return next(j for j, c in enumerate(t["calls"]) if c["m"] == m and c["out"] == out and
                    (first is None or any(e["e"] == "R" and e["d"][:1] == [first] for e in c["io"])))

    muts: list[tuple[str, dict[str, Any], str]] = []
    skipped: list[str] = []

    def part(name: str, fn: Any) -> None:
        """One group of corruptions; when the tree under test already violates the contract an accepted base trace
        may not exist -- then (and only then) the group is skipped."""
        try:
            fn()
        except (Machinery, StopIteration):
            if not rep.violations:
                raise Machinery(f"binding self-test: no accepted trace for the group '{name}'") from None
            skipped.append(name)

    def g_decode() -> None:
        base = pick(lambda t: t["kind"] == "sess" and t["cfg"]["kind"] == "raw" and has(t, "get_status", "ok")
                    and has(t, "connect", "ok"))
        a = clone(base)
        j = idx(a, "get_status", "ok")
        a["calls"][j]["dec"]["sessionConfiguration"] ^= 0x0100
        muts.append(("decoded word changed", a, "D1/"))
        b = clone(base)
        j = idx(b, "connect", "ok")
        b["calls"][j]["dec"]["resource_daq"] ^= 1
        muts.append(("decoded flag changed", b, "D1/"))
        c = clone(base)
        j = idx(c, "get_status", "ok")
        c["calls"][j]["io"][0]["d"][0] = 0xFC
        muts.append(("command code changed on the wire", c, "S2/"))
        d = clone(base)
        j = idx(d, "connect", "ok")
        d["calls"][j]["io"][1]["d"][2] ^= 1
        muts.append(("byte-order bit of the recorded CONNECT response flipped", d, "D"))

    def g_error() -> None:
        errt = pick(lambda t: t["kind"] == "sess" and has(t, "get_status", "exc", 0xFE))
        e_ = clone(errt)
        j = idx(e_, "get_status", "exc", 0xFE)
        e_["calls"][j].update(out="ok", okline=True, exc=[])
        muts.append(("error packet recorded as reported OK", e_, "E1/"))

    def g_timeout() -> None:
        silt = pick(lambda t: t["kind"] == "sess" and any(c["out"] == "exc" and c["io"] and c["io"][-1]["e"] == "T"
                                                          for c in t["calls"]))
        f = clone(silt)
        j = next(j for j, c in enumerate(f["calls"]) if c["out"] == "exc" and c["io"] and c["io"][-1]["e"] == "T")
        f["calls"][j]["ms"] = 5 * f["cfg"]["timeoutMs"]
        muts.append(("timeout five request timeouts late", f, "T2/"))
        g = clone(silt)
        g["calls"][j]["exc"] = ["ValueError", "Exception"]
        muts.append(("silence recorded as ValueError", g, "T1/"))

    def g_can() -> None:
        cant = pick(lambda t: t["kind"] == "sess" and t["cfg"]["kind"] == "can" and has(t, "get_status", "ok"))
        h = clone(cant)
        j = idx(h, "get_status", "ok")
        h["calls"][j]["io"][0]["to"] = h["cfg"]["master"]
        muts.append(("CAN command addressed to the master id", h, "S3/"))

    def g_prim() -> None:
        primt = next((t for t in traces if t["kind"] == "prim" and t["accepted"] and t["done"] == "ok"
                      and len(t["pk"]) == 4), None)
        if primt is None:
            raise Machinery("no complete primitive run")
        p1 = clone(primt)
        p1["conns"] = [{"closed": 1}]
        for x in p1["pk"]:
            x["c"] = 1
        p2 = clone(p1)
        p2["pk"] = p2["pk"][:2] + p2["pk"][3:]
        muts.append(("primitive: GET_COMM_MODE_INFO step dropped", p2, "Q1/"))
        p3 = clone(p1)
        p3["conns"] = [{"closed": 0}]
        muts.append(("primitive: connection left open", p3, "Q3/"))

    def g_find() -> None:
        findt = pick(lambda t: t["kind"] == "find" and len(t["reported"]) >= 1 and len(t["ports"]) >= 2
                     and any(p["port"] not in t["reported"] and p["open"] for p in t["ports"]))
        q1 = clone(findt)
        q1["reported"].append(next(p["port"] for p in q1["ports"] if p["port"] not in q1["reported"] and p["open"]))
        q1["finished"] += 1
        muts.append(("discover: a non-XCP port added to the reported ports", q1, "F2/"))
        q2 = clone(findt)
        q2["finished"] += 1
        muts.append(("discover: final count + 1", q2, "F5/"))
        q3 = clone(findt)
        pr = next(p for p in q3["ports"] if p["rx"])
        pr["rx"][0] = pr["rx"][0][4:]
        muts.append(("discover: probe without the LEN/CTR header", q3, "F1/"))

    for name, fn in (("decode", g_decode), ("error", g_error), ("timeout", g_timeout), ("can", g_can),
                     ("primitive", g_prim), ("discover", g_find)):
        part(name, fn)
    # mutants of the harness's own fakes: they deliver other bytes than they record
    fc = next(c for c in cases if c["kind"] == "sess" and c["tr"] == "raw" and c["origin"].startswith("words-be"))
    m1 = run_case(fc, mutant="fake-answers-other-byte-order")
    muts.append(("fake slave flips the byte-order bit it delivers (records the scripted bytes)", m1, "D"))
    fn = next(c for c in cases if c["kind"] == "find" and not c["udp"] and c["origin"] == "tcp[xcp]")
    m2 = run_case(fn, mutant="fake-net-delivers-other-bytes")
    muts.append(("fake network delivers a changed packet identifier (records the scripted bytes)", m2, "F2/"))
    for n, (_, t, _) in enumerate(muts):
        t["id"] = n
    v, _u, _k = _validate([t for _, t, _ in muts], None)
    got = {name: v[n] for n, (name, _, _) in enumerate(muts)}
    wrong = [name for n, (name, _, want) in enumerate(muts) if not v[n].startswith(want)]
    if wrong and rep.violations:
        rep.extra["binding_selftest_not_as_expected_on_a_violating_tree"] = wrong
    elif wrong:
        raise Machinery(f"binding self-test: corrupted traces / fake mutants not judged as expected: {wrong}: {got}")
    rep.extra["binding_selftest"] = got
    if skipped:
        rep.extra["binding_selftest_groups_skipped_because_the_tree_violates_the_contract"] = skipped


def replay(path: str) -> int:
    setup_logging_once()
    data = json.loads(open(path).read())
    bad = 0
    traces = []
    for n, v in enumerate(data["violations"]):
        case = v["detail"].get("case")
        if case is None:
            print(f"replay: violation {n} ({v['clause']}) is a design-layer counterexample: re-run ./check X13")
            bad += 1
            continue
        t = run_case(case)
        t["id"] = len(traces)
        traces.append(t)
    if traces:
        verdicts, _, _ = _validate(traces, None)
        for t in traces:
            print(f"replay kind={t['kind']} origin={t['origin']} verdict={verdicts[t['id']]}")
            bad += verdicts[t["id"]] != "ok"
    if bad:
        print(f"VIOLATION property=X13 replay={path}")
        return 1
    return 0
