"""X15 (growth) — gallia's power-supply support does what its docstrings / help texts / docs say.

spec   : spec/PowerSupplyContract.tla (clauses S1 S2 G1 W1 E1 T1 K1 P1-P5, sources in its header),
         spec/PowerSupply.tla (design: concurrent callers of one instrument, channel-select + command two-step,
         driver lock, power-cycle mutex, maximal-progress clock, 11 deviation constants)
MC     : MC_PowerSupply_{drv2,drv2f,drv3,cyc2,cyc2f,cyc3,mix,mixf} (+ drv4, cyc4, mix0 thorough); 11 negative controls MC_PowerSupply_dev*
binding: the REAL HMC804 driver / PowerSupply / netzteil CLI / Scanner.setup / ECU.power_cycle against an in-memory
         R&S HMC804x (harness/x15_scpi.py: SCPI command tree of the manual, ground-truth state, one sequential command
         processor, constant latency, scripted faults) over harness.streams Wires on the virtual-time loop; the RND320
         driver against a FIFO standing in for the serial device node (real executor threads).
         code->spec: every execution validated by Trace_PowerSupply (TLC steps the contract monitor over the events);
         spec->code: the outcome sets of the design (exported by TLC from the MC runs) must contain the outcome of the
         same programs run on the real code (DRIFT only).
"""

from __future__ import annotations

import json
import multiprocessing as mp
import os
from concurrent.futures import ThreadPoolExecutor
from typing import Any

from harness import tlc
from harness import x15_cases as cs
from harness.common import Machinery, Report, quiet_gallia_logging
from harness.x15_run import run_case

MC_QUICK = ["drv2", "drv2f", "drv3", "cyc2", "cyc2f", "cyc3", "mix", "mixf"]
MC_THOROUGH = ["drv4", "cyc4", "mix0"]
NEG = {
    "devNoDriverLock": {"C_G1", "C_S2", "C_S1"}, "devNoSelect": {"C_G1"}, "devOutpStat": {"C_S2"},
    "devMasterAsChannel0": {"C_W1"}, "devNoTimeout": {"C_T1"}, "devNoMutex": {"C_P3"}, "devNoSleep": {"C_P1"},
    "devCallbackFirst": {"C_P2"}, "devNoCallback": {"C_P5"}, "devMutexLeak": {"C_T1"}, "devUpOnly": {"C_P1"},
}
ACTIONS = ["Begin", "ALock", "AMLock", "ATail", "ASel", "ACmd", "AQry", "ASleep", "AWait", "ACb", "ACbEnd", "Advance", "Finish"]
NPROC = max(2, min(12, (os.cpu_count() or 4) - 2))
JAVA_ENV = {"JAVA_TOOL_OPTIONS": "-Xss64m"}


# ------------------------------------------------------------------ 1. design layer
def _mc(rep: Report, tier: str) -> dict[str, set[str]]:
    jobs: list[tuple[str, set[str] | None, bool]] = [(c, None, c == "mixf") for c in MC_QUICK]
    if tier == "thorough":
        jobs += [(c, None, False) for c in MC_THOROUGH]
    jobs += [(c, want, False) for c, want in NEG.items()]

    def one(j: tuple[str, set[str] | None, bool]) -> Any:
        return tlc.run_tlc("MC_PowerSupply", f"MC_PowerSupply_{j[0]}.cfg", workers=2, timeout=1500, coverage=j[2])

    with ThreadPoolExecutor(max_workers=6) as ex:
        results = list(ex.map(one, jobs))
    outcomes: dict[str, set[str]] = {}
    cov_all: dict[str, int] = {}
    for (c, want, coverage), res in zip(jobs, results):
        rep.add_tlc(res, f"MC_PowerSupply_{c}" + (" (negative control)" if want else ""))
        if want is None:
            if not res.ok:
                rep.violate(f"design/{res.violated}", {"where": "PowerSupply design layer", "cfg": c},
                            {"cex": res.cex[-8:], "out": res.out[-1500:]})
            for p in res.prints:
                if isinstance(p, list) and len(p) == 4 and p[0] == "O":
                    outcomes.setdefault(p[1], set()).add(json.dumps([p[2], p[3]]))
        elif res.violated not in want:
            raise Machinery(f"negative control MC_PowerSupply_{c} did not violate {sorted(want)} (got {res.violated}): "
                            "contract is vacuous")
        if coverage:
            for a in ACTIONS:
                cov_all[a] = cov_all.get(a, 0) + res.coverage.get(a, (0, 0))[0]
    never = [a for a, n in cov_all.items() if n == 0]
    if never:
        raise Machinery(f"MC_PowerSupply_mixf: design actions never taken: {never}")
    rep.extra["design_action_coverage"] = cov_all
    rep.extra["negative_controls"] = sorted(NEG)
    return outcomes


# ------------------------------------------------------------------ 2. real executions
def _job(case: dict[str, Any]) -> dict[str, Any]:
    return run_case(case)


def _run_cases(cases: list[dict[str, Any]]) -> list[dict[str, Any]]:
    if not cases:
        return []
    ctx = mp.get_context("fork")
    with ctx.Pool(NPROC) as pool:
        return pool.map(_job, cases, chunksize=16)


def _slim(t: dict[str, Any]) -> dict[str, Any]:
    return {"id": t["id"], "n": t["n"], "tmo": t["tmo"], "lag": t["lag"], "init": t["init"], "ev": t["ev"]}


def _validate(traces: list[dict[str, Any]], rep: Report | None, chunk: int = 1500) -> tuple[dict[int, tuple[str, str, int]], dict[int, int]]:
    jobs = [traces[off:off + chunk] for off in range(0, len(traces), chunk)]

    def one(sub: list[dict[str, Any]]) -> Any:
        return tlc.validate_batch("Trace_PowerSupply", "Trace_PowerSupply.cfg", {"traces": [_slim(t) for t in sub]},
                                  timeout=3000, workers=1, heap="3g", env=JAVA_ENV)

    with ThreadPoolExecutor(max_workers=6) as ex:
        results = list(ex.map(one, jobs))
    verdicts: dict[int, tuple[str, str, int]] = {}
    unspec: dict[int, int] = {}
    for res in results:
        if rep is not None:
            rep.add_tlc(res, "Trace_PowerSupply batch")
        for p in res.prints:
            if isinstance(p, list) and len(p) == 5 and p[0] == "V":
                verdicts[p[1]] = (p[2], p[3], p[4])
            elif isinstance(p, list) and len(p) == 3 and p[0] == "U":
                unspec[p[1]] = p[2]
    missing = [t["id"] for t in traces if t["id"] not in verdicts]
    if missing:
        raise Machinery(f"TLC produced no verdict for {len(missing)} traces (first id {missing[0]}):\n" + results[-1].out[-2000:])
    return verdicts, unspec


# ------------------------------------------------------------------ helpers on recorded traces (no judging)
def _calls(t: dict[str, Any]) -> dict[int, dict[str, Any]]:
    out: dict[int, dict[str, Any]] = {}
    for e in t["ev"]:
        if e["e"] == "Call":
            out[e["id"]] = {"op": e["a"], "attr": e["k"], "ch": e["ch"], "t0": e["t"], "t1": None, "fault": ""}
        elif e["e"] == "Ret" and e["id"] in out:
            out[e["id"]]["t1"] = e["t"]
        elif e["e"] == "Fault" and e["id"] in out:
            out[e["id"]]["fault"] = e["k"]
    return out


def _overlap(t: dict[str, Any]) -> bool:
    """two calls open at the same time (by event order)"""
    open_ = 0
    for e in t["ev"]:
        if e["e"] == "Call" and e["a"] != "connect":
            open_ += 1
            if open_ >= 2:
                return True
        elif e["e"] == "Ret":
            open_ = max(0, open_ - 1)
    return False


def _sig(t: dict[str, Any], case: dict[str, Any], v: tuple[str, str, int]) -> dict[str, Any]:
    clause, why, used = v
    ev = t["ev"][used - 1] if 0 < used <= len(t["ev"]) else {}
    calls = _calls(t)
    c = calls.get(ev.get("id", 0), {})
    faults = sorted({x["fault"] for x in calls.values() if x["fault"]})
    fault = c.get("fault", "") or (faults[0] if faults and clause in ("K1",) else "")
    conc = _overlap(t)
    # input class (a fact of the case, not a verdict): what the environment / schedule did to the failing call
    if fault in ("eof", "eof_mid"):
        cls = "answer-cut-short"
    elif fault in ("deaf", "reset_on_line") and c.get("op") == "get" and c.get("attr") != "master":
        cls = "selection-connection-lost"
    elif fault:
        cls = "fault-" + fault
    elif conc:
        cls = "concurrent-callers"
    else:
        cls = "sequential"
    return {"kind": case["kind"], "why": why, "op": c.get("op", ""), "attr": c.get("attr", ""),
            "concurrent": conc, "fault": fault, "cls": cls}


def _outcome(t: dict[str, Any], case: dict[str, Any]) -> str:
    """projection compared with the design: per caller the (ok, value) of its calls in order, final instrument state"""
    ncall = len(case["callers"])
    # call ids are handed out in call order; reconstruct caller -> ids from the programme shape
    per: list[list[Any]] = [[] for _ in range(ncall)]
    want = [len(c["ops"]) for c in case["callers"]]
    rets = {e["id"]: e for e in t["ev"] if e["e"] == "Ret"}
    sigs = []
    for ci, c in enumerate(case["callers"]):
        sigs.append([(o["op"], o.get("attr", ""), int(o.get("ch", 0)) if o["op"] != "cycle" else (1 if o.get("cb") is not None else 0),
                      int(o.get("v", o.get("sleep", 0)) if o["op"] != "get" else 0)) for o in c["ops"]])
    nxt = [0] * ncall
    for e in t["ev"]:
        if e["e"] != "Call" or e["a"] == "connect":
            continue
        key = (e["a"], e["k"], e["ch"], e["v"])
        for ci in range(ncall):
            if nxt[ci] < want[ci] and sigs[ci][nxt[ci]] == key and (nxt[ci] == 0 or per[ci][-1] is not None):
                r = rets.get(e["id"])
                per[ci].append(None if r is None else [bool(r["ok"]), int(r["v"]) if r["ok"] and e["a"] == "get" else 0])
                nxt[ci] += 1
                break
    f = t["final"]
    return json.dumps([per, [f["master"], f["out"], f["volt"], f["curr"]]])


# ------------------------------------------------------------------ run
def run(tier: str, seed: int) -> Report:
    quiet_gallia_logging()
    rep = Report("X15", tier, seed)
    rep.rule = ("executions = complete runs of the real code (HMC804 driver methods / PowerSupply.connect + power_cycle / "
                "netzteil main() / Scanner.run() / ECU.power_cycle / RND320) against the in-memory instrument; distinct = "
                "distinct (kind, environment script, caller programs); non-trivial = two calls were open at the same time, "
                "OR a power cycle ran, OR the environment injected a fault")
    rep.assumptions = [
        "growth item, not a listed property; the statement is /verif/growth/X15.json, sources of every clause in the header "
        "of spec/PowerSupplyContract.tla",
        "only asyncio.open_connection is replaced (port 5025 -> instrument fake, other ports -> scan target); HMC804, "
        "PowerSupply, PowerSupplyURI, netzteil GetCLI/SetCLI incl. parse_and_run (asyncio.run -> virtual-time loop, "
        "setup_logging stubbed), Scanner.run/setup, ECU.power_cycle are gallia code; virtual-time loop",
        "instrument model: R&S HMC804x SCPI manual command set; channel selection is instrument-global; ONE sequential command "
        "processor (proc ms per program message); constant one-way latency, so commands reach the instrument in the order "
        "the client wrote them, also across connections; StreamWriter.drain() does not yield unless closing (Python 3.12)",
        "OUTPut[:STATe]? answers the selected channel's state (manual: 'queries the output state of the previous selected "
        "channel'); switches answer 0|1; values answer as decimal / exponent numbers",
        "healthy = every answer arrives completely within 2*proc + 2*lat <= 500 ms < timeout; scripted faults (refuse, accept "
        "hangs, silent, deaf, EOF / reset before or in the middle of the answer, text / binary garbage, late answer, reset on "
        "the first line) are announced to the contract as Fault events: the outcome of that call is then free except T1, G1, "
        "S2, K1, W1",
        "T1 bound: driver-level traces use the timeout handed to the driver's constructor; PowerSupply.connect / netzteil / "
        "Scanner fix their timeout in code (not documented): those traces only demand termination within 60 s of silence",
        "RND320: no serial hardware; the device node is a FIFO (the driver opens the path, writes OUT0/OUT1, closes); the "
        "RND 320-KA3005P protocol has no terminator; its events carry no call tag (P3 not decidable there)",
        "values: micro-volt / micro-ampere integers; tolerance 1 mV / 1 mA (programming resolution class); requested values "
        "have at most 3 decimals",
    ]
    # ---- 1. design layer, negative controls, action coverage, outcome sets
    outcomes = _mc(rep, tier)
    # ---- 2./3. cases
    cases = cs.build(tier, seed)
    progs = cs.design_programs()
    design_ix: dict[str, str] = {}
    for name, lst in progs.items():
        for c in lst:
            design_ix[cs.digest(c)] = name
            cases.append(c)
    seen: set[str] = set()
    uniq: list[dict[str, Any]] = []
    for c in cases:
        d = cs.digest(c)
        if d not in seen:
            seen.add(d)
            uniq.append(c)
    traces = _run_cases(uniq)
    for i, t in enumerate(traces):
        t["id"] = i
    # ---- spec -> code: outcome of the design's programs on the real code must be one the design can produce
    ndrift = nrep = 0
    for i, c in enumerate(uniq):
        name = design_ix.get(cs.digest(c))
        if name is None:
            continue
        nrep += 1
        got = _outcome(traces[i], c)
        if got not in outcomes.get(name, set()):
            ndrift += 1
            rep.drift.append({"program": name, "env": {k: v for k, v in c["env"].items() if k != "init"}, "code": json.loads(got),
                              "design_outcomes": [json.loads(x) for x in sorted(outcomes.get(name, set()))][:4]})
    rep.extra["spec_to_code_replayed"] = nrep
    rep.extra["spec_to_code_drift"] = ndrift
    rep.extra["design_outcome_sets"] = {k: len(v) for k, v in sorted(outcomes.items())}
    if nrep < 10 or not outcomes:
        raise Machinery("spec->code: no design outcomes exported / programs not replayed")
    # ---- 4. code -> spec
    verdicts, unspec = _validate(traces, rep)
    rep.traces = rep.evaluations = len(traces)
    origins: dict[str, int] = {}
    nfault = 0
    for i, t in enumerate(traces):
        c = uniq[i]
        origins[c["origin"]] = origins.get(c["origin"], 0) + 1
        calls = _calls(t)
        has_fault = any(x["fault"] for x in calls.values())
        nfault += has_fault
        if _overlap(t) or has_fault or any(x["op"] in ("cycle", "setup") for x in calls.values()):
            rep.nontrivial.add(cs.digest(c))
        v = verdicts[i]
        if v[0] != "ok":
            rep.violate(f"{v[0]}/{v[1]}", _sig(t, c, v), {"case": c, "events_consumed": v[2],
                                                           "events": [[e["e"], e["t"], e["id"], e["a"], e["k"], e["ch"], e["v"], e["ok"]]
                                                                      for e in t["ev"] if e["e"] != "Act"][:60]})
    rep.extra["origins"] = origins
    rep.extra["unspecified"] = {
        "calls whose outcome the sources leave open (the environment misbehaved towards them)": sum(unspec.values()),
        "executions with at least one such call": sum(1 for v in unspec.values() if v),
        "connections left open by the driver after a failed call (not specified; recorded only)":
            sum(int(t.get("leaked", 0)) for t in traces),
    }
    rep.extra["not_demanded"] = [
        "how long the channels stay off: --power-cycle-sleep is documented as 'time to sleep after the power-cycle' while the "
        "code sleeps between off and on; the contract accepts both (end of cycle >= sleep after the last channel went off)",
        "a setter towards an instrument that drops / ignores the connection (fire-and-forget protocol: not observable)",
        "values outside the instrument's range, channel numbers outside 1..3, voltage / current of channel 0, URI without "
        "channel (default), product ids other than the documented hmc804, timeout=None",
        "what happens to the channels when a power cycle fails half way",
    ]
    for i in (0, len(traces) // 3, 2 * len(traces) // 3, len(traces) - 1):
        t = traces[i]
        rep.sample({"origin": uniq[i]["origin"], "kind": uniq[i]["kind"], "callers": uniq[i].get("callers", uniq[i].get("argv"))[:3]
                    if uniq[i].get("callers") else uniq[i].get("argv"),
                    "events": len(t["ev"]), "final": t["final"], "verdict": "/".join(verdicts[i][:2]).strip("/")})
    rep.exhaustive = True
    rep.extra["exhaustive_spaces"] = (
        f"every driver operation ({len(cs.GETTERS)} getters, {len(cs.SETTERS)} setters) x 4 environments; every ordered pair of the "
        f"{len(cs.ALPHA)}-operation alphabet as a sequence of one caller and as two concurrent callers (same instant and 1 ms apart); "
        f"{len(cs.FAULT_OPS)} operations x {len(cs.FAULTS)} fault / awkward-answer scripts x connection index 0/1 x 2 timeouts; power "
        f"cycles: {len(cs.CHS)} channel configurations x 3 sleeps x 3 callbacks x 2 environments, two callers x 6 arrival instants x 4 "
        "callback combinations x 4 channel configurations; the netzteil argument vectors listed in harness/x15_cases.cli; "
        "everything else seeded samples")
    rep.extra["design_layer_not_vacuous"] = "every action of PowerSupply is taken in MC_PowerSupply_mixf (TLC -coverage)"
    # ---- 5. binding self-tests
    _selftest(rep, traces, uniq, verdicts)
    return rep


def _selftest(rep: Report, traces: list[dict[str, Any]], cases: list[dict[str, Any]], verdicts: dict[int, tuple[str, str, int]]) -> None:
    def clone(t: dict[str, Any]) -> dict[str, Any]:
        return json.loads(json.dumps(t))

    class _NoBase(Exception):
        pass

    def pick(pred: Any) -> tuple[dict[str, Any], dict[str, Any]]:
        for i, t in enumerate(traces):
            if verdicts[i][0] == "ok" and pred(t, cases[i]):
                return t, cases[i]
        raise _NoBase()

    def healthy(c: dict[str, Any]) -> bool:
        return not c["env"].get("faults")

    muts: list[tuple[str, dict[str, Any], str]] = []
    skipped: list[str] = []

    def group(name: str, fn: Any) -> None:
        try:
            fn()
        except _NoBase:
            # the tree under test breaks the property on every candidate base trace: that is reported as a violation
            if not rep.violations:
                raise Machinery(f"no accepted trace to run the binding self-test '{name}' on") from None
            skipped.append(name)

    def g_getter() -> None:
        getter, gcase = pick(lambda t, c: c["kind"] == "driver" and healthy(c) and len(c["callers"]) == 1 and c["callers"][0]["ops"][0]["op"] == "get"
                             and c["callers"][0]["ops"][0]["attr"] == "volt" and len(c["callers"][0]["ops"]) == 1)
        a = clone(getter)
        next(e for e in a["ev"] if e["e"] == "Ret")["v"] += 250_000
        muts.append(("getter result changed", a, "G1"))
        h = clone(getter)
        h["ev"] = [e for e in h["ev"] if e["e"] != "Ret"]
        muts.append(("call never returns", h, "T1"))
        # mutant of the harness's own fake: the instrument answers a value it does not hold
        muts.append(("fake instrument answers a value it does not hold", run_case(gcase, mutant="answers-other-channel"), "G1"))

    def g_setter() -> None:
        setter, _ = pick(lambda t, c: c["kind"] == "driver" and healthy(c) and len(c["callers"]) == 1 and len(c["callers"][0]["ops"]) == 1
                         and c["callers"][0]["ops"][0]["op"] == "set" and c["callers"][0]["ops"][0]["attr"] == "volt"
                         and any(e["e"] == "Inst" and e["v"] != t["init"]["volt"][e["ch"] - 1] for e in t["ev"]))
        b = clone(setter)
        b["ev"] = [e for e in b["ev"] if e["e"] != "Inst"]
        muts.append(("setter effect removed", b, "S1"))
        c = clone(setter)
        e = next(e for e in c["ev"] if e["e"] == "Inst")
        e["ch"] = 1 + e["ch"] % 3
        muts.append(("setter effect moved to another channel", c, "S2"))

    def g_cycle() -> None:
        cyc1, _ = pick(lambda t, c: c["kind"] == "ps" and healthy(c) and c["origin"] == "enum-cycle" and c["callers"][0]["ops"][0].get("cb")
                       and c["callers"][0]["ops"][0]["sleep"] == 2000 and not c["env"].get("lat"))
        d = clone(cyc1)
        cb = next(e for e in d["ev"] if e["e"] == "Cb")
        off = max(e["t"] for e in d["ev"] if e["e"] == "Inst" and e["v"] == 0)
        cb["t"] = off + 100
        muts.append(("callback moved into the sleep", d, "P1"))
        f = clone(cyc1)
        f["ev"] = [e for e in f["ev"] if not (e["e"] == "Inst" and e["v"] == 1)]
        muts.append(("power-up removed", f, "P2"))

    def g_cycle2() -> None:
        cyc2, _ = pick(lambda t, c: c["kind"] == "ps" and healthy(c) and c["origin"] == "enum-cycle2" and c["callers"][0]["ops"][0]["cb"]
                       and c["callers"][1]["start"] == 700 and len(c["chs"]) >= 2)
        g = clone(cyc2)
        # the second cycle's first effect moved in front of the first cycle's return
        ids = [e["id"] for e in g["ev"] if e["e"] == "Call" and e["a"] == "cycle"]
        j = next(k for k, e in enumerate(g["ev"]) if e["e"] == "Inst" and e["id"] == ids[1])
        r = next(k for k, e in enumerate(g["ev"]) if e["e"] == "Cb" and e["id"] == ids[0])
        ev = g["ev"].pop(j)
        ev["t"] = g["ev"][r]["t"]
        g["ev"].insert(r + 1, ev)
        muts.append(("second cycle acts during the first one's callback", g, "P"))

    for name, fn in (("getter", g_getter), ("setter", g_setter), ("cycle", g_cycle), ("two cycles", g_cycle2)):
        group(name, fn)
    if not muts:
        rep.extra["binding_selftest"] = {"skipped": skipped}
        return
    for n, (_, t, _) in enumerate(muts):
        t["id"] = n
    v, _u = _validate([t for _, t, _ in muts], None)
    got = {name: "/".join(v[n][:2]) for n, (name, _, _) in enumerate(muts)}
    wrong = [name for n, (name, _, want) in enumerate(muts) if not v[n][0].startswith(want)]
    if wrong:
        raise Machinery(f"binding self-test: corrupted traces / fake mutant not rejected as expected: {wrong}: {got}")
    if skipped:
        got["skipped (no accepted base trace on this tree; violations are reported)"] = ", ".join(skipped)
    rep.extra["binding_selftest"] = got


def replay(path: str) -> int:
    quiet_gallia_logging()
    data = json.loads(open(path).read())
    bad = 0
    traces = []
    for n, v in enumerate(data["violations"]):
        case = v["detail"].get("case")
        if case is None:
            print(f"replay: violation {n} ({v['clause']}) is a design-layer counterexample: re-run ./check X15")
            bad += 1
            continue
        t = run_case(case)
        t["id"] = len(traces)
        traces.append(t)
    if traces:
        verdicts, _ = _validate(traces, None)
        for t in traces:
            vv = verdicts[t["id"]]
            print(f"replay origin={t['origin']} events={len(t['ev'])} verdict={'/'.join(vv[:2]).strip('/')}")
            bad += vv[0] != "ok"
    if bad:
        print(f"VIOLATION property=X15 replay={path}")
        return 1
    return 0
