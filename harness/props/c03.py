"""C03 — genuine replies are accepted, foreign or stale replies refused.

spec   : spec/UdsMatchContract.tla (contract: Allowed / Expected / Clause, from the statement + ISO 14229-1)
         spec/UdsMatch.tla (design: the decision procedure of helpers.parse_pdu, Dev_S8/S4/S2 deviations)
MC     : MC_UdsMatch.cfg exhaustive over the abstract pair space concretised in TLA+;
         MC_UdsMatch_devS8/devS4/devS2.cfg are negative controls
binding: code->spec: real helpers.parse_pdu(reply, request) AND real UDSClient.request() on a
         ScriptedTransport for every enumerated (request, reply) pair, validated by Trace_UdsMatch (TLC);
         spec->code: every case TLC enumerated for the design layer is replayed into the real code and
         the design's decision compared (disagreement inside the contract = drift).
"""

from __future__ import annotations

import json
import random
import time
from concurrent.futures import ThreadPoolExecutor
from typing import Any

from gallia.services.uds.core import service
from gallia.services.uds.core.constants import UDSErrorCodes

from harness import tlc
from harness.c03_gen import (
    HAS_SF,
    ReqCase,
    build_requests,
    families,
    genuine_replies,
    lenient_matcher_mutant,
    observe_e2e,
    observe_parse,
    rebuild,
)
from harness.common import Machinery, Report, quiet_gallia_logging

CHUNK = 15000
JAVA_ENV = {"JAVA_TOOL_OPTIONS": "-Xss64m"}
DESIGN_INVARIANTS = {
    "devS8": ("F2_NegativeOtherServiceMismatch", "M2_UndecodableNegativeMalformed"),
    "devS4": ("G2_PositiveEchoingAccepted",),
    "devS2": ("F3_EchoDiffersMismatch", "F3_EchoDiffersNeverAccepted"),
}
UNSPECIFIED_CLASSES = {"Free", "Unsure", "NegUnsure"}


def validate(cases: list[dict[str, Any]], rep: Report | None = None, label: str = "Trace_UdsMatch batch"
             ) -> dict[int, tuple[str, str]]:
    """TLC batch validation; returns id -> (verdict, contract class)."""
    chunks = [cases[o:o + CHUNK] for o in range(0, len(cases), CHUNK)]

    def one(sub: list[dict[str, Any]]) -> Any:
        batch = {"traces": [{"id": c["id"], "req": list(c["req"]), "raw": c["raw"], "reply": list(c["reply"]),
                             "p": c["p"], "e": c["e"], "map": c["map"]} for c in sub]}
        return tlc.validate_batch("Trace_UdsMatch", "Trace_UdsMatch.cfg", batch, timeout=1500, env=JAVA_ENV)

    with ThreadPoolExecutor(max_workers=4) as ex:
        results = list(ex.map(one, chunks))
    out: dict[int, tuple[str, str]] = {}
    for res in results:
        if rep is not None:
            rep.add_tlc(res, label)
        for p in res.prints:
            if isinstance(p, list) and len(p) == 4 and p[0] == "V":
                out[p[1]] = (p[2], p[3])
    missing = [c["id"] for c in cases if c["id"] not in out]
    if missing:
        raise Machinery(f"TLC produced no verdict for {len(missing)} cases (first id {missing[0]}):\n"
                        + results[-1].out[-2000:])
    return out


def model_check_start(ex: ThreadPoolExecutor) -> tuple[Any, dict[str, Any]]:
    """Design layer against the contract + negative controls, started in the background (TLC is a
    subprocess: it runs while Python drives the real code)."""
    def main() -> Any:
        # (-coverage makes this run ~5x slower; action coverage is measured from the exported `path`)
        return tlc.run_tlc("MC_UdsMatch", "MC_UdsMatch.cfg", workers=1, timeout=1200)

    def dev(name: str) -> Any:
        return tlc.run_tlc("MC_UdsMatch", f"MC_UdsMatch_{name}.cfg", workers=1, timeout=1200)

    return ex.submit(main), {n: ex.submit(dev, n) for n in DESIGN_INVARIANTS}


def model_check_finish(rep: Report, fm: Any, fd: dict[str, Any]) -> list[dict[str, Any]]:
    """Collect the model-checking results; returns TLC's exported design cases (spec -> code)."""
    res = fm.result()
    devres = {n: f.result() for n, f in fd.items()}
    rep.add_tlc(res, "MC_UdsMatch (design |= contract, all Dev_* FALSE)")
    if not res.ok:
        rep.violate(f"design/{res.violated}", {"where": "UdsMatch design layer"},
                    {"cex": res.cex[-3:], "out": res.out[-1500:]})
    for n, r in devres.items():
        rep.add_tlc(r, f"MC_UdsMatch_{n} (negative control)")
        if r.violated not in DESIGN_INVARIANTS[n]:
            raise Machinery(f"negative control {n} violated {r.violated!r}, expected one of "
                            f"{DESIGN_INVARIANTS[n]}: the contract is vacuous for that deviation")
    rep.extra["negative_controls"] = {n: r.violated for n, r in devres.items()}
    seen: set[str] = set()
    out = []
    taken: dict[str, int] = {}
    for p in res.prints:
        if isinstance(p, list) and len(p) == 10 and p[0] == "D":
            k = json.dumps(p[1:5])
            if k in seen:
                continue
            seen.add(k)
            out.append({"req": bytes(p[1]), "raw": bool(p[2]), "reply": bytes(p[3]), "label": "mc:" + p[4],
                        "design": p[5], "expected": p[6]})
            for a in p[9]:
                taken[a] = taken.get(a, 0) + 1
    if len(out) < 1000 or 5 * len(out) != res.distinct:
        raise Machinery(f"TLC exported {len(out)} design cases for {res.distinct} states")
    wanted = {"ParseRequest", "ParseResponse", "NegativeFallback", "PositiveFallback",
              "RawRequestFallback", "Matches", "Report"}
    if set(taken) != wanted:
        raise Machinery(f"design layer vacuous: actions never taken {sorted(wanted - set(taken))}")
    rep.extra["design_action_coverage"] = taken
    return out


def run(tier: str, seed: int) -> Report:
    quiet_gallia_logging()
    rep = Report("C03", tier, seed)
    deep = tier == "thorough"
    rep.rule = ("evaluation = one (request, reply bytes) pair pushed through the real helpers.parse_pdu and the "
                "real UDSClient.request() (ScriptedTransport, virtual time) and judged by TLC against "
                "UdsMatchContract!Allowed; pairs = every request instance (reflection over service.py request "
                "classes x one-parameter-at-a-time constructor variants + raw byte requests) x {genuine replies, "
                "genuine replies of every other instance, each echoed byte changed, suppress-bit variants, negative "
                "responses naming the same sid x response codes (all 256 per instance in thorough, all 256 for three "
                "representative services + one per ISO code class in quick), naming another sid x valid/reserved/"
                "NRC numerically equal to the request sid, lengths 1/2/4, every truncation, extensions} + every case "
                "TLC enumerated for the design layer; distinct = distinct (request bytes, raw flag, reply bytes); "
                "non-trivial = every distinct pair except the plain genuine reply of a request")
    rep.assumptions = [
        "ISO 14229-1 layouts and the response-code table are transcribed by hand into UdsMatchContract.tla; where "
        "the standard or the statement leaves a case open the contract accepts every outcome (counted as unspecified)",
        "the end-to-end observation of a genuine responsePending (7F sid 78) is left to C04",
        "request kinds whose class cannot be constructed or serialised (C01's subject) are exercised as RawRequest "
        "bytes only; they are listed in unconstructible_kinds",
        "UDSClient.request() is run with max_retry=0 on a scripted transport under the virtual-time loop",
    ]
    # ---- 1. design |= contract, negative controls, export of the enumerated cases (spec -> code)
    pool_ex = ThreadPoolExecutor(max_workers=4)
    fm, fd = model_check_start(pool_ex)
    t_phase = time.time()
    phases: dict[str, float] = {}

    def lap(name: str) -> None:
        nonlocal t_phase
        phases[name] = round(time.time() - t_phase, 1)
        t_phase = time.time()
    # ---- 2. enumerate pairs for the real code
    reqs, failed, skipped = build_requests()
    rep.extra["request_instances"] = len(reqs)
    rep.extra["request_kinds"] = sorted({r.kind for r in reqs})
    rep.extra["unconstructible_kinds"] = failed
    rep.extra["skipped_placeholder_classes"] = skipped
    rnd = random.Random(seed)
    # quick: the base variant of every kind, plus the multi-identifier ReadDataByIdentifier variants (their
    # echo rule -- the FIRST identifier -- differs from "any requested identifier")
    # ... and every variant of the memory services (explicit formats, announced sizes that differ from the data)
    MEM = {"ReadDataByIdentifierRequest", "WriteMemoryByAddressRequest", "ReadMemoryByAddressRequest",
           "DefineByMemoryAddressRequest", "RequestDownloadRequest", "RequestUploadRequest"}
    active = reqs if deep else [r for r in reqs if r.base or r.kind in MEM]
    pool_src = reqs if deep else active
    pool: list[bytes] = []
    for r in pool_src:
        for g in (genuine_replies(r.pdu) if deep else genuine_replies(r.pdu)[:1]):
            if g not in pool:
                pool.append(g)
    if deep:
        # truncated and negative replies of other services as foreign replies, too
        extra = []
        for g in pool:
            if len(g) > 2:
                extra.append(g[:2])
        for g in extra:
            if g not in pool:
                pool.append(g)
    representative = {0x22, 0x23, 0x85}
    seen: dict[tuple[bytes, bool, bytes], int] = {}
    cases: list[dict[str, Any]] = []
    objs: list[service.UDSRequest] = []

    def add(obj: service.UDSRequest, rc: ReqCase | None, req: bytes, raw: bool, reply: bytes, label: str,
            design: str | None = None) -> None:
        if len(reply) == 0:
            return
        k = (req, raw, reply)
        if k in seen:
            if design is not None:
                cases[seen[k]]["design"] = design
            return
        seen[k] = len(cases)
        cases.append({"id": len(cases), "req": req, "raw": raw, "reply": reply, "label": label,
                      "kind": rc.kind if rc else f"sid_0x{req[0]:02x}",
                      "ctor": rc.ctor() if rc else {"kind": "RawRequest", "args": {"pdu": {"$b": req.hex()}}},
                      "design": design})
        objs.append(obj)

    nrc_full_done: set[int] = set()
    for rc in active:
        full = deep or (rc.pdu[0] in representative and rc.pdu[0] not in nrc_full_done and not rc.raw)
        if full:
            nrc_full_done.add(rc.pdu[0])
        for label, reply in families(rc, pool, all_nrc=full, deep=deep):
            add(rc.obj, rc, rc.pdu, rc.raw, reply, label)
    # the byte strings the behavioural harnesses (C04 ...) use as reply classes
    rdbi = next(r for r in reqs if r.kind == "ReadDataByIdentifierRequest" and r.pdu == bytes.fromhex("221234"))
    for h in ("6212340100", "7f2231", "7f2221", "7f2278", "5003001901f4", "7f1031", "62123500", "6212", "62", "7f22"):
        add(rdbi.obj, rdbi, rdbi.pdu, False, bytes.fromhex(h), "c04-abstraction")
    # seeded random replies (thorough): mutate bytes of pool replies
    if deep:
        for _ in range(6000):
            rc = rnd.choice(reqs)
            g = bytearray(rnd.choice(pool + genuine_replies(rc.pdu) * 8))
            for _k in range(rnd.randint(0, 2)):
                g[rnd.randrange(len(g))] = rnd.randrange(256)
            if rnd.random() < 0.3:
                g = g[:rnd.randint(1, len(g))]
            add(rc.obj, rc, rc.pdu, rc.raw, bytes(g), "random-mutation")
    lap("enumerate")
    # ---- 3. drive the real code (first the harness-generated pairs, while TLC model-checks)
    def observe(frm: int) -> None:
        for c, obj in zip(cases[frm:], objs[frm:]):
            c["p"], c["map"], c["pyclass"] = observe_parse(obj, c["reply"])
        for c, e in zip(cases[frm:], observe_e2e([(obj, c["reply"]) for c, obj in zip(cases[frm:], objs[frm:])])):
            c["e"] = e

    observe(0)
    lap("drive_real_code")
    mc_cases = model_check_finish(rep, fm, fd)
    pool_ex.shutdown()
    lap("wait_for_model_checking")
    n_own = len(cases)
    # spec -> code: every case of the design-layer model, replayed into the real code
    for m in mc_cases:
        add(service.RawRequest(m["req"]), None, m["req"], m["raw"], m["reply"], m["label"], design=m["design"])
    observe(n_own)
    lap("replay_design_cases")
    # ---- 4. TLC decides
    verdicts = validate(cases, rep)
    lap("tlc_trace_validation")
    rep.traces = len(cases)
    rep.evaluations = 2 * len(cases)
    by_class: dict[str, int] = {}
    genuine_kinds: set[str] = set()
    drift = 0
    for c in cases:
        v, cl = verdicts[c["id"]]
        by_class[cl] = by_class.get(cl, 0) + 1
        if cl == "Genuine":
            genuine_kinds.add(c["kind"])
        if c["label"] not in ("genuine", "mc:genuine"):
            rep.nontrivial.add(c["id"])
        if v != "ok":
            via = "e2e" if v.endswith("@e2e") else "parse_pdu"
            clause = v.removesuffix("@e2e")
            got = c["e"] if via == "e2e" else c["p"]
            r = c["reply"]
            head = "7f" if r[0] == 0x7F else r[:2].hex() if (r[0] - 0x40) & 0xFF in HAS_SF and len(r) > 1 else r[:1].hex()
            rep.violate(clause, {"kind": c["kind"], "reply": c["label"].removeprefix("mc:"), "reply_head": head,
                                 "got": got, "via": via, "contract_class": cl},
                        {"req": c["req"].hex(), "raw": c["raw"], "reply": c["reply"].hex(), "ctor": c["ctor"],
                         "parse_pdu": c["p"], "e2e": c["e"], "python": c["pyclass"], "map": c["map"]})
        elif c["design"] is not None and c["design"] != c["p"]:
            drift += 1
            rep.drift.append({"req": c["req"].hex(), "raw": c["raw"], "reply": c["reply"].hex(),
                              "design": c["design"], "code": c["p"], "contract_class": cl})
    # one representative of every distinct (clause, outcome, reply head, path) first: the replay file keeps
    # only the first 50 violations and must not be filled by a single defect
    firsts, rest, seen_groups = [], [], set()
    for viol in rep.violations:
        g = (viol.clause, viol.sig.get("got"), viol.sig.get("reply_head"), viol.sig.get("via"))
        (rest if g in seen_groups else firsts).append(viol)
        seen_groups.add(g)
    rep.violations[:] = firsts + rest
    rep.extra["contract_classes"] = dict(sorted(by_class.items()))
    rep.extra["unspecified"] = sum(n for k, n in by_class.items() if k in UNSPECIFIED_CLASSES)
    rep.extra["spec_to_code_replayed"] = len(mc_cases)
    rep.extra["spec_to_code_drift"] = drift
    rep.extra["families"] = {}
    for c in cases:
        f = c["label"].removeprefix("mc:")
        rep.extra["families"][f] = rep.extra["families"].get(f, 0) + 1
    # coverage of the contract: every class of the oracle was exercised, every modelled kind has a genuine reply
    need = {"NegGenuine", "NegOther", "NegUndecodable", "NegUnsure", "PosOther", "SidOnly", "Genuine", "Differs",
            "DiffersUndecodable", "Truncated", "Unsure", "Free"}
    if not need <= set(by_class):
        raise Machinery(f"contract classes never exercised: {sorted(need - set(by_class))}")
    kinds = {rc.kind for rc in active if rc.kind != "RawRequest"}
    if kinds - genuine_kinds:
        raise Machinery(f"no reply recognised as genuine by the contract for kinds {sorted(kinds - genuine_kinds)}")
    # totality: every member of UDSErrorCodes was seen as an accepted negative response with its own exception
    mapped = {c["reply"][2] for c in cases if c["p"] == "Accept" and c["map"] >= 0}
    rep.extra["error_codes_total"] = len(UDSErrorCodes)
    rep.extra["error_codes_mapped_to_own_exception"] = len(mapped & {int(x) for x in UDSErrorCodes})
    rep.extra["error_codes_not_observed"] = sorted(hex(int(x)) for x in UDSErrorCodes if int(x) not in mapped)
    rep.exhaustive = True
    rep.extra["exhaustive_over"] = ("the design-layer pair space of MC_UdsMatch (all cases replayed into the code); "
                                    "all 256 response codes x " + ("every request instance" if deep else
                                                                   "three representative services")
                                    + "; every truncation of every genuine reply; the cross product request "
                                    "instance x genuine reply of every other instance")
    for c in cases[:2] + cases[len(cases) // 2: len(cases) // 2 + 2] + cases[-2:]:
        rep.sample({"kind": c["kind"], "req": c["req"].hex(), "raw": c["raw"], "reply": c["reply"].hex(),
                    "family": c["label"], "parse_pdu": c["p"], "request()": c["e"],
                    "contract_class": verdicts[c["id"]][1], "verdict": verdicts[c["id"]][0]})
    # ---- 5. binding self-tests
    # (seeds are chosen by what the code did and the contract class, not by the final verdict, so that a
    #  tree full of violations still gets its VIOLATION instead of a machinery failure)
    good = [c for c in cases if verdicts[c["id"]][1] == "Genuine" and c["p"] == "Accept" and len(c["reply"]) > 2
            and c["req"][0] == 0x22 and not c["raw"]]
    goodneg = [c for c in cases if verdicts[c["id"]][1] == "NegGenuine" and c["p"] == "Accept"
               and c["map"] == c["reply"][2]]
    foreign = [c for c in cases if verdicts[c["id"]][1] == "PosOther" and c["p"] == "Mismatch"]
    if not good or not goodneg or not foreign:
        if rep.violations:
            rep.extra["binding_selftest"] = "skipped: the tree under test accepts no genuine / refuses no foreign reply"
            rep.extra["phase_s"] = phases
            return rep
        raise Machinery("no accepted genuine / negative / foreign case to run the binding self-test on")
    t1 = dict(good[0], id=0, p="Mismatch", e="NA", map=-2)                 # outcome field corrupted
    t2 = dict(good[0], id=1, e="NA", map=-2,
              reply=good[0]["reply"][:1] + bytes([good[0]["reply"][1] ^ 1]) + good[0]["reply"][2:])
    t3 = dict(goodneg[0], id=2, e="NA", map=(goodneg[0]["map"] + 1) % 256)  # wrong exception class
    t4 = dict(foreign[0], id=3, e="Accept", map=-2)                        # stale reply became a result end to end
    muts = []
    for i, c in enumerate(rnd.sample(cases, 60)):
        obj = rebuild(c["ctor"])
        o = lenient_matcher_mutant(obj, c["reply"])
        muts.append(dict(c, id=4 + i, p=o, e="NA", map=-2))
    v = validate([t1, t2, t3, t4] + muts)
    if any(v[i][0] == "ok" for i in range(4)):
        raise Machinery(f"binding self-test: corrupted cases accepted: {[v[i] for i in range(4)]}")
    nrej = sum(1 for m in muts if v[m["id"]][0] != "ok")
    if nrej == 0:
        raise Machinery("binding self-test: the lenient-matcher mutant was accepted on all sampled pairs")
    lap("binding_selftest")
    rep.extra["phase_s"] = phases
    rep.extra["binding_selftest"] = {"corrupted_rejected": [v[i][0] for i in range(4)],
                                     "lenient_matcher_mutant_rejected": f"{nrej}/60"}
    return rep


def replay(path: str) -> int:
    quiet_gallia_logging()
    data = json.loads(open(path).read())
    cases = []
    objs = []
    for i, viol in enumerate(data["violations"]):
        d = viol["detail"]
        if "req" not in d:
            print(f"replay: design-layer violation {viol['clause']} (re-run the check to reproduce)")
            continue
        obj = rebuild(d["ctor"])
        if bytes(obj.pdu).hex() != d["req"]:
            print(f"replay: request bytes changed: {bytes(obj.pdu).hex()} (recorded {d['req']})")
        cases.append({"id": len(cases), "req": bytes(obj.pdu), "raw": d["raw"], "reply": bytes.fromhex(d["reply"]),
                      "kind": d["ctor"]["kind"]})
        objs.append(obj)
    for c, obj in zip(cases, objs):
        c["p"], c["map"], c["pyclass"] = observe_parse(obj, c["reply"])
    for c, e in zip(cases, observe_e2e([(o, c["reply"]) for c, o in zip(cases, objs)])):
        c["e"] = e
    bad = 0
    if cases:
        v = validate(cases)
        for c in cases:
            print(f"replay {c['kind']} req={c['req'].hex()} reply={c['reply'].hex()} parse_pdu={c['p']} "
                  f"request()={c['e']} class={v[c['id']][1]} verdict={v[c['id']][0]}")
            bad += v[c["id"]][0] != "ok"
    if bad:
        print(f"VIOLATION property=C03 replay={path}")
        return 1
    return 0
