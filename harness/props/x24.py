"""X24 (growth) — the convenience calls of gallia's ECU class and the response-classification helpers mean what their
documentation says; the cyclic tester-present worker has the life cycle its users rely on.  Property text: growth/X24.json.

spec   : spec/EcuHelpersContract.tla (clauses C*, H*, ST, PJ, TP1..TP7; every clause's source is listed in its header),
         spec/EcuHelpers.tla (design: one action per await point; the environment's choices are part of the case, so TLC
         enumerates method x answer class x state and all life-cycle scripts), MC_EcuHelpers_{call,helpers,life3}
         (+ callnrc, life4 in the thorough tier); negative controls MC_EcuHelpers_dev* (devLeak / devResurrect = the two
         defects found: findings/X24-F1-*, X24-F2-*; asfound = both)
binding: the REAL ECU object on harness.fakes.ScriptedTransport under virtual time and through the in-memory tcp-lines
         stack of harness/c10_stack.py with gallia's RandomUDSServer; the real helper functions on real response objects.
         spec->code: every case TLC enumerated is replayed into the real code, its event list compared with the design's
         (DRIFT only); code->spec: every execution validated by Trace_EcuHelpers (TLC decides).
"""

from __future__ import annotations

import json
import re
from concurrent.futures import ThreadPoolExecutor
from typing import Any

from harness import tlc
from harness import x24_cases as cs
from harness import x24_run as xr
from harness.common import Machinery, Report, quiet_gallia_logging

JVM_SMALL = "-XX:TieredStopAtLevel=1 -XX:ParallelGCThreads=2 -XX:CICompilerCount=1"
DESIGN = ["life3", "helpers", "call"]
DESIGN_THOROUGH = ["life4", "callnrc"]
NEG_CONTROLS = {
    "devPing": "CW/", "devRsNeg": "CS/negative-raises", "devDtcMask": "CW/", "devClear": "CW/", "devVin": "CW/",
    "devCfg": "CT/", "devMissing": "CM/", "devIdent": "HS/identifier", "devSvc": "HS/service", "devGap": "HE/",
    "devAsExc": "HE/returns-not-raises", "devNoTrig": "HE/no-trigger-request", "devMmNeg": "HM/mismatch-raises",
    "devReset": "ST/", "devJsonRaw": "PJ/bytes-hex", "devJsonSort": "PJ/sorted-keys", "devLeak": "TP", "devResurrect": "TP3/",
    "devDieTmo": "TP4/", "devDieConn": "TP4/", "devStopRun": "TP3/", "devMutex": "TP", "devStopRaise": "TP1/", "asfound": "TP",
}
ACTIONS = ["CStart", "CLocal", "CSend", "CRecv", "CRet", "HEval", "LStart", "LEnv", "LBegin", "LStop", "LSync", "LWait", "LFg",
           "LObs", "LRet", "Done"]


# ------------------------------------------------------------------ design layer
def _mc_start(tier: str) -> tuple[Any, list[tuple[str, str | None]], list[Any]]:
    jobs: list[tuple[str, str | None]] = [(c, None) for c in (DESIGN_THOROUGH if tier == "thorough" else [])]
    jobs += [(c, None) for c in DESIGN] + list(NEG_CONTROLS.items())

    def one(j: tuple[str, str | None]) -> Any:
        return tlc.run_tlc("MC_EcuHelpers", f"MC_EcuHelpers_{j[0]}.cfg", workers=1, timeout=1500, coverage=j[1] is None,
                           heap="2g", parse_prints=j[1] is None, env={"JAVA_TOOL_OPTIONS": JVM_SMALL})

    ex = ThreadPoolExecutor(max_workers=7)
    return ex, jobs, [ex.submit(one, j) for j in jobs]


def _design_cases(res: Any) -> list[tuple[dict[str, Any], bool, list[Any]]]:
    out = []
    for p in res.prints:
        if isinstance(p, list) and len(p) == 4 and p[0] == "HIST":
            out.append((cs.from_tlc(p[1]), bool(p[2]), p[3]))
    return out


def _mc_finish(rep: Report, jobs: list[tuple[str, str | None]], results: list[Any]) -> None:
    cov: dict[str, int] = {}
    for (c, want), res in zip(jobs, results):
        rep.add_tlc(res, f"MC_EcuHelpers_{c}" + (" (negative control)" if want else ""))
        labs = re.findall(r'fail \|-> "([^"]+)"', res.out)
        if want is None:
            if not res.ok:
                rep.violate(f"design/{res.violated}", {"where": "EcuHelpers design layer", "cfg": c},
                            {"label": labs[-1] if labs else None, "cex": res.cex[-4:], "out": res.out[-1500:]})
            for a, (n, _) in res.coverage.items():
                cov[a] = cov.get(a, 0) + n
        elif res.violated != "ContractHolds" or not labs or not labs[-1].startswith(want):
            raise Machinery(f"negative control MC_EcuHelpers_{c} did not violate {want} (got {res.violated}, {labs[-1:]}): "
                            "contract is vacuous")
    never = [a for a in ACTIONS if cov.get(a, 0) == 0]
    if never:
        raise Machinery(f"design actions never taken in the MC_EcuHelpers configs: {never}")
    rep.extra["design_action_coverage"] = {a: cov[a] for a in ACTIONS}
    rep.extra["design_layer_not_vacuous"] = "every action of EcuHelpers is taken (TLC -coverage, counts in design_action_coverage)"
    rep.extra["negative_controls"] = dict(NEG_CONTROLS)


# ------------------------------------------------------------------ real executions
def _run_cases(cases: list[dict[str, Any]]) -> list[dict[str, Any] | None]:
    out: list[dict[str, Any] | None] = []
    for i, c in enumerate(cases):
        t = xr.run_case(c)
        if t is not None:
            t["id"] = i
        out.append(t)
    return out


def _validate(traces: list[dict[str, Any]], rep: Report | None) -> dict[int, tuple[str, int, int]]:
    jobs: list[list[dict[str, Any]]] = []
    cur: list[dict[str, Any]] = []
    size = 0
    for t in traces:
        cur.append(t)
        size += len(t["ev"])
        if size > 14000 or len(cur) >= 1200:
            jobs.append(cur)
            cur, size = [], 0
    if cur:
        jobs.append(cur)

    def one(sub: list[dict[str, Any]]) -> Any:
        return tlc.validate_batch("Trace_EcuHelpers", "Trace_EcuHelpers.cfg", {"traces": [{"id": t["id"], "ev": t["ev"]} for t in sub]},
                                  timeout=1500, workers=1, heap="3g", env={"JAVA_TOOL_OPTIONS": "-Xss64m " + JVM_SMALL})

    with ThreadPoolExecutor(max_workers=6) as ex:
        results = list(ex.map(one, jobs))
    verdicts: dict[int, tuple[str, int, int]] = {}
    for res in results:
        if rep is not None:
            rep.add_tlc(res, "Trace_EcuHelpers batch")
        for p in res.prints:
            if isinstance(p, list) and len(p) == 5 and p[0] == "V":
                verdicts[p[1]] = (p[2], p[3], p[4])
    missing = [t["id"] for t in traces if t["id"] not in verdicts]
    if missing:
        raise Machinery(f"TLC produced no verdict for {len(missing)} traces (first id {missing[0]}):\n{results[-1].out[-2000:]}")
    return verdicts


# ------------------------------------------------------------------ spec -> code
def _project(ev: list[Any], timed: bool) -> list[Any]:
    """Event list for the design / code comparison: repeated reads of silence collapsed, class names of the exception
    table and (for executions the design only approximates: client mutex contention) times dropped."""
    out: list[Any] = []
    for e in ev:
        x = dict(e)
        if x["e"] == "Cls":
            x["name"] = bool(x["name"])
        if x["e"] == "Ans" and out and out[-1] == x:
            continue
        if not timed:
            for k in ("t", "t0", "t1", "dur"):
                x.pop(k, None)
        out.append(x)
    return out


def _nontrivial(case: dict[str, Any], ev: list[dict[str, Any]]) -> bool:
    k = case["kind"]
    if k in ("call", "stack"):
        return any(e["e"] == "Ans" and e["b"] for e in ev)
    if k == "life":
        return sum(1 for e in ev if e["e"] == "Bg") >= 2 and sum(1 for e in ev if e["e"] == "Op") >= 3
    return True


def _sig(case: dict[str, Any]) -> dict[str, Any]:
    k = case["kind"]
    if k in ("call", "stack"):
        ans = case.get("ans", [])
        last = ans[-1] if ans else []
        sid = cs.WIRE.get(case["m"], [0])[0]
        cls = "none" if not ans else "silent" if not last else "negative" if last[0] == 0x7F and len(last) > 1 and last[1] == sid \
            else "same-service" if last[0] == sid + 0x40 else "foreign"
        return {"kind": k, "m": case["m"], "answer": cls, "pending_first": len(ans) > 1, "config": case.get("cfg", -1) >= 0}
    if k == "life":
        return cs.life_sig(case["script"])
    if k in ("sugg", "exc"):
        return {"kind": k, "fn": case["fn"]}
    if k == "mm":
        return {"kind": k, "m": case["m"]}
    if k == "state":
        return {"kind": k, "op": case["op"]}
    return {"kind": k}


def build_extra(tier: str, seed: int) -> list[dict[str, Any]]:
    return cs.call_extra(tier, seed) + cs.stack_cases(tier) + cs.helper_extra(tier) + cs.life_extra(tier, seed)


def run(tier: str, seed: int) -> Report:
    quiet_gallia_logging()
    rep = Report("X24", tier, seed)
    rep.rule = ("executions = calls of the real ECU.ping / read_session / read_dtc / clear_dtc / read_vin / properties / "
                "set_session_pre / set_session_post against a scripted ECU (and gallia's RandomUDSServer over the in-memory "
                "tcp-lines stack), evaluations of the real helpers on real response objects, life-cycle scripts of the real "
                "tester-present worker under virtual time; distinct = distinct cases; non-trivial = call: the ECU answered "
                "something; helper: every evaluation; life: at least two background TesterPresent requests and three steps")
    rep.assumptions = [
        "growth item: the property text is /verif/growth/X24.json; every clause's source is listed in the header of "
        "spec/EcuHelpersContract.tla",
        "convenience calls run with max_retry 0 (the retry loop, busyRepeatRequest and the 0x78 limits are C04's), client "
        "timeout 0.5 s (0.3 / 2 s in a few cases), optionally a UDSRequestConfig(timeout=...); the scripted ECU answers the "
        "successive reads of the one exchange with the case's byte strings; the class of an answer (positive, negative, "
        "pending, foreign, impossible) is computed by the CONTRACT from the bytes with ISO 14229-1's layouts alone",
        "where the sources are silent the contract accepts every outcome and counts the execution in `unspecified`: answers "
        "with trailing bytes or reserved NRCs, busyRepeatRequest, session records of more than one byte, duplicate DTCs "
        "(C02's known finding), the tracked state after a refused (mismatching / malformed) answer, requestOutOfRange for "
        "the sub-function helper, subFunctionNotSupported for the identifier helper, as_exception on a positive response",
        "life cycle: one user task calls start / stop_cyclic_tester_present, wait_for_ecu(2 s) and ECU.ping; the ECU's "
        "answer mode (answers, silent, connection error on write, negative response) changes only between steps; every "
        "step is followed by an observation window of 4.13 s; a background request = a TesterPresent written by any task "
        "other than the user's; B = interval + 2 * request timeout + 100 ms",
        "the late answer to a TesterPresent that was cancelled in flight (it would be read by the next request) is not "
        "modelled: the sources say nothing about it",
    ]
    ex, jobs, futs = _mc_start(tier)
    extra = build_extra(tier, seed)
    # the Python-side families run while TLC works
    extra_traces = _run_cases(extra)
    results = [f.result() for f in futs]
    ex.shutdown()
    _mc_finish(rep, jobs, results)
    design: list[tuple[dict[str, Any], bool, list[Any]]] = []
    for (c, want), res in zip(jobs, results):
        if want is None:
            d = _design_cases(res)
            if not d:
                raise Machinery(f"MC_EcuHelpers_{c} exported no case (HIST lines missing)")
            design += d
    seen: set[str] = set()
    tlc_cases, tlc_hist, tlc_approx = [], [], []
    for c, approx, hist in design:
        kk = cs.key(c)
        if kk not in seen:
            seen.add(kk)
            tlc_cases.append(c)
            tlc_hist.append(hist)
            tlc_approx.append(approx)
    rep.extra["cases_enumerated_by_tlc"] = len(tlc_cases)
    tlc_traces = _run_cases(tlc_cases)
    cases = tlc_cases + extra
    traces_all = tlc_traces + extra_traces
    # ---- spec -> code: drift only
    drift = skipped = 0
    for i, (c, t) in enumerate(zip(tlc_cases, tlc_traces)):
        if t is None:
            skipped += 1
            continue
        timed = not tlc_approx[i]
        got, want = _project(t["ev"], timed), _project(tlc_hist[i], timed)
        if got != want:
            drift += 1
            j = next((n for n, (a, b) in enumerate(zip(got, want)) if a != b), min(len(got), len(want)))
            if len(rep.drift) < 20:
                rep.drift.append({"case": {k: v for k, v in c.items() if k != "fields"}, "first_difference_at": j,
                                  "design": want[max(0, j - 1):j + 2], "code": got[max(0, j - 1):j + 2]})
    rep.extra["spec_to_code_replayed"] = len(tlc_cases) - skipped
    rep.extra["spec_to_code_drift"] = drift
    rep.extra["spec_to_code_time_abstracted"] = sum(1 for a in tlc_approx if a)
    # ---- code -> spec
    traces: list[dict[str, Any]] = []
    index: list[int] = []
    for i, t in enumerate(traces_all):
        if t is not None:
            t["id"] = len(traces)
            traces.append(t)
            index.append(i)
    verdicts = _validate(traces, rep)
    rep.traces = rep.evaluations = len(traces)
    per_kind: dict[str, int] = {}
    unspec: dict[str, int] = {}
    keys: set[str] = set()
    for t in traces:
        c = cases[index[t["id"]]]
        k = c["kind"]
        per_kind[k] = per_kind.get(k, 0) + 1
        v, _, u = verdicts[t["id"]]
        unspec[k] = unspec.get(k, 0) + u
        kk = cs.key(c)
        if _nontrivial(c, t["ev"]) and kk not in keys:
            keys.add(kk)
            rep.nontrivial.add(kk)
        if v.startswith("trace/"):
            raise Machinery(f"recorded trace not understood by the contract ({v}) in case {c}")
        if v != "ok":
            rep.violate(v, _sig(c), {"case": c, "exc": t.get("exc"), "events": t["ev"][:40]})
    rep.extra["executions_per_kind"] = per_kind
    rep.extra["unspecified"] = unspec
    rep.extra["background_pings_observed"] = sum(1 for t in traces for e in t["ev"] if e["e"] == "Bg")
    rep.extra["exhaustive_spaces"] = (
        "call: 5 wire calls x {every positive variant, 10 NRCs, 78-then-positive, 78-silence-positive, 78-78-negative, 78 then "
        "silence, silence, 3 foreign answers, every too-short / wrong-echo answer} x 2 tracked states x config timeout or not, "
        "+ properties / hooks; every ISO NRC x every call (Python family; TLC family in the thorough tier); helpers: 3 suggests_* "
        "x 74 ISO NRCs x {code, negative response} + positive response, raise_for_error / as_exception / parse_dynamic x 74 NRCs "
        "x trigger request x message, the whole exception class table, raise_for_mismatch x 5 requests x response pool, ECUState "
        "x values, to_json x field sets x indent; life: ALL scripts of up to 3 steps (thorough 4) over {start 1.0 s, start 1.5 s, "
        "stop, wait for a ping in flight, wait_for_ecu, request, ECU answers / silent / connection error} x 3 (4) initial modes "
        "that contain a start or have at most 2 steps, + seeded longer ones")
    picks = [0, len(tlc_cases) // 2, len(tlc_cases) - 1, len(cases) - 1]
    for t in traces:
        if index[t["id"]] in picks:
            c = cases[index[t["id"]]]
            rep.sample({"case": {k: v for k, v in c.items() if k != "fields"}, "events": t["ev"][:8], "verdict": verdicts[t["id"]][0]})
    rep.exhaustive = True
    _selftest(rep, cases, traces, index, verdicts)
    return rep


def _selftest(rep: Report, cases: list[dict[str, Any]], traces: list[dict[str, Any]], index: list[int],
              verdicts: dict[int, tuple[str, int, int]]) -> None:
    def clone(t: dict[str, Any]) -> dict[str, Any]:
        return json.loads(json.dumps(t))

    def pick(pred: Any) -> dict[str, Any] | None:
        for t in traces:
            if verdicts[t["id"]][0] == "ok" and verdicts[t["id"]][2] == 0 and pred(cases[index[t["id"]]], t["ev"]):
                return t
        return None

    a = pick(lambda c, ev: c["kind"] == "call" and c["m"] == "read_dtc" and ev[-1]["how"] == "resp" and not ev[-1]["neg"]
             and len(ev[-1]["b"]) > 3)
    b = pick(lambda c, ev: c["kind"] == "call" and c["m"] == "read_session" and ev[-1]["how"] == "raise" and ev[-1]["x"]["unr"])
    d = pick(lambda c, ev: c["kind"] == "call" and c["m"] == "read_session" and ev[-1]["how"] == "int" and ev[-1]["v"] != c["s0"])
    f = pick(lambda c, ev: c["kind"] == "sugg" and ev[1]["out"] == "true" and ev[1]["fn"] == "ident" and ev[1]["nrc"] == 0x31)
    g = pick(lambda c, ev: c["kind"] == "exc" and ev[1]["out"] == "raise" and ev[1]["x"]["unr"])
    h = pick(lambda c, ev: c["kind"] == "life" and sum(1 for e in ev if e["e"] == "Bg") >= 3
             and any(e["e"] == "Op" and e["op"] == "stop" for e in ev))
    j = pick(lambda c, ev: c["kind"] == "json" and any(fl["t"] == "bytes" and fl["b"] for fl in ev[1]["fields"]))
    if None in (a, b, d, f, g, h, j):
        if rep.violations:
            rep.extra["binding_selftest"] = "skipped: no accepted execution of every kind on this tree (violations reported)"
            return
        raise Machinery("no accepted non-trivial trace of every kind to run the binding self-test on")
    assert a and b and d and f and g and h and j
    muts: list[tuple[str, dict[str, Any], str]] = []
    x = clone(a)
    x["ev"][1]["b"][-1] ^= 0xF7
    muts.append(("call: status mask of the read_dtc request changed", x, "CW/"))
    x = clone(a)
    x["ev"][-1]["b"][-1] ^= 1
    muts.append(("call: one byte of the returned response changed", x, "CR/positive-returned"))
    x = clone(b)
    x["ev"][-1]["x"]["rc"] = 0x10 if x["ev"][-1]["x"]["rc"] != 0x10 else 0x11
    muts.append(("call: exception class of another NRC", x, "CS/negative-raises"))
    x = clone(b)
    x["ev"][-1]["x"]["resp"] = []
    x["ev"][-1]["x"]["hasresp"] = False
    muts.append(("call: exception without the response", x, "CE/"))
    x = clone(d)
    x["ev"][-1]["sess"] = x["ev"][0]["s0"]
    muts.append(("call: reported session not taken over", x, "CB/"))
    x = clone(f)
    x["ev"][1]["out"] = "false"
    muts.append(("helper: requestOutOfRange not recognised", x, "HS/identifier"))
    x = clone(g)
    x["ev"][1]["x"]["req"] = x["ev"][1]["x"]["req"][:-1]
    muts.append(("helper: exception carries another request", x, "HE/carries"))
    x = clone(h)
    k = max(i for i, e in enumerate(x["ev"]) if e["e"] == "Op" and e["op"] == "stop")
    x["ev"].insert(k + 1, {"e": "Bg", "t": x["ev"][k]["t1"] + 700})
    muts.append(("life: a background request after stop", x, "TP3/"))
    x = clone(h)
    first = next(i for i, e in enumerate(x["ev"]) if e["e"] == "Bg")
    k = next(i for i, e in enumerate(x["ev"]) if i > first and e["e"] in ("Op", "Obs"))
    x["ev"] = x["ev"][:first] + [e for e in x["ev"][first:k] if e["e"] != "Bg"] + x["ev"][k:]
    muts.append(("life: the worker's requests of one window removed", x, "TP"))
    x = clone(j)
    for dd in x["ev"][1]["dec"]:
        if dd["t"] == "str" and any(fl["k"] == dd["k"] and fl["t"] == "bytes" for fl in x["ev"][1]["fields"]):
            dd["s"] = dd["s"][:-1] + ("0" if dd["s"][-1:] != "0" else "1")
    muts.append(("json: hex rendering of a bytes field changed", x, "PJ/bytes-hex"))
    # mutant of the harness's own fake: the scripted ECU records another request than it received
    real = xr.CallEnv.on_write

    def lying(self: Any, data: bytes) -> Any:
        r = real(self, data)
        self.ev[-1]["b"].append(0x55)
        return r

    xr.CallEnv.on_write = lying  # type: ignore[method-assign]
    try:
        mt = xr.run_call({"kind": "call", "m": "ping", "s0": 1, "sec0": -1, "tmo": 500, "cfg": -1, "ans": [[0x7E, 0x00]]})
    finally:
        xr.CallEnv.on_write = real  # type: ignore[method-assign]
    muts.append(("fake ECU records a request it did not receive", mt, "CW/"))
    for n, (_, t, _) in enumerate(muts):
        t["id"] = n
    v = _validate([t for _, t, _ in muts], None)
    got = {name: v[n][0] for n, (name, _, _) in enumerate(muts)}
    wrong = [name for n, (name, _, want) in enumerate(muts) if not v[n][0].startswith(want)]
    if wrong:
        raise Machinery(f"binding self-test: corrupted traces / fake mutant not rejected as expected: {wrong}: {got}")
    rep.extra["binding_selftest"] = got


def replay(path: str) -> int:
    quiet_gallia_logging()
    data = json.loads(open(path).read())
    cases = []
    bad = 0
    for n, v in enumerate(data["violations"]):
        case = v["detail"].get("case")
        if case is None:
            print(f"replay: violation {n} ({v['clause']}) is a design-layer counterexample: re-run ./check X24")
            bad += 1
            continue
        cases.append(case)
    if cases:
        traces = [t for t in _run_cases(cases) if t is not None]
        verdicts = _validate(traces, None)
        for t in traces:
            c = cases[t["id"]]
            print(f"replay kind={c['kind']} {c.get('m') or c.get('fn') or c.get('script') or ''} verdict={verdicts[t['id']][0]}")
            bad += verdicts[t["id"]][0] != "ok"
    if bad:
        print(f"VIOLATION property=X24 replay={path}")
        return 1
    return 0
