"""X05 (growth, not a listed property) — `gallia scan uds memory` (MemoryFunctionsScanner).

property: growth/X05.json
spec    : spec/MemoryScanContract.tla (M1..M8, sources of every clause in its header), spec/MemoryScan.tla (design,
          deviation constants), spec/MC_MemoryScan*.{tla,cfg}, spec/Trace_MemoryScan.{tla,cfg}
binding : the REAL MemoryFunctionsScanner, run through AsyncScript.run() with a real ECU client over the full
          tcp-lines stack in memory (harness/c10_stack.py) against scripted ECU memory models (harness/x05_mem.py),
          virtual time; code->spec: every execution validated by Trace_MemoryScan (TLC decides);
          spec->code: TLC-simulated design behaviours concretised and replayed (DRIFT only).
"""

from __future__ import annotations

import hashlib
import json
import multiprocessing as mp
import os
from concurrent.futures import Future, ThreadPoolExecutor
from typing import Any

from harness import tlc
from harness import x05_cases as cs
from harness.c10_stack import setup_logging_once
from harness.common import Machinery, Report
from harness.x05_mem import addr_bytes, run_case, sweep_of

MC_QUICK = ["c", "crash", "aq", "aq2", "bq"]
MC_THOROUGH = ["c", "crash", "a", "b"]
MC_COV = "cov"
NEG = {
    "devTimeout": {"M3_Reported", "M5_Sweep"},
    "devRoor": {"M4_OnlyReal"},
    "devNoDfi": {"M1_Layout"},
    "devSwap": {"M1_Layout", "M4_OnlyReal"},
    "devSize": {"M1_Layout"},
    "devCheckOnce": {"M6_Check"},
    "devNoRecover": {"M2_Session"},
    "devIndex": {"M3_Reported", "M4_OnlyReal"},
}
DESIGN_ACTIONS = {"SetSession", "Loop", "Check", "Recover", "Send", "Leave", "Judge"}
NPROC = max(2, min(12, (os.cpu_count() or 4) - 2))
CHUNK = 40
TLC_ENV = {"JAVA_TOOL_OPTIONS": "-Xss64m"}


def _norm_done(d: str) -> str:
    """Representation only: how run() ended."""
    if d in ("ok", "exit0", "exitNone"):
        return "ok"
    if d.startswith("exit"):
        return "exit"
    if d.startswith("exc"):
        return "exc"
    return "hang"


def _run_cases(cases: list[dict[str, Any]]) -> list[dict[str, Any]]:
    if not cases:
        return []
    ctx = mp.get_context("fork")
    with ctx.Pool(NPROC) as pool:
        return pool.map(run_case, cases, chunksize=2)


def _base_key(case: dict[str, Any]) -> str:
    c = case["cfg"]
    return json.dumps([case["den"], c.get("max_retries"), c.get("timeout"), c.get("defaults", False),
                       sorted(case["ecu"]["sessions"])], sort_keys=True)


def _validate(traces: list[dict[str, Any]], sweeps: list[list[list[int]]], rep: Report | None
              ) -> tuple[dict[int, str], dict[int, int]]:
    jobs = [traces[off:off + CHUNK] for off in range(0, len(traces), CHUNK)]

    def one(sub: list[dict[str, Any]]) -> Any:
        used = sorted({t["sw"] for t in sub})
        remap = {s: i + 1 for i, s in enumerate(used)}
        batch = {"sweeps": [sweeps[s - 1] for s in used],
                 "traces": [{"id": t["id"], "C": t["C"], "E": t["E"], "sw": remap[t["sw"]], "ev": t["ev"],
                             "done": t["done_kind"]} for t in sub]}
        return tlc.validate_batch("Trace_MemoryScan", "Trace_MemoryScan.cfg", batch, timeout=3000, workers=1,
                                  heap="3g", env=TLC_ENV)

    with ThreadPoolExecutor(max_workers=6) as ex:
        results = list(ex.map(one, jobs))
    verdicts: dict[int, str] = {}
    unspec: dict[int, int] = {}
    for res in results:
        if rep is not None:
            rep.add_tlc(res, "Trace_MemoryScan batch")
        for p in res.prints:
            if isinstance(p, list) and len(p) == 3 and p[0] == "V":
                verdicts[p[1]] = p[2]
            elif isinstance(p, list) and len(p) == 3 and p[0] == "U":
                unspec[p[1]] = p[2]
    missing = [t["id"] for t in traces if t["id"] not in verdicts]
    if missing:
        raise Machinery(f"TLC produced no verdict for {len(missing)} traces (first id {missing[0]}):\n"
                        + results[-1].out[-2000:])
    return verdicts, unspec


# ------------------------------------------------------------------ 1. design layer
def _mc_jobs(tier: str) -> list[tuple[str, set[str] | None, bool]]:
    jobs: list[tuple[str, set[str] | None, bool]] = [(c, None, False) for c in (MC_THOROUGH if tier == "thorough" else MC_QUICK)]
    jobs.append((MC_COV, None, True))
    jobs += [(c, want, False) for c, want in NEG.items()]
    return jobs


def _mc_start(ex: ThreadPoolExecutor, tier: str) -> list[tuple[tuple[str, set[str] | None, bool], Future[Any]]]:
    def one(j: tuple[str, set[str] | None, bool]) -> Any:
        return tlc.run_tlc("MC_MemoryScan", f"MC_MemoryScan_{j[0]}.cfg", workers=4 if j[1] is None else 2,
                           timeout=3000, coverage=j[2], heap="3g")

    return [(j, ex.submit(one, j)) for j in _mc_jobs(tier)]


def _mc_finish(rep: Report, futs: list[tuple[tuple[str, set[str] | None, bool], Future[Any]]]) -> None:
    cov: dict[str, Any] = {}
    for (c, want, coverage), f in futs:
        res = f.result()
        rep.add_tlc(res, f"MC_MemoryScan_{c}" + (" (negative control)" if want else ""))
        if want is None:
            if not res.ok:
                rep.violate(f"design/{res.violated}", {"where": "MemoryScan design layer", "cfg": c},
                            {"cex": res.cex[-8:], "out": res.out[-1500:]})
        elif res.violated not in want:
            raise Machinery(f"negative control MC_MemoryScan_{c} did not violate {sorted(want)} (got {res.violated}): "
                            "contract is vacuous")
        if coverage:
            taken = {a for a, (n, _) in res.coverage.items() if n > 0}
            cov = {a: n for a, (n, _) in res.coverage.items()}
            if not DESIGN_ACTIONS <= taken:
                raise Machinery(f"MC_MemoryScan_{c}: design actions never taken: {sorted(DESIGN_ACTIONS - taken)}")
    rep.extra["design_action_coverage"] = cov
    rep.extra["negative_controls"] = sorted(NEG)


# ------------------------------------------------------------------ 3. spec -> code
def _from_behaviour(st: dict[str, Any], n: int) -> tuple[dict[str, Any], dict[str, Any]] | None:
    if st.get("pc") != "Done":
        return None
    M, C = st["M"], st["C"]
    session, svc = C["session"], C["svc"]
    mem: dict[int, int] = {int.from_bytes(bytes(a), "big"): code for a, code in M["ans"]["$fn"]}
    drop = [int.from_bytes(bytes(a), "big") for a in M["drop"]["$set"]]
    ecu = cs.ecu_model(session, mem, drop=drop, sess_read=M["sread"], budget=-1 if M["budget"] >= 9 else M["budget"],
                       reset_ok=bool(M["resetOk"]))
    data = bytes(C["data"]) if svc == 0x3D else None
    case = cs.make_case(ecu, svc, session, data, C["check"] or None, C["retries"], n, "tlc-simulate")
    dset = sorted(tuple(addr_bytes(a)) for a in mem)
    res = sorted({tuple(e["a"]) for e in st["hist"] if e["k"] == "res" and e["w"] == "resp"})
    tmo = sorted({tuple(e["a"]) for e in st["hist"] if e["k"] == "res" and e["w"] == "timeout"})
    return case, {"addrs": dset, "resp": res, "timeout": tmo, "done": st["done"]}


def _sim_start(ex: ThreadPoolExecutor, tier: str, seed: int) -> list[Future[Any]]:
    nsim = 10 if tier == "quick" else 100
    return [ex.submit(tlc.simulate_behaviours, "MC_MemoryScan", f"MC_MemoryScan_{cfg}.cfg", num=nsim, depth=60,
                      seed=seed + 11 + j, timeout=1800) for j, cfg in enumerate(("simA", "simB"))]


def _spec_to_code(rep: Report, tier: str, futs: list[Future[Any]]) -> list[tuple[dict[str, Any], dict[str, Any]]]:
    out: list[tuple[dict[str, Any], dict[str, Any]]] = []
    nsim = 10 if tier == "quick" else 100
    for f in futs:
        _res, behs = f.result()
        for n, b in enumerate(behs):
            if b:
                x = _from_behaviour(b[-1][1], n)
                if x is not None:
                    out.append(x)
    rep.extra["simulated_behaviours"] = len(out)
    if len(out) < nsim:
        raise Machinery(f"spec->code: only {len(out)} complete design behaviours out of {2 * nsim} simulated")
    return out


def _drift(trace: dict[str, Any], proj: dict[str, Any]) -> dict[str, Any] | None:
    dset = {tuple(a) for a in proj["addrs"]}
    res = sorted({tuple(e["a"]) for e in trace["ev"] if e["k"] == "res" and e["w"] == "resp"} & dset)
    tmo = sorted({tuple(e["a"]) for e in trace["ev"] if e["k"] == "res" and e["w"] == "timeout"} & dset)
    want_res = sorted(set(proj["resp"]) & dset)
    want_tmo = sorted(set(proj["timeout"]) & dset)
    if res != want_res or tmo != want_tmo or trace["done_kind"] != proj["done"]:
        return {"design": {"resp": want_res, "timeout": want_tmo, "done": proj["done"]},
                "code": {"resp": res, "timeout": tmo, "done": trace["done_kind"]}}
    return None


# ------------------------------------------------------------------ run
def _digest(case: dict[str, Any]) -> str:
    return hashlib.sha1(json.dumps([case["ecu"], case["cfg"]], sort_keys=True).encode()).hexdigest()[:16]


def _sig(t: dict[str, Any], case: dict[str, Any]) -> dict[str, Any]:
    e = case["ecu"]
    return {"service": hex(t["C"]["svc"]), "check": bool(t["C"]["check"]), "sess_read": e["sess_read"],
            "drop": bool(e["drop"]), "done": t["done_kind"], "empty_data": t["C"]["svc"] == 0x3D and not t["C"]["data"]}


def _execute(cases: list[dict[str, Any]]) -> tuple[list[dict[str, Any]], list[list[list[int]]]]:
    """Runs the cases and one reference run per distinct option set; returns traces (with `sw`) and the sweeps."""
    keys: dict[str, int] = {}
    base_cases: list[dict[str, Any]] = []
    for c in cases:
        k = _base_key(c)
        if k not in keys:
            keys[k] = len(base_cases) + 1
            base_cases.append(cs.baseline_of(c))
    all_traces = _run_cases(cases + base_cases)
    traces, bases = all_traces[:len(cases)], all_traces[len(cases):]
    sweeps = []
    for b, bc in zip(bases, base_cases):
        if b["bad_records"]:
            raise Machinery(f"result-tagged log records not understood: {b['bad_records'][:3]}")
        if b["done"] not in ("ok", "exit1"):
            raise Machinery(f"reference run did not complete ({b['done']}): {json.dumps(bc['cfg'])}")
        sweeps.append(sweep_of(b))
    for i, (t, c) in enumerate(zip(traces, cases)):
        t["id"] = i
        t["sw"] = keys[_base_key(c)]
        t["done_kind"] = _norm_done(t["done"])
        if t["bad_records"]:
            raise Machinery(f"result-tagged log records not understood (adapt the patterns in harness/x05_mem.py): "
                            f"{t['bad_records'][:3]}")
    return traces, sweeps


def run(tier: str, seed: int) -> Report:
    setup_logging_once()  # instead of quiet_gallia_logging(): result-tagged records must be observable
    rep = Report("X05", tier, seed)
    rep.rule = ("executions = complete runs of the real MemoryFunctionsScanner (setup, main, teardown) against an "
                "in-memory scripted ECU; distinct = distinct (ECU model, option values); non-trivial = the scan "
                "reported at least one address (response or timeout) or was aborted by a failed session recovery")
    rep.assumptions = [
        "growth item, not one of the listed properties; property text in growth/X05.json; docs/uds/scan_modes.md "
        "'Memory Scan' is a TODO, the contract rests on help texts, docstrings, comments / log messages / dedicated "
        "handlers of the scanner and ISO 14229-1 (sources per clause in spec/MemoryScanContract.tla)",
        "full tcp-lines stack in memory: only asyncio.open_connection is replaced; TCPLinesTransport, ECU, UDSClient, "
        "TCPUDSServerTransport.handle_client and a UDSServer subclass are gallia code; virtual-time loop",
        "the sweep (which addresses are probed) is documented nowhere: it is MEASURED by a reference run of the same "
        "options against an ECU answering requestOutOfRange everywhere; the contract only demands that it does not "
        "depend on the ECU's answers",
        "the scanner's knowledge of the ECU session = its latest positive DiagnosticSessionControl / ECUReset / "
        "session read; a silent fall-back of the ECU cannot be noticed without check_session and is accepted",
        "result records are recognised by /address <number>/ and the word 'timeout'; records that are not understood "
        "make the check fail as machinery (exit 2), never as a verdict",
        "an ECU that crashes on a memory access (no answer, connection closed, default session afterwards) is only "
        "generated with client retries >= 1 (the option help ties reconnects to the retries)",
        "busyRepeatRequest / responsePending answers (resolved by the UDS client, C04), late answers to a timed-out "
        "probe and illegal positive responses are not generated (sources silent)",
        "no power supply (power_cycle() returns False); ECUReset answered by the model (positive, or refused -> "
        "reconnect path); database logging off; importlib.metadata.entry_points memoised (speed only)",
    ]
    with ThreadPoolExecutor(max_workers=4) as ex:
        # ---- 3a. TLC simulates design behaviours (spec -> code), first in the queue
        sfuts = _sim_start(ex, tier, seed)
        # ---- 1. design layer against the contract, negative controls, action coverage (in the background)
        futs = _mc_start(ex, tier)
        # ---- 2./3b. families of real executions + the simulated design behaviours, concretised
        cases = cs.build_cases(tier, seed)
        sims = _spec_to_code(rep, tier, sfuts)
        proj: dict[int, dict[str, Any]] = {}
        for case, p in sims:
            proj[len(cases)] = p
            cases.append(case)
        seen: set[str] = set()
        uniq: list[dict[str, Any]] = []
        uproj: dict[int, dict[str, Any]] = {}
        for i, c in enumerate(cases):
            d = _digest(c)
            if d in seen and i not in proj:
                continue
            seen.add(d)
            if i in proj:
                uproj[len(uniq)] = proj[i]
            uniq.append(c)
        traces, sweeps = _execute(uniq)
        _mc_finish(rep, futs)
    drift = 0
    for i, p in uproj.items():
        d = _drift(traces[i], p)
        if d is not None:
            drift += 1
            d["cfg"] = uniq[i]["cfg"]
            rep.drift.append(d)
    rep.extra["spec_to_code_replayed"] = len(uproj)
    rep.extra["spec_to_code_drift"] = drift
    # ---- 4. code -> spec
    verdicts, unspec = _validate(traces, sweeps, rep)
    rep.traces = rep.evaluations = len(traces)
    origins: dict[str, int] = {}
    for i, t in enumerate(traces):
        origins[t["origin"]] = origins.get(t["origin"], 0) + 1
        if any(e["k"] == "res" for e in t["ev"]) or (t["done_kind"] == "exit" and any(e["k"] == "q" and e["p"][0] == t["C"]["svc"] for e in t["ev"])):
            rep.nontrivial.add(_digest(uniq[i]))
        v = verdicts[i]
        if v.startswith("M0/"):
            raise Machinery(f"fake ECU inconsistent with its own model in case {i} ({t['origin']}): "
                            f"{json.dumps(uniq[i]['cfg'])}")
        if v != "ok":
            rep.violate(v, _sig(t, uniq[i]), {"case": uniq[i], "done": t["done"],
                                               "reports": [e for e in t["ev"] if e["k"] == "res"][:40],
                                               "requests_at_ecu": sum(1 for e in t["ev"] if e["k"] == "q")})
    rep.extra["origins"] = origins
    rep.extra["reference_sweeps"] = {"runs": len(sweeps), "sizes": sorted({len(s) for s in sweeps})}
    rep.extra["unspecified"] = {
        "runs with an empty 0x3D data record (layout of the probe not demanded)": sum(
            1 for t in traces if t["C"]["svc"] == 0x3D and not t["C"]["data"]),
        "runs ended by an exception in a situation the sources are silent about (silent / refused control request, "
        "session read answered with another NRC)": sum(1 for i, t in enumerate(traces)
                                                       if t["done_kind"] == "exc" and verdicts[i] == "ok"),
        "events counted as unspecified by the contract": sum(unspec.values()),
    }
    rep.extra["scan_exit"] = {k: sum(1 for t in traces if t["done"] == k) for k in sorted({t["done"] for t in traces})}
    for i in (0, len(traces) // 3, 2 * len(traces) // 3, len(traces) - 1):
        t = traces[i]
        rep.sample({"cfg": uniq[i]["cfg"], "ecu": {k: uniq[i]["ecu"][k] for k in ("mem", "drop", "sess_read", "dsc_budget")},
                    "requests_at_ecu": sum(1 for e in t["ev"] if e["k"] == "q"),
                    "reports": [[bytes(e["a"]).hex(), e["w"]] for e in t["ev"] if e["k"] == "res"][:10],
                    "done": t["done"], "verdict": verdicts[i]})
    rep.exhaustive = tier == "thorough"
    rep.extra["design_layer_not_vacuous"] = ("every action of MemoryScan is taken in MC_MemoryScan_cov (TLC -coverage, "
                                             "counts in design_action_coverage)")
    rep.extra["exhaustive_spaces"] = (
        "thorough: all 5^5 = 3125 abstract models (5 answer classes on the 5 marker addresses 0x00, 0x02, 0xFF, 0x0100, "
        "0xFF00000000) and the full cross product drop position x check_session n x session read mode x session-change "
        "budget x ECUReset accepted/refused (1680 cases) of harness/x05_cases.py; quick: every 50th / 31st of them; "
        "everything else (random models) seeded samples")
    # ---- 5. binding self-tests (they need accepted traces: on a tree that breaks the property everywhere the
    #         violations are reported and the self-test is skipped rather than turned into a machinery failure)
    try:
        _selftest(rep, traces, uniq, sweeps, verdicts)
    except NoAcceptedTrace as e:
        if not rep.violations:
            raise Machinery(str(e)) from e
        rep.extra["binding_selftest"] = f"skipped: {e}"
    return rep


class NoAcceptedTrace(Exception):
    pass


def _selftest(rep: Report, traces: list[dict[str, Any]], cases: list[dict[str, Any]], sweeps: list[list[list[int]]],
              verdicts: dict[int, str]) -> None:
    def clone(t: dict[str, Any]) -> dict[str, Any]:
        return json.loads(json.dumps(t))

    def probes(t: dict[str, Any]) -> list[int]:
        return [j for j, e in enumerate(t["ev"]) if e["k"] == "q" and e["p"][0] == t["C"]["svc"]]

    def pick(pred: Any) -> dict[str, Any]:
        for i, t in enumerate(traces):
            if verdicts[i] == "ok" and t["done_kind"] == "ok" and pred(t, cases[i]):
                return t
        raise NoAcceptedTrace("no accepted trace to run a binding self-test on")

    plain = pick(lambda t, c: not c["ecu"]["drop"] and t["C"]["check"] == 0
                 and any(e["k"] == "res" and e["w"] == "resp" for e in t["ev"])
                 and any(e["k"] == "res" and e["w"] == "timeout" for e in t["ev"]))
    dfi = pick(lambda t, c: t["C"]["svc"] in (0x34, 0x35) and len(probes(t)) > 10)
    wr = pick(lambda t, c: t["C"]["svc"] == 0x3D and len(t["C"]["data"]) >= 2 and len(probes(t)) > 10)
    chk = pick(lambda t, c: 2 <= t["C"]["check"] <= 100 and c["ecu"]["sess_read"] == "ok" and len(probes(t)) > 300)
    muts: list[tuple[str, dict[str, Any], str]] = []
    a = clone(plain)
    j = next(j for j, e in enumerate(a["ev"]) if e["k"] == "res" and e["w"] == "resp")
    adr = a["ev"][j]["a"]
    a["ev"] = [e for e in a["ev"] if not (e["k"] == "res" and e["a"] == adr)]
    muts.append(("result records of one answered address removed", a, "M3/answered"))
    b = clone(plain)
    j = next(j for j, e in enumerate(b["ev"]) if e["k"] == "res" and e["w"] == "resp")
    b["ev"][j]["a"] = [0x12, 0x34, 0x56]
    muts.append(("result names another address", b, "M4/result"))
    c = clone(plain)
    j = next(j for j, e in enumerate(c["ev"]) if e["k"] == "res" and e["w"] == "resp")
    c["ev"][j]["w"] = "timeout"
    muts.append(("answer reported as timeout", c, "M4/timeout"))
    d = clone(plain)
    j = next(j for j, e in enumerate(d["ev"]) if e["k"] == "res" and e["w"] == "timeout")
    adr = d["ev"][j]["a"]
    d["ev"] = [e for e in d["ev"] if not (e["k"] == "res" and e["a"] == adr and e["w"] == "timeout")]
    muts.append(("timeout record removed", d, "M3/silent"))
    e_ = clone(plain)
    roor = next(j for j in probes(e_)[20:] if e_["ev"][j]["r"] == 0x31)
    pdu = e_["ev"][roor]["p"]
    e_["ev"] = [x for x in e_["ev"] if not (x["k"] == "q" and x["p"] == pdu)]
    muts.append(("probes of one address deleted", e_, "M5/sweep-incomplete"))
    f = clone(plain)
    j = next(j for j, x in enumerate(f["ev"]) if x["k"] == "q" and x["p"][0] == 0x10 and x["r"] == 0)
    f["ev"][j]["r"], f["ev"][j]["v"] = 0x22, 0
    muts.append(("session change refused but probing goes on", f, "M2/"))
    g = clone(plain)
    g["done_kind"] = "exc"
    muts.append(("run ended by an exception", g, "M5/scan-ended"))
    h = clone(plain)
    h["done_kind"] = "hang"
    muts.append(("run hangs", h, "M8/"))
    i_ = clone(plain)
    last = probes(i_)[-1]
    i_["ev"] = i_["ev"][:last + 1] + [x for x in i_["ev"][last + 1:] if x["k"] != "q" or x["p"][0] not in (0x10, 0x11)]
    muts.append(("session not left", i_, "M7/"))
    k_ = clone(dfi)
    k_["ev"][probes(k_)[7]]["p"][1] = 0x01
    muts.append(("dataFormatIdentifier 01", k_, "M1/data-format"))
    l_ = clone(wr)
    l_["ev"][probes(l_)[7]]["p"][-1] ^= 0xFF
    muts.append(("data record byte flipped", l_, "M1/data-record"))
    m_ = clone(plain)
    jj = next(j for j in probes(m_) if m_["ev"][j]["p"][1 if m_["C"]["svc"] not in (0x34, 0x35) else 2] & 0x0F == 2)
    p = m_["ev"][jj]["p"]
    off = 1 if m_["C"]["svc"] not in (0x34, 0x35) else 2
    m_["ev"][jj]["p"] = p[:off] + [p[off] + 1, 0] + p[off + 1:]
    muts.append(("address field widened by a zero byte", m_, "M1/field-width"))
    n_ = clone(chk)
    n_["ev"] = [x for x in n_["ev"] if not (x["k"] == "q" and x["p"] == [0x22, 0xF1, 0x86])]
    muts.append(("session reads removed", n_, "M6/more-than-n"))
    # a mutant of the harness's own fake: TLC must notice that the fake left its model (M0)
    mc = next((c for i, c in enumerate(cases) if verdicts[i] == "ok" and traces[i]["done_kind"] == "ok"
               and c["origin"] == "abstract"), None)
    if mc is None:
        raise NoAcceptedTrace("no accepted abstract-model trace to run the fake mutant on")
    mt = run_case(mc, mutant="fake-answers-positive-outside-model")
    mt["done_kind"] = _norm_done(mt["done"])
    mt["sw"] = traces[cases.index(mc)]["sw"]
    muts.append(("fake ECU answers positively outside its model", mt, "M0/"))
    for n, (_, t, _) in enumerate(muts):
        t["id"] = n
    v, _u = _validate([t for _, t, _ in muts], sweeps, None)
    got = {name: v[n] for n, (name, _, _) in enumerate(muts)}
    wrong = [name for n, (name, _, want) in enumerate(muts) if not v[n].startswith(want)]
    if wrong:
        raise Machinery(f"binding self-test: corrupted traces / fake mutants not rejected as expected: {wrong}: {got}")
    rep.extra["binding_selftest"] = got


def replay(path: str) -> int:
    setup_logging_once()
    data = json.loads(open(path).read())
    bad = 0
    cases = []
    for n, v in enumerate(data["violations"]):
        case = v["detail"].get("case")
        if case is None:
            print(f"replay: violation {n} ({v['clause']}) is a design-layer counterexample: re-run ./check X05")
            bad += 1
            continue
        cases.append(case)
    if cases:
        traces, sweeps = _execute(cases)
        verdicts, _ = _validate(traces, sweeps, None)
        for t in traces:
            print(f"replay origin={t['origin']} done={t['done']} verdict={verdicts[t['id']]}")
            bad += verdicts[t["id"]] != "ok"
    if bad:
        print(f"VIOLATION property=X05 replay={path}")
        return 1
    return 0
