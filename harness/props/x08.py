"""X08 (growth, not a listed property) — the DoIP discovery scanner `discover doip` reports what the gateway shows.

spec   : spec/DoipDiscoverContract.tla (RA1..RA3 routing activation enumeration, TA1..TA6 target address sweep, T0),
         spec/DoipDiscover.tla (design layer: routing-activation machine and sweep machine with reader task, reconnect,
         answers in flight; deviations Dev_S1..S4 as negative controls), spec/MC_DoipDiscover_*.cfg,
         spec/Trace_DoipDiscover.tla (total verdict per recorded execution)
binding: the REAL DoIPDiscoverer.main() (real DoIPConnection underneath) against the model-driven gateway fake of
         harness/x08_gw.py on in-memory streams (harness.streams.patched_connections) under virtual time;
         code -> spec: every execution (gateway-side events + artifact files parsed back with the real
         TargetURI/DoIPConfig + discovery results handed to the db handler) is validated by TLC;
         spec -> code: the gateway models and behaviour assignments TLC enumerates for the design layer are
         replayed into the real scanner, disagreement with the design's outcome set = drift.
UDP    : host and port are always given by --target (the scanner then skips the UDP broadcast discovery itself);
         gather_doip_details (two informational datagrams, only logged) is stubbed.
"""

from __future__ import annotations

import itertools
import json
import random
from concurrent.futures import ThreadPoolExecutor
from typing import Any

from harness import tlc
from harness.common import Machinery, Report, quiet_gallia_logging
from harness.x08_gw import BEHAVIOURS, run_scan

TESTER = 0x0E00
BASE = {"order": "src", "rats": [0, 1], "srcs": [TESTER], "acc": [[0, TESTER]], "deny": 4}
BEH_ALL = ["unknown", "unreach", "nackff", "silent", "ackonly", "pos", "neg", "pos1500", "ack500pos", "odd", "posfar",
           "unknown_close", "pos_close", "close"]                       # = BehAll of MC_DoipDiscover
BEH_CORE = ["unknown", "unreach", "silent", "ackonly", "pos", "neg", "pos1500", "odd", "unknown_close", "pos_close",
            "close"]                                                     # = BehCore
BEH_EXTRA = [b for b in BEHAVIOURS if b not in BEH_ALL]                   # nack2 pos300 lateack unknown_reset reset
RECONNECT_BEH = {"silent", "lateack", "unknown_close", "unknown_reset", "pos_close", "close", "reset"}
ODD_BEH = {"odd"}
ODD_UNSOL = {"far-odd", "far-short"}
EV_KEEP = ("Req", "Ack", "Nack", "Ans")


def scan_of(start: int, stop: int, *, host: str = "127.0.0.1", port: int = 13400, rat: int | None = 0,
            src: int | None = TESTER, delay: float = 0.0) -> dict[str, Any]:
    return {"host": host, "port": port, "rat": rat, "src": src, "start": start, "stop": stop, "delay": delay}


def to_trace(r: dict[str, Any]) -> dict[str, Any]:
    ev = []
    for e in r["ev"]:
        if e["e"] in EV_KEEP or (e["e"] == "RA" and e["code"] == 0x10):
            ev.append({k: v for k, v in e.items() if k not in ("t", "c", "n", "probed")})
    return {"cfg": r["scan"], "acc": [list(p) for p in r["model"].get("acc", [])], "ev": ev, "rep": r["rep"],
            "errs": r["errs"], "vers": r["vers"], "done": r["done"]}


def sig_of(case: dict[str, Any], verdict: str) -> dict[str, Any]:
    """Input class of the failing case (never a judgement): which ingredients the gateway model contains."""
    m, s = case["model"], case["scan"]
    behs = set(m.get("beh", {}).values()) | ({m["default"]} if "default" in m else set())
    host = s["host"]
    def rat_class(r: int) -> str:   # ISO 13400-2 table "routing activation request activation types"
        return "iso-named" if r in (0x00, 0x01, 0xE0) else "iso-reserved" if r < 0xE0 else "oem-specific"

    sig: dict[str, Any] = {
        "phase": "routing-activation" if case["family"].startswith("ra") else
                 "uri" if verdict.startswith("TA6") else "sweep",
        "reconnect_in_play": bool(behs & RECONNECT_BEH) or bool(m.get("close_after")),
        "unexpected_answer_in_play": bool(behs & ODD_BEH) or bool(set(m.get("unsol", {}).values()) & ODD_UNSOL),
        "host": "ipv6" if ":" in host else ("ipv4" if host.replace(".", "").isdigit() else "name"),
        "accepted_activation_types": sorted({rat_class(int(p[0])) for p in m.get("acc", [])}),
    }
    return sig


class Cases:
    def __init__(self) -> None:
        self.items: list[dict[str, Any]] = []
        self.seen: set[str] = set()

    def add(self, family: str, model: dict[str, Any], scan: dict[str, Any], **kw: Any) -> dict[str, Any] | None:
        key = json.dumps([model, scan], sort_keys=True)
        if key in self.seen:
            return None
        self.seen.add(key)
        r = run_scan(model, scan)
        c = {"family": family, "model": model, "scan": scan, "res": r, **kw}
        self.items.append(c)
        return c


def beh_model(names: tuple[str, ...] | list[str], first: int = 1, **kw: Any) -> dict[str, Any]:
    return {**BASE, "beh": {str(first + i): n for i, n in enumerate(names)}, **kw}


def outcome(r: dict[str, Any]) -> tuple[tuple[int, ...], ...]:
    return tuple(tuple(sorted({x["tgt"] for x in r["rep"][k]})) for k in ("valid", "resp", "unreach")) + \
        (tuple(sorted(set(r["errs"]))),)


def validate(cases: list[dict[str, Any]], rep: Report) -> dict[int, str]:
    traces = []
    for i, c in enumerate(cases):
        t = to_trace(c["res"])
        t["id"] = i
        traces.append(t)
    CH = 2500
    chunks = [traces[o:o + CH] for o in range(0, len(traces), CH)]

    def one(sub: list[dict[str, Any]]) -> Any:
        return tlc.validate_batch("Trace_DoipDiscover", "Trace_DoipDiscover.cfg", {"traces": sub}, timeout=1800,
                                  env={"JAVA_TOOL_OPTIONS": "-Xss64m"})

    with ThreadPoolExecutor(max_workers=4) as ex:
        results = list(ex.map(one, chunks))
    verdicts: dict[int, str] = {}
    unspec = 0
    for res in results:
        rep.add_tlc(res, "Trace_DoipDiscover batch")
        for p in res.prints:
            if isinstance(p, list) and len(p) == 3 and p[0] == "V":
                verdicts[p[1]] = p[2]
            elif isinstance(p, list) and len(p) == 3 and p[0] == "U":
                unspec += int(p[2] > 0)
    missing = [i for i in range(len(traces)) if i not in verdicts]
    if missing:
        raise Machinery(f"Trace_DoipDiscover: no verdict for {len(missing)} traces (first {missing[0]}):\n"
                        f"{results[-1].out[-3000:]}")
    rep.extra["executions_with_unspecified_parts"] = unspec
    return verdicts


def single_verdict(t: dict[str, Any]) -> str:
    t = dict(t)
    t["id"] = 0
    res = tlc.validate_batch("Trace_DoipDiscover", "Trace_DoipDiscover.cfg", {"traces": [t]}, timeout=600)
    v = [p for p in res.prints if isinstance(p, list) and p and p[0] == "V"]
    if not v:
        raise Machinery(f"Trace_DoipDiscover: no verdict in self-test:\n{res.out[-2000:]}")
    return str(v[0][2])


NEG_CONTROLS = (("devS1", "Inv_TA4_FoundComplete"), ("devS2", "Inv_TA4_FoundComplete"),
                ("devS3", "Inv_TA3_ValidSound"), ("devS4", "Inv_RA2_Complete"))


def start_tlc_jobs(tier: str, pool: ThreadPoolExecutor) -> dict[str, Any]:
    """All TLC runs on the design layer are independent of each other and of the executions: run them concurrently."""
    mc = [("sweep2", True), ("ra", True), ("sweep3", False)] + ([("sweep4", False)] if tier == "thorough" else [])
    exports = ["export2", "export3small" if tier == "quick" else "export3", "exportra"]
    jobs: dict[str, Any] = {}
    for c, cov in mc:
        jobs[c] = pool.submit(tlc.run_tlc, "MC_DoipDiscover", f"MC_DoipDiscover_{c}.cfg", timeout=3000, coverage=cov,
                              workers=4)
    for c, _inv in NEG_CONTROLS:
        jobs[c] = pool.submit(tlc.run_tlc, "MC_DoipDiscover", f"MC_DoipDiscover_{c}.cfg", timeout=900, workers=1)
    for c in exports:
        jobs[c] = pool.submit(tlc.run_tlc, "MC_DoipDiscover", f"MC_DoipDiscover_{c}.cfg", timeout=1800, workers=1)
    return {"jobs": jobs, "mc": mc, "exports": exports}


def model_check(rep: Report, tj: dict[str, Any]) -> None:
    never: dict[str, bool] = {}
    for c, _cov in tj["mc"]:
        res = tj["jobs"][c].result()
        rep.add_tlc(res, f"MC_DoipDiscover_{c}")
        if not res.ok:
            rep.violate(f"design/{res.violated}", {"where": "DoipDiscover design layer", "cfg": c}, {"cex": res.cex[-12:]})
        for a, (n, _d) in res.coverage.items():
            never[a] = never.get(a, True) and n == 0
    nv = sorted(a for a, z in never.items() if z)
    rep.extra["design_actions_never_taken"] = nv
    if nv or not never:
        raise Machinery(f"DoipDiscover: coverage missing or actions never taken: {nv}")
    for c, inv in NEG_CONTROLS:
        res = tj["jobs"][c].result()
        rep.add_tlc(res, f"MC_DoipDiscover_{c} (negative control)")
        if res.violated != inv:
            raise Machinery(f"negative control {c} did not violate {inv} (got {res.violated})")


def pyset(v: Any) -> list[Any]:
    return list(v["$set"]) if isinstance(v, dict) and "$set" in v else list(v)


def spec_to_code(rep: Report, cases: Cases, tier: str, rnd: random.Random, tj: dict[str, Any]) -> None:
    """Behaviour assignments / gateway models enumerated by TLC for the design layer, replayed into the real scanner."""
    # ---- sweep machine
    want: dict[tuple[str, ...], set[Any]] = {}
    for cfg in tj["exports"][:2]:
        res = tj["jobs"][cfg].result()
        rep.add_tlc(res, f"MC_DoipDiscover_{cfg} (case export)")
        for p in res.prints:
            if isinstance(p, list) and len(p) == 6 and p[0] == "C":
                beh = tuple(p[1]) if isinstance(p[1], list) else tuple(v for _k, v in sorted(p[1]["$fn"]))
                want.setdefault(beh, set()).add(tuple(tuple(sorted(pyset(x))) for x in p[2:6]))
    nrep = ndrift = 0
    for beh in sorted(want):
        c = cases.add("sweep-tlc", beh_model(beh), scan_of(1, len(beh)))
        if c is None:
            continue
        nrep += 1
        got = outcome(c["res"])
        if c["res"]["done"] != "ok" or got not in want[beh]:
            ndrift += 1
            rep.drift.append({"machine": "sweep", "beh": list(beh), "design": sorted(want[beh])[:3],
                              "code": [c["res"]["done"], got]})
    rep.extra["spec_to_code_sweep_replayed"] = nrep
    rep.extra["spec_to_code_sweep_drift"] = ndrift
    # ---- routing activation machine
    res = tj["jobs"]["exportra"].result()
    rep.add_tlc(res, "MC_DoipDiscover_exportra (case export)")
    smap = {5: TESTER, 6: 0x0E80, -1: None}
    ra_cases = []
    for p in res.prints:
        if isinstance(p, list) and len(p) == 5 and p[0] == "R":
            ra_cases.append((p[1], p[2], sorted(tuple(x) for x in pyset(p[3])), p[4]))
    both = [x for x in ra_cases if x[1]["src"] >= 0 and x[1]["rat"] >= 0]
    enum_rat = [x for x in ra_cases if x[1]["src"] >= 0 and x[1]["rat"] < 0]
    enum_src = [x for x in ra_cases if x[1]["src"] < 0 and x[1]["rat"] >= 0 and x[3] == "sweep"]
    rnd.shuffle(enum_rat)
    rnd.shuffle(enum_src)
    rnd.shuffle(both)
    pick = both[: 150 if tier == "quick" else len(both)] + enum_rat[: 30 if tier == "quick" else len(enum_rat)] + \
        (enum_src[:2] if tier == "thorough" else [])
    nrep = ndrift = 0
    for g, given, reported, stage in pick:
        model = {"order": g["order"], "rats": sorted(pyset(g["rats"])), "srcs": sorted(smap[s] for s in pyset(g["srcs"])),
                 "acc": sorted([r, smap[s]] for r, s in pyset(g["accp"])), "deny": 4, "beh": {"1": "pos"}}
        c = cases.add("ra-tlc", model, scan_of(1, 1, rat=None if given["rat"] < 0 else given["rat"], src=smap[given["src"]]))
        if c is None:
            continue
        nrep += 1
        got = sorted({(x["rat"], x["src"]) for x in c["res"]["rep"]["ra"]})
        wantp = sorted((r, smap[s]) for r, s in reported)
        wdone = "ok" if stage == "sweep" else "stopped"
        if got != wantp or c["res"]["done"] != wdone:
            ndrift += 1
            rep.drift.append({"machine": "ra", "gw": model, "given": given, "design": [wantp, wdone],
                              "code": [got, c["res"]["done"]]})
    rep.extra["spec_to_code_ra_replayed"] = nrep
    rep.extra["spec_to_code_ra_drift"] = ndrift


def enumerate_families(cases: Cases, tier: str, rnd: random.Random) -> None:
    # ---- exhaustive: every assignment of the extra behaviours (not in the design's alphabet) mixed with the core ones
    pool = ["pos", "unknown", "silent"] + BEH_EXTRA
    for beh in itertools.product(pool, repeat=3 if tier == "thorough" else 2):
        if set(beh) & set(BEH_EXTRA):
            cases.add("sweep-extra", beh_model(beh), scan_of(1, len(beh)))
    # ---- the gateway closes every connection after its k-th request
    kpool = ["pos", "neg", "unknown", "unreach", "ackonly", "pos1500"] if tier == "thorough" else ["pos", "unknown", "ackonly", "pos1500"]
    for k in (1, 2, 3):
        for beh in itertools.product(kpool, repeat=4 if tier == "thorough" else 3):
            cases.add("sweep-close-after-k", beh_model(beh, close_after=k), scan_of(1, len(beh)))
    # ---- alive check requests and unsolicited frames at every position of canonical sweeps
    canon = [("pos", "neg", "pos"), ("pos", "unknown", "pos1500"), ("unreach", "pos", "ackonly"), ("pos", "silent", "neg")]
    unsol = ["far-pos", "far-odd", "far-short", "other-dst", "unknown-type", "stray-ack"]
    for beh in canon:
        for n in (1, 2, 3):
            cases.add("sweep-alive", beh_model(beh, alive=[n]), scan_of(1, 3))
            for u in unsol:
                cases.add("sweep-unsolicited", beh_model(beh, unsol={str(n): u}), scan_of(1, 3))
        cases.add("sweep-alive", beh_model(beh, alive=[1, 2, 3]), scan_of(1, 3))
    # ---- address ranges, tester addresses, activation types, hosts, ports, connect delay: the URIs must denote them
    hosts = ["127.0.0.1", "192.168.10.20", "gateway.local", "GW-7", "::1", "fe80::1ff:fe23:4567:890a", "2001:db8::2"]
    ranges = [(0, 2), (0x1D, 0x1F), (0xFFFD, 0xFFFF), (0x0E00, 0x0E01), (0x100, 0x100), (5, 4)]
    for host in hosts:
        for (a, b) in ranges[:3] if tier == "quick" else ranges:
            beh = {str(a): "pos", str(a + 1): "unreach", str(b): "neg"}
            cases.add("uri", {**BASE, "beh": beh}, scan_of(a, b, host=host))
    for (a, b) in ranges:
        for src, rat, port in ((0x0E00, 0, 13400), (0x0EF1, 0xE0, 1), (0xFFFF, 0xFF, 65535), (0x0001, 0x01, 13401)):
            m = {"order": "rat", "rats": [rat], "srcs": [src], "acc": [[rat, src]], "deny": 4,
                 "beh": {str(a): "pos", str(a + 1): "unreach", str(b): "neg"}}
            cases.add("uri", m, scan_of(a, b, src=src, rat=rat, port=port, delay=0.25))
    # ---- routing activation enumeration through main(): activation types enumerated over 0..255
    rat_pool = [0x00, 0x01, 0xE0, 0xE5] if tier == "thorough" else [0x00, 0x01, 0xE5]   # 0xE5: OEM specific
    for order in ("src", "rat"):
        for k in range(len(rat_pool) + 1):
            for rats in itertools.combinations(rat_pool, k):
                for na in range(len(rats) + 1):
                    for accr in itertools.combinations(rats, na):
                        for deny, ra_close in ((4, False), (0x11, True)):
                            m = {"order": order, "rats": list(rats), "srcs": [TESTER, 0x0E80],
                                 "acc": [[r, TESTER] for r in accr], "deny": deny, "ra_close": ra_close,
                                 "beh": {"16": "pos", "17": "neg"}}
                            cases.add("ra-enum-rat", m, scan_of(16, 17, rat=None))
    # ---- both given: single tuple accepted / denied with every ISO response code class
    for deny in (0x01, 0x02, 0x03, 0x04, 0x05, 0x07, 0x11, 0xE5, 0xFF):
        m = {"order": "src", "rats": [0], "srcs": [TESTER], "acc": [], "deny": deny, "beh": {"1": "pos"}}
        cases.add("ra-both-given", m, scan_of(1, 1))
    if tier == "thorough":   # source addresses enumerated over 0..65535 (one connection each)
        for order, acc in (("src", [[0, 0x0E80]]), ("rat", [[1, 0x0E00], [1, 0x0EFF]])):
            m = {"order": order, "rats": [0, 1], "srcs": [0x0E00, 0x0E80, 0x0EFF], "acc": acc, "deny": 4,
                 "beh": {"1": "pos"}}
            cases.add("ra-enum-src", m, scan_of(1, 1, src=None, rat=acc[0][0]))


def unspecified_probe(rep: Report) -> None:
    """Gateways that do not answer a routing activation request they deny: the sources are silent on what the scanner
    has to do, so the outcome is only recorded."""
    out = {}
    for mode in ("silent", "close"):
        m = {"order": "src", "rats": [0, 1], "srcs": [TESTER], "acc": [[1, TESTER]], "deny": 4, "ra_deny_mode": mode,
             "beh": {"1": "pos"}}
        r = run_scan(m, scan_of(1, 1, rat=None))
        out[mode] = [r["done"], r["exc"][:80]]
    rep.extra["unspecified_gateway_without_denial_response"] = out


def self_test(rep: Report, cases: list[dict[str, Any]], verdicts: dict[int, str]) -> None:
    def plain(c: dict[str, Any]) -> bool:
        m = c["model"]
        behs = list(m.get("beh", {}).values())
        return (c["family"].startswith("sweep") and "pos" in behs and set(behs) <= {"pos", "neg", "unknown", "unreach"}
                and not m.get("unsol") and not m.get("close_after") and behs[0] == "pos")

    good = next((c for i, c in enumerate(cases) if verdicts[i] == "ok" and plain(c)), None)
    if good is None:
        if rep.violations:      # nothing accepted to corrupt: the violations themselves are the result of this run
            rep.extra["self_test"] = "skipped: no accepted plain sweep execution (violations reported)"
            return
        raise Machinery("binding self-test: no accepted plain sweep execution")
    base = to_trace(good["res"])
    probes = []
    t = json.loads(json.dumps(base))
    t["rep"]["resp"] = t["rep"]["resp"][1:]
    probes.append(("found address dropped", t, "TA4/answering-address-not-found"))
    t = json.loads(json.dumps(base))
    ghost = dict(t["rep"]["valid"][0])
    ghost["tgt"] = 0x7FFF
    t["rep"]["valid"].append(ghost)
    probes.append(("valid address invented", t, "TA3/valid-without-positive-ack"))
    t = json.loads(json.dumps(base))
    t["rep"]["resp"][0]["port"] += 1
    probes.append(("uri port corrupted", t, "TA6/emitted-uri-does-not-denote-the-endpoint"))
    t = json.loads(json.dumps(base))
    t["ev"] = [e for e in t["ev"] if not (e["e"] == "Req" and e["dst"] == t["cfg"]["start"])]
    probes.append(("request to first address removed", t, "TA1/address-neither-probed-nor-reported-as-error"))
    for what, tr, want in probes:
        got = single_verdict(tr)
        if got != want:
            raise Machinery(f"binding self-test: {what}: TLC says {got!r}, expected {want!r}")
    # a mutant of the gateway fake: it logs a refusal but acknowledges on the wire
    r = run_scan(beh_model(("unknown", "pos", "unknown")), scan_of(1, 3), mutant="gw-acks-everything")
    r["ev"] = [e for e in r["ev"] if e["e"] != "Ack" or e["a"] == 2]
    got = single_verdict(to_trace(r))
    if got != "TA3/valid-without-positive-ack":
        raise Machinery(f"binding self-test: lying gateway fake not rejected (TLC says {got!r})")
    rep.extra["self_test"] = [p[0] for p in probes] + ["gateway fake that acknowledges what it logs as refused"]


def run(tier: str, seed: int) -> Report:
    quiet_gallia_logging()
    rep = Report("X08", tier, seed)
    rep.rule = ("executions = the real DoIPDiscoverer.main() against a model-driven DoIP gateway on in-memory streams under "
                "virtual time. Sweep: every assignment of a gateway behaviour (ack / nack codes / silence / delayed ack / "
                "positive, negative, delayed, foreign or malformed answer / FIN or RST afterwards) to 2-3 (thorough: 4) "
                "swept addresses as enumerated by TLC for the design layer, plus close-after-k-requests gateways, alive "
                "checks and six kinds of unsolicited frames at every position. Routing activation: all gateway models over "
                "a pool of activation types x check order x accepted subsets with the activation type enumerated over "
                "0..255 (thorough: also source addresses over 0..65535), all TLC-enumerated models with both given. "
                "URIs: IPv4 / name / IPv6 hosts, ports, address ranges at both ends of 16 bit. distinct = distinct "
                "(gateway model, scan configuration); non-trivial = the gateway does something else than refusing every "
                "address as unknown")
    rep.assumptions = [
        "UDP: host/port given by --target (broadcast discovery skipped by the scanner), gather_doip_details stubbed",
        "asyncio.open_connection replaced by in-memory connections; writer.get_extra_info('socket') is a dummy that accepts SO_LINGER",
        "virtual time; a frame counts as delivered when it is fed while the client side is open",
        "gateways answer every routing activation request (silent denials are recorded as unspecified, not judged)",
        "activation type 0x02 is never supported and source address 0x0000 never known (main(): 'reserved RAT and reserved SrcAddr')",
        "db handler replaced by a recorder (insert_discovery_result calls = results reported to the database)",
    ]
    rnd = random.Random(seed)
    cases = Cases()
    with ThreadPoolExecutor(max_workers=6) as pool:
        tj = start_tlc_jobs(tier, pool)
        enumerate_families(cases, tier, rnd)
        unspecified_probe(rep)
        spec_to_code(rep, cases, tier, rnd, tj)
        model_check(rep, tj)
    items = cases.items
    verdicts = validate(items, rep)
    rep.traces = rep.evaluations = len(items)
    fam: dict[str, int] = {}
    for i, c in enumerate(items):
        fam[c["family"]] = fam.get(c["family"], 0) + 1
        m = c["model"]
        if any(b != "unknown" for b in m.get("beh", {}).values()) or m.get("unsol") or m.get("alive") or \
                c["family"].startswith("ra"):
            rep.nontrivial.add(i)
        v = verdicts[i]
        if v != "ok":
            r = c["res"]
            rep.violate(v, sig_of(c, v), {"model": m, "scan": c["scan"], "done": r["done"], "exc": r["exc"],
                                          "reported": {k: [x["tgt"] for x in r["rep"][k]] for k in ("valid", "resp", "db", "unreach")},
                                          "errs": r["errs"], "raw_lines": {k: v2[:4] for k, v2 in r["raw"].items()},
                                          "gateway_events": [e for e in r["ev"] if e["e"] != "RA" or e["code"] == 0x10][:40]})
    rep.extra["families"] = fam
    for c in items[5:7] + items[-2:]:
        r = c["res"]
        rep.sample({"family": c["family"], "beh": c["model"].get("beh"), "done": r["done"],
                    "valid": [x["tgt"] for x in r["rep"]["valid"]], "found": [x["tgt"] for x in r["rep"]["resp"]],
                    "errs": r["errs"], "lines": r["raw"]["resp"][:2]})
    self_test(rep, items, verdicts)
    rep.exhaustive = True
    rep.extra["exhaustive_over"] = ("all behaviour assignments of the design alphabet to 2 and 3 swept addresses; all "
                                    "routing-activation gateway models over the stated pools")
    return rep


def replay(path: str) -> int:
    """Executions are deterministic functions of (tier, seed): re-run and report whether the recorded violation
    signatures still occur on the current tree."""
    data = json.loads(open(path).read())
    rep = run(data.get("tier", "quick"), int(data.get("seed", 0)))
    want = {(v["clause"], json.dumps(v["sig"], sort_keys=True)) for v in data.get("violations", [])}
    got = {(v.clause, json.dumps(v.sig, sort_keys=True)) for v in rep.violations}
    still = want & got
    print(f"replay: {len(still)} of {len(want)} recorded violation signatures reproduce on the current tree")
    if still:
        print(f"VIOLATION property={rep.property_id} replay={path}")
        return 1
    return 0
