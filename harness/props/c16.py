"""C16 — a virtual ECU is fully determined by its seed and arguments.

spec   : spec/VEcuModelContract.tla  (a) W0..W4 well-formedness of the offered model,
                                     (b) M0/M1/D1/D2 Mealy determinism with the seed exception E1/E2
         spec/VEcuModel.tla          design of the generator RandomUDSServer.randomize() over all coin flips
MC     : MC_VEcuModel_{c4,c3,c3forced[,c4mand,c4none]}.cfg exhaustive; dev* are negative controls;
         x3/x3mand/x4 export every final transition graph of the design (spec -> code)
binding: code->spec: SEPARATE interpreter processes (different PYTHONHASHSEED, import order, start time,
         construction path, global-random state) build the ECU for seed x arguments, dump the model and the
         transcript of a request history; TLC (Trace_VEcuModel) decides W*, M*, D* for every case.
         crowded processes: the judged ECU shares its interpreter with OTHER RandomUDSServer objects (other seeds /
         arguments, a twin) that are built, set up and used before / between / after its construction, setup() and
         requests (c16_lib.CROWD_PLANS); run 1 of such a case is the twin that lived alone in its interpreter.
         vendor processes: the codec registry of the interpreter is not the stock one - modules of a synthetic
         vendor package register UDSService subclasses for ISO services gallia has no class for, BEFORE / AFTER
         gallia.services.uds.server (and gallia.commands, gallia.services.uds) is imported, right before the server
         object is constructed, between construction and setup(), after setup() (c16_lib.VENDOR_GROUPS); equality is
         demanded among the twins of a group only (same modules, registered in the same phase of the ECU's life).
         spec->code: every coin-flip outcome of the REAL generator is enumerated with a scripted RNG; the set
         of graphs must equal the set TLC derives from the design (difference = drift), and every graph is
         validated against (a) by TLC.
"""

from __future__ import annotations

import copy
import json
import logging
from concurrent.futures import ThreadPoolExecutor
from typing import Any

from harness import c16_lib as L
from harness import tlc
from harness.common import Machinery, Report, quiet_gallia_logging

MC_OK = ["c4", "c3", "c3forced"]
MC_OK_THOROUGH = ["c4mand", "c4none"]
MC_NEG = {"devNoBackEdge": {"Inv_W4"}, "devNoAttach": {"Inv_W1"}, "devAttachNoEdge": {"Inv_W3"},
          "devDscNotForced": {"Inv_W3", "Inv_W4"}}
EXPORTS = {"x3": ([1], [2, 3]), "x3mand": ([1, 3], [2]), "x4": ([1, 4], [2, 3])}
ACTIONS = ["LevelBegin", "LoopExit", "Flip", "AddDefault", "Attach", "AttachEnd", "Services"]


# --------------------------------------------------------------------------
# synthetic contract cases: the exception E1/E2 is exactly as wide as stated

def _st(q: str, r: str | None, k: str = "lit", o: str | None = None) -> dict[str, Any]:
    return {"q": list(bytes.fromhex(q)), "k": k, "o": o or ("n" if r is None else "r"),
            "r": list(bytes.fromhex(r or ""))}


_NEW = {"q": [], "k": "new", "o": "r", "r": [1, 2, 3]}
_M = [{"s": 1, "svcs": [{"id": 16, "hasSf": True, "sf": [1]}]}]


def synthetic_cases(base: int) -> list[tuple[dict[str, Any], str, str]]:
    """(case, expected verdict of part a, expected verdict of part b)"""
    def case(i: int, a: list[dict], b: list[dict], m2: list[dict] | None = None, mand_v: list[int] | None = None,
             m1: list[dict] | None = None) -> dict[str, Any]:
        return L.tlc_case(base + i, [1], mand_v if mand_v is not None else [16],
                          [{"setup": "ok", "m": m1 or _M, "tr": [_NEW] + a},
                           {"setup": "ok", "m": m2 or m1 or _M, "tr": [_NEW] + b}])

    rd = _st("22f190", "62f19041")
    out = [
        (case(0, [rd, _st("3e80", None)], [rd, _st("3e80", None)]), "ok", "ok"),
        # E1: seeds differ in content and length
        (case(1, [_st("2701", "6701aabb"), rd], [_st("2701", "6701"), rd]), "ok", "ok"),
        (case(2, [_st("2701", "6701aabb")], [_st("2701", "6703aabb")]), "ok", "D2/seed-reply-differs-outside-the-seed"),
        (case(3, [_st("2701", "6701aabb")], [_st("2701", "7f2712")]), "ok", "D2/seed-reply-differs-outside-the-seed"),
        # E2: literal key hits the seed of run A only -> unspecified, taint ends at the next fresh ECU
        (case(4, [_st("2701", "670111"), _st("270211", "6702"), _st("22f190", "62f19041")],
                 [_st("2701", "670122"), _st("270211", "7f2735"), _st("22f190", "7f2233")]), "ok", "ok"),
        (case(5, [_st("2701", "670111"), _st("270211", "6702"), _NEW, _st("22f190", "62f19041")],
                 [_st("2701", "670122"), _st("270211", "7f2735"), _NEW, _st("22f190", "7f2233")]), "ok", "D1/answer-differs"),
        # key hits the seed in neither run: must agree
        (case(6, [_st("2701", "670133"), _st("270211", "7f2735")],
                 [_st("2701", "670122"), _st("270211", "6702")]), "ok", "D1/answer-differs"),
        # no seed ever issued: sendKey must agree
        (case(7, [_st("270211", "7f2724")], [_st("270211", "7f2735")]), "ok", "D1/answer-differs"),
        # a seed may exist unseen (suppressed requestSeed): unspecified
        (case(8, [_st("2781", None), _st("270211", "6702")], [_st("2781", None), _st("270211", "7f2735")]), "ok", "ok"),
        # derived keys: different request bytes, answers may differ
        (case(9, [_st("2701", "6701"), _st("2702", "7f2713", "key")],
                 [_st("2701", "6701ab"), _st("2702ab", "6702", "key")]), "ok", "ok"),
        # ordinary answers: one byte / silence / exception
        (case(10, [rd], [_st("22f190", "62f19042")]), "ok", "D1/answer-differs"),
        (case(11, [rd], [_st("22f190", None)]), "ok", "D1/answer-differs"),
        (case(12, [rd], [_st("22f190", None, o="x")]), "ok", "D1/answer-differs"),
        (case(13, [_st("2701", "6701aa"), rd], [_st("2701", "6701bb"), _st("22f190", "62f19040")]), "ok", "D1/answer-differs"),
        # models
        (case(14, [rd], [rd], m2=[{"s": 1, "svcs": [{"id": 16, "hasSf": True, "sf": [1]}, {"id": 34, "hasSf": False, "sf": []}]}]),
         "ok", "M1/model-differs"),
        (case(15, [rd], [rd], mand_v=[16, 34]), "W2/mandatory-services-present", "ok"),
        (case(16, [], [], m1=[{"s": 1, "svcs": [{"id": 16, "hasSf": True, "sf": [1, 2]}]},
                              {"s": 2, "svcs": [{"id": 16, "hasSf": True, "sf": [2]}]}]),
         "W4/session-can-return-to-default", "ok"),
        (case(17, [], [], m1=[{"s": 1, "svcs": [{"id": 16, "hasSf": True, "sf": [1]}]},
                              {"s": 2, "svcs": [{"id": 16, "hasSf": True, "sf": [1]}]}]),
         "W3/session-reachable-from-default", "ok"),
        # return by ECUReset counts as a way back; order of a dump is not part of the model
        (case(18, [], [], m1=[{"s": 1, "svcs": [{"id": 16, "hasSf": True, "sf": [2, 1]}]},
                              {"s": 2, "svcs": [{"id": 17, "hasSf": True, "sf": [1]}, {"id": 16, "hasSf": True, "sf": [2]}]}],
              m2=[{"s": 2, "svcs": [{"id": 16, "hasSf": True, "sf": [2]}, {"id": 17, "hasSf": True, "sf": [1]}]},
                  {"s": 1, "svcs": [{"id": 16, "hasSf": True, "sf": [1, 2]}]}]),
         "ok", "ok"),
    ]
    c = case(19, [], [])
    c["mandS"] = [1, 3]
    out.append((c, "W1/mandatory-sessions-present", "ok"))
    return out


# --------------------------------------------------------------------------

def _model_check(rep: Report, tier: str) -> None:
    oks = MC_OK + (MC_OK_THOROUGH if tier == "thorough" else [])

    def one(c: str) -> tuple[str, Any]:
        return c, tlc.run_tlc("MC_VEcuModel", f"MC_VEcuModel_{c}.cfg", timeout=1500, workers=4,
                              coverage=(c in ("c3", "c3forced")))

    with ThreadPoolExecutor(max_workers=4) as ex:
        results = list(ex.map(one, oks + list(MC_NEG)))
    taken: dict[str, int] = {a: 0 for a in ACTIONS}
    for c, res in results:
        if c in MC_NEG:
            rep.add_tlc(res, f"MC_VEcuModel_{c} (negative control)")
            if res.violated not in MC_NEG[c]:
                raise Machinery(f"negative control {c} did not violate {sorted(MC_NEG[c])} (got {res.violated}): "
                                "the well-formedness contract is vacuous")
            continue
        rep.add_tlc(res, f"MC_VEcuModel_{c}")
        for a, (n, _d) in res.coverage.items():
            if a in taken:
                taken[a] += n
        if not res.ok:
            rep.violate(f"design/{res.violated}", {"part": "design", "cfg": c},
                        {"cex": res.cex[-6:], "out": res.out[-1500:]})
    never = [a for a, n in taken.items() if n == 0]
    if never:
        raise Machinery(f"design actions never taken in the coverage runs: {never}")
    rep.extra["design_action_coverage"] = taken
    rep.extra["deviation_constants"] = {"Dev_DscNotForced": "TRUE in every config: the generator as found offers "
                                        "DiagnosticSessionControl only if mandatory/coin; with DscMandatory=FALSE "
                                        "(cfg devDscNotForced) TLC finds the W3 counterexample"}


def _generator_graphs(rep: Report, tier: str, next_id: int) -> tuple[list[dict[str, Any]], dict[int, dict[str, Any]]]:
    """spec <-> code on the generator: exhaustive on both sides."""
    names = ["x3", "x3mand"] + (["x4"] if tier == "thorough" else [])

    def one(c: str) -> tuple[str, Any]:
        return c, tlc.run_tlc("MC_VEcuModel", f"MC_VEcuModel_{c}.cfg", timeout=1500, workers=1)

    with ThreadPoolExecutor(max_workers=3) as ex:
        fut = ex.map(one, names)
        code: dict[str, dict[tuple, dict[str, Any]]] = {}
        runs: dict[str, int] = {}
        for c in names:
            mand, opt = EXPORTS[c]
            code[c] = L.enumerate_generator(mand, opt)
            runs[c] = L.enumerate_generator.runs  # type: ignore[attr-defined]
        tl = dict(fut)
    tcases: list[dict[str, Any]] = []
    info: dict[int, dict[str, Any]] = {}
    summary = {}
    for c in names:
        mand, opt = EXPORTS[c]
        uni = sorted(set(mand + opt + [1]))
        res = tl[c]
        rep.add_tlc(res, f"MC_VEcuModel_{c} (export of final graphs)")
        if not res.ok:
            rep.violate(f"design/{res.violated}", {"part": "design", "cfg": c}, {"cex": res.cex[-6:]})
        spec_graphs = {L.graph_key_of_tlc(p[1], uni) for p in res.prints
                       if isinstance(p, list) and len(p) == 2 and p[0] == "G"}
        if not spec_graphs:
            raise Machinery(f"TLC exported no final graph for {c}")
        only_code = sorted(set(code[c]) - spec_graphs)
        only_spec = sorted(spec_graphs - set(code[c]))
        for g in only_code[:5]:
            rep.drift.append({"where": "generator", "cfg": c, "graph_only_in_code": g, "vec": code[c][g]["vec"]})
        for g in only_spec[:5]:
            rep.drift.append({"where": "generator", "cfg": c, "graph_only_in_design": g})
        summary[c] = {"mandatory": mand, "optional": opt, "coin_flip_outcomes_run": runs[c],
                      "graphs_code": len(code[c]), "graphs_design": len(spec_graphs),
                      "only_code": len(only_code), "only_design": len(only_spec)}
        for g, v in code[c].items():
            cid = next_id + len(tcases)
            tcases.append(L.tlc_case(cid, mand, [L.DSC], [{"setup": "ok", "m": v["model"], "tr": []}]))
            info[cid] = {"origin": f"generator-{c}", "vec": v["vec"], "mandatory": mand, "optional": opt, "graph": g}
    rep.extra["generator_spec_vs_code"] = summary
    return tcases, info


def _offenders(model: list[dict[str, Any]]) -> dict[str, Any]:
    """Human-readable detail for a W3/W4 report (not a verdict)."""
    t = {e["s"]: sorted(set(x for v in e["svcs"] if v["id"] == 0x10 and v["hasSf"] for x in v["sf"])) for e in model}
    return {"sessions": sorted(t), "dsc_lists": {str(s): t[s] for s in sorted(t)[:12]},
            "sessions_without_dsc": [s for s in sorted(t) if not any(v["id"] == 0x10 for e in model if e["s"] == s
                                                                    for v in e["svcs"])][:12]}


def _judge_cases(rep: Report, cases: list[dict[str, Any]], vs: list[dict[str, Any]],
                 res: dict[str, dict[int, dict[str, Any]]], verd: dict[int, dict[str, Any]]) -> None:
    for c in cases:
        cid = c["id"]
        ms, mv = L.mandatory_of(c)
        va, vb = verd[cid]["a"], verd[cid]["b"]
        base = {"seed": c["seed"], "params": c["params"], "behavior": c["behavior"], "hist": c["hist"],
                "combo": c.get("combo")}
        env: dict[str, Any] = {}
        if "pool" in c:  # crowded process environments: the neighbours belong to the replayable case
            base["pool"] = c["pool"]
            env = {"env": "crowd"}
        if "vendor_group" in c:  # vendor process environments: the group (modules, stages) belongs to the case
            base["vendor_group"] = c["vendor_group"]
            env = {"env": "vendor", "group": c["vendor_group"]}
        rep.extra["unspecified_steps"] = rep.extra.get("unspecified_steps", 0) + va["u"] + vb["u"]
        if va["v"] != "ok":
            run = vs[va["run"] - 1]["name"] if va["run"] else "?"
            r = res[run].get(cid, {}) if run != "?" else {}
            rep.violate(va["v"], dict({"part": "a", "dsc_mandatory": L.DSC in mv}, **env),
                        dict(base, run=run, mandatory_sessions=ms, mandatory_services=mv,
                             **(_offenders(r["model"]) if "model" in r else {})))
        if vb["v"].startswith(("H0", "H1")):
            raise Machinery(f"the harness's own tester is inconsistent ({vb['v']}) in case {cid} run {vb['run']} "
                            f"step {vb['at']}: {json.dumps(base)[:400]}")
        if vb["v"] != "ok":
            run = vs[vb["run"] - 1]["name"] if vb["run"] else "?"
            det: dict[str, Any] = dict(base, run=run, step=vb["at"])
            sid = None
            if vb["at"] and run != "?":
                a = res[vs[0]["name"]][cid]["tr"][vb["at"] - 1]
                b = res[run][cid]["tr"][vb["at"] - 1]
                sid = a["q"][0] if a["q"] else None
                det.update(request=bytes(a["q"]).hex(), answer_run_A=[a["o"], bytes(a["r"]).hex()],
                           answer_other=[b["o"], bytes(b["r"]).hex()])
            det["variants"] = [dict({k: v[k] for k in ("name", "hashseed", "import_first", "via_config")},
                                    **({"vendor_imports": v["vendor"]["steps"]} if "vendor" in v else {})) for v in vs]
            if env and vb["run"]:
                det["crowd_plan"] = vs[vb["run"] - 1].get("crowd")
            rep.violate(vb["v"], dict({"part": "b", "sid": sid}, **env), det)


def _build_tcases(cases: list[dict[str, Any]], vs: list[dict[str, Any]],
                  res: dict[str, dict[int, dict[str, Any]]]) -> list[dict[str, Any]]:
    out = []
    for c in cases:
        ms, mv = L.mandatory_of(c)
        out.append(L.tlc_case(c["id"], ms, mv, [L.tlc_run_of(res[v["name"]][c["id"]]) for v in vs]))
    return out


def _stats(rep: Report, cases: list[dict[str, Any]], res: dict[str, dict[int, dict[str, Any]]], first: str) -> None:
    for c in cases:
        r = res[first][c["id"]]
        if "setup_exc" in r:
            rep.extra["setup_raised"] = rep.extra.get("setup_raised", 0) + 1
            continue
        tr = r["tr"]
        nsess = len(r["model"])
        seeds = sum(1 for s in tr if s["q"][:1] == [0x27] and s["o"] == "r" and s["r"][:1] == [0x67] and s["r"][1] % 2)
        pos = sum(1 for s in tr if s["k"] != "new" and s["o"] == "r" and s["r"][:1] != [0x7F])
        rep.evaluations += len(tr)
        st = rep.extra.setdefault("transcripts", {"requests": 0, "positive": 0, "silent": 0, "raised": 0,
                                                  "seed_replies": 0, "fresh_ecus": 0, "sessions_max": 0})
        st["requests"] += sum(1 for s in tr if s["k"] != "new")
        st["positive"] += pos
        st["silent"] += sum(1 for s in tr if s["o"] == "n")
        st["raised"] += sum(1 for s in tr if s["o"] == "x")
        st["seed_replies"] += seeds
        st["fresh_ecus"] += sum(1 for s in tr if s["k"] == "new")
        st["sessions_max"] = max(st["sessions_max"], nsess)
        if nsess >= 2 or seeds >= 1:
            rep.nontrivial.add(json.dumps([c["seed"], c["params"], c["behavior"]], sort_keys=True))
        if len(rep.samples) < 4 and nsess >= 2:
            rep.sample({"seed": c["seed"], "args": c["combo"], "sessions": [e["s"] for e in r["model"]][:10],
                        "requests": len(tr), "positive_answers": pos, "seed_replies": seeds,
                        "excerpt": [[bytes(s["q"]).hex(), s["o"], bytes(s["r"]).hex()] for s in tr[-6:-3]]})


def run(tier: str, seed: int) -> Report:
    quiet_gallia_logging()
    logging.disable(logging.CRITICAL)
    rep = Report("C16", tier, seed)
    rep.rule = ("case = one (seed, randomness arguments, behaviour flags); every case is built in 3 separate interpreter "
                "processes (PYTHONHASHSEED 0 / 1 / seeded-random; gallia.commands imported first or not; server built "
                "directly or through RngVirtualECUConfig; different virtual start times; one process reseeds the global "
                "`random` before and during the run and handles its cases in reverse order); each process dumps "
                "server.services after setup() and answers a request history (all 256 service ids with short payloads, a "
                "tour of the offered sessions with sub-function / identifier sweeps and resets, then challenge/response "
                "histories on freshly restarted ECUs). Crowded environments: for a spread of the cases the ECU is "
                "additionally built in interpreters where other RandomUDSServer objects (other seeds / arguments, a twin) "
                "are constructed, set up and used before / between / after its construction, setup() and requests (6 "
                "plans), and compared with its twin that lived alone in an interpreter. Vendor environments: interpreters in "
                "which a synthetic vendor package registers codec classes (UDSService subclasses) for ISO services gallia "
                "has no class for, with argument lists that make the model draw those services; the twins of a group "
                "import the same vendor modules before / after gallia.services.uds.server, gallia.commands, "
                "gallia.services.uds, or right before the server object is constructed (further groups: between "
                "construction and setup(), after setup()); only twins of one group are compared. non-trivial = distinct cases whose model offers >= 2 sessions "
                "or that produced a security seed")
    rep.assumptions = [
        "time.time is virtual in the child processes; the variants differ in the tester's pacing (back to back, 0.3 s and 4 s "
        "between requests, always below the 10 s inactivity reset of handle_request, which therefore must never fire)",
        "T = DiagnosticSessionControl sub-function lists of the dumped model restricted to offered sessions; a session "
        "offering ECUReset with a reset type also counts as able to return (ISO 14229-1: reset ends in the default session)",
        "'same request history' for challenge/response: the tester derives the key from the seed it received; such steps "
        "and literal keys that hit the fresh seed in one run only are unspecified (E2), counted in unspecified_steps",
        "mandatory lists are taken from the arguments (gallia defaults: sessions [1], services [DiagnosticSessionControl])",
        "only Python 3.12 is installed: determinism across Python versions is not covered",
    ]
    import time as _t

    t0 = _t.time()
    stage: dict[str, float] = {}
    rep.extra["stage_wall_s"] = stage
    # ---- 1. design layer vs contract (exhaustive, small constants) + negative controls
    _model_check(rep, tier)
    stage["model_checking"] = round(_t.time() - t0, 1)
    # ---- 2. spec <-> code on the generator (all coin-flip outcomes, both sides)
    next_id = 1_000_000
    gen_cases, gen_info = _generator_graphs(rep, tier, next_id)
    stage["generator_enumeration"] = round(_t.time() - t0, 1)
    # ---- 3. real ECUs in separate processes, TLC decides
    vs = L.variants(seed)
    rep.extra["process_variants"] = vs
    cases = L.case_family(tier, seed)
    # crowded process environments (run in the background while the first wave of lone processes is busy)
    cvs = L.crowd_variants(seed)
    ccases = L.crowd_family(tier, seed, cases)
    crowd_pool = ThreadPoolExecutor(max_workers=2)
    crowd_fut = crowd_pool.submit(L.run_crowd, ccases, cvs)
    cres: dict[str, dict[int, dict[str, Any]]] = {}
    # vendor process environments (same: in the background of the first wave)
    vvs = L.vendor_variants(seed)
    vfam = L.vendor_family(tier, seed)
    vendor_fut = crowd_pool.submit(L.run_vendor, vfam, vvs)
    vres: dict[str, dict[str, dict[int, dict[str, Any]]]] = {}
    wave = 48
    tlc_results: list[Any] = []
    first_ok: tuple[dict[str, Any], dict[str, Any]] | None = None
    synth = synthetic_cases(2_000_000)
    extra_cases = gen_cases + [s[0] for s in synth]
    for off in range(0, len(cases), wave):
        chunk = cases[off:off + wave]
        res = L.run_children(chunk, vs, chunk=4 if tier == "quick" else 6, workers=8)
        tcs = _build_tcases(chunk, vs, res)
        if off == 0:
            cres = crowd_fut.result()
            vres = vendor_fut.result()
            crowd_pool.shutdown()
            rep.extra["vendor_processes"] = {
                "groups": {g["name"]: {"phase": g["phase"], "imports": [r[3] for r in g["runs"]],
                                       "judged_cases": len(vfam[g["name"]]),
                                       **L.check_vendor_stats(vres[g["name"]], vvs[g["name"]], vfam[g["name"]])}
                           for g in L.VENDOR_GROUPS},
                "compared": "the runs of one group with each other, never a process with the vendor modules against "
                            "one without, never across groups"}
            vtcs = [t for g in vfam for t in _build_tcases(vfam[g], vvs[g], vres[g])]
            rep.extra["crowded_processes"] = {
                "plans": [p["name"] for p in L.CROWD_PLANS], "judged_cases": len(ccases),
                "neighbours": "per judged case: another seed with other arguments, the same seed with other arguments, "
                              "another seed with the same arguments, an exact twin",
                "neighbour_activity": L.check_crowd_stats(cres, cvs)}
            ctcs = _build_tcases(ccases, cvs, cres)
            tcs_all = tcs + ctcs + vtcs + extra_cases
        else:
            tcs_all = tcs
        verd, results = L.validate(tcs_all, capacity=45_000 if tier == "quick" else 90_000, workers=6)
        tlc_results += results
        _judge_cases(rep, chunk, vs, res, verd)
        _stats(rep, chunk, res, vs[0]["name"])
        rep.traces += sum(len(t["runs"]) for t in tcs)
        if off == 0:
            # crowded processes: run 1 = the lone twin, runs 2.. = one crowded interpreter per plan
            _judge_cases(rep, ccases, cvs, cres, verd)
            _stats(rep, ccases, cres, cvs[0]["name"])
            rep.traces += sum(len(t["runs"]) for t in ctcs)
            # vendor processes: run 1 = the reference twin of the group
            for g in vfam:
                _judge_cases(rep, vfam[g], vvs[g], vres[g], verd)
                _stats(rep, vfam[g], vres[g], vvs[g][0]["name"])
            rep.traces += sum(len(t["runs"]) for t in vtcs)
            # generator graphs: part (a) of every graph the real generator can produce
            for cid, inf in gen_info.items():
                va = verd[cid]["a"]
                if va["v"] != "ok":
                    rep.violate(va["v"], {"part": "a", "dsc_mandatory": True, "origin": inf["origin"]}, inf)
            rep.traces += len(gen_info)
            # synthetic contract cases
            wrong = [(c["id"], ea, eb, verd[c["id"]]["a"]["v"], verd[c["id"]]["b"]["v"]) for c, ea, eb in synth
                     if (verd[c["id"]]["a"]["v"], verd[c["id"]]["b"]["v"]) != (ea, eb)]
            if wrong:
                raise Machinery(f"contract self-test: synthetic cases judged unexpectedly (id, want a, want b, got a, got b): {wrong}")
            rep.extra["contract_selftest_cases"] = len(synth)
            for t in tcs:
                v = verd[t["id"]]
                if v["a"]["v"] == "ok" and v["b"]["v"] == "ok" and len(t["runs"][0]["tr"]) > 500 and first_ok is None:
                    first_ok = (copy.deepcopy(t), next(c for c in chunk if c["id"] == t["id"]))
    stage["processes_and_trace_validation"] = round(_t.time() - t0, 1)
    for r in tlc_results:
        rep.add_tlc(r, "Trace_VEcuModel batch")
    if len(tlc_results) > 6:  # keep the evidence file small
        runs = rep.extra["tlc_runs"]
        batch = [x for x in runs if x["run"] == "Trace_VEcuModel batch"]
        rep.extra["tlc_runs"] = [x for x in runs if x["run"] != "Trace_VEcuModel batch"] + [
            {"run": f"Trace_VEcuModel x {len(batch)} batches", "distinct": sum(x["distinct"] for x in batch),
             "generated": sum(x["generated"] for x in batch), "wall_s": round(sum(x["wall_s"] for x in batch), 1)}]
    rep.exhaustive = True
    rep.extra["exhaustive_spaces"] = ("all coin-flip outcomes of RandomUDSServer.randomize() for the candidate sets of "
                                      "generator_spec_vs_code (3 candidates; 4 candidates in the thorough tier); the "
                                      "seed x argument family is sampled, not exhaustive")
    rep.extra["cases"] = len(cases)
    rep.extra["level_note"] = ("part (b) is trace validation only: TLC's share there is equality of two transcripts with "
                               "the precisely stated seed exception")
    # ---- 4. binding self-tests on real traces
    if first_ok is None:
        raise Machinery("no accepted real case to run the binding self-test on")
    t, case = first_ok
    muts: list[tuple[dict[str, Any], str, str]] = []
    tr2 = t["runs"][1]["tr"]
    idx = next(i for i, s in enumerate(tr2) if i > 100 and s["o"] == "r" and s["q"][:1] != [0x27] and len(s["r"]) >= 3)
    m1 = copy.deepcopy(t); m1["id"] = 3_000_001
    m1["runs"][1]["tr"][idx]["r"][-1] ^= 0x01
    muts.append((m1, "ok", "D1/answer-differs"))
    m2 = copy.deepcopy(t); m2["id"] = 3_000_002
    m2["runs"][2]["tr"][idx]["o"] = "n"; m2["runs"][2]["tr"][idx]["r"] = []
    muts.append((m2, "ok", "D1/answer-differs"))
    m3 = copy.deepcopy(t); m3["id"] = 3_000_003
    e = m3["runs"][2]["m"][-1]
    e["svcs"][-1]["sf"] = list(e["svcs"][-1]["sf"]) + [0x7E] if e["svcs"][-1]["hasSf"] else []
    e["svcs"][-1]["hasSf"] = True
    muts.append((m3, "ok", "M1/model-differs"))
    m4 = copy.deepcopy(t); m4["id"] = 3_000_004
    m4["mandV"] = list(m4["mandV"]) + [0xBA]
    muts.append((m4, "W2/mandatory-services-present", "ok"))
    # mutant of the system under test as seen through the binding: a generator drawing from the global RNG
    mvs = [dict(vs[0]), dict(vs[1], mutant="global_rng", name="Bm"), dict(vs[2], mutant="global_rng", name="Cm")]
    mvs[0]["mutant"] = "global_rng"
    mcases = [dict(c, id=3_000_010 + i) for i, c in enumerate([cases[0], cases[3]])]  # default and p=0.5 arguments
    mres = L.run_children(mcases, mvs, chunk=2, workers=3)
    mt = _build_tcases(mcases, mvs, mres)
    # crowd family: ECUs whose model lives in one object per process (last set up wins / first set up wins) must be
    # told from their lone twin by every plan (by at least one of the two) - the plans are not vacuous
    cj = ccases[1]
    lone_run = L.tlc_run_of(cres[cvs[0]["name"]][cj["id"]])
    cmt: list[dict[str, Any]] = []
    cexp: dict[int, tuple[str, str]] = {}
    with ThreadPoolExecutor(max_workers=2) as ex:
        futs = {}
        for mi, mutant in enumerate(("shared_model", "memo_first")):
            mvars = L.crowd_variants(seed, mutant)[1:]
            mc = dict(cj, id=3_000_100 + 100 * mi)
            futs[mutant] = (mvars, mc, ex.submit(L.run_children, [mc], mvars, 1, 6))
        for mutant, (mvars, mc, fut) in futs.items():
            r = fut.result()
            L.check_crowd_stats(r, mvars)
            ms_, mv_ = L.mandatory_of(mc)
            for pi, v in enumerate(mvars):
                cid = mc["id"] + 1 + pi
                cmt.append(L.tlc_case(cid, ms_, mv_, [lone_run, L.tlc_run_of(r[v["name"]][mc["id"]])]))
                cexp[cid] = (mutant, v["crowd"]["name"])
    # vendor family: a generator that sees the codec registry as of the import of the server module must be told
    # apart by every group that registers its classes before the ECU is constructed - the groups are not vacuous
    vmt: list[dict[str, Any]] = []
    vexp: dict[int, str] = {}
    early = [g["name"] for g in L.VENDOR_GROUPS if g["phase"] == "before-construction"]
    mvvs = L.vendor_variants(seed, "registry_snapshot")
    with ThreadPoolExecutor(max_workers=len(early)) as ex:
        vfuts = {}
        for gi, g in enumerate(early):
            src = next((c for c in vfam[g] if set(c["params"].get("mandatory_services", [])) & set(L.VENDOR_SF_IDS)),
                       vfam[g][0])
            mc = dict(src, id=3_000_400 + gi)
            pair = mvvs[g][:2]  # the first two runs of every group straddle the import of the server module
            vfuts[g] = (mc, pair, ex.submit(L.run_children, [mc], pair, 1, 2))
        for g, (mc, pair, fut) in vfuts.items():
            vmt += _build_tcases([mc], pair, fut.result())
            vexp[mc["id"]] = g
    verd, results = L.validate([m[0] for m in muts] + mt + cmt + vmt, workers=2)
    if any(verd[cid]["b"]["v"].startswith(("H0", "H1")) for cid in vexp):
        raise Machinery("vendor self-test: the harness's own tester is inconsistent")
    blind = [g for cid, g in vexp.items() if verd[cid]["b"]["v"] == "ok"]
    if blind:
        raise Machinery(f"vendor self-test: a model generator with an import-time snapshot of the codec registry was "
                        f"accepted by the groups {blind}")
    if any(verd[cid]["b"]["v"].startswith(("H0", "H1")) for cid in cexp):
        raise Machinery("crowd self-test: the harness's own tester is inconsistent")
    rejected = {(m, p) for cid, (m, p) in cexp.items() if (verd[cid]["a"]["v"], verd[cid]["b"]["v"]) != ("ok", "ok")}
    dead_plans = [p["name"] for p in L.CROWD_PLANS if not any(pl == p["name"] for _m, pl in rejected)]
    dead_mutants = [m for m in ("shared_model", "memo_first") if not any(mm == m for mm, _p in rejected)]
    if dead_plans or dead_mutants:
        raise Machinery(f"crowd self-test: process-wide model accepted (plans that saw nothing: {dead_plans}, "
                        f"mutants never seen: {dead_mutants})")
    for r in results:
        rep.add_tlc(r, "Trace_VEcuModel self-test batch")
    got = [(verd[m["id"]]["a"]["v"], verd[m["id"]]["b"]["v"]) for m, _a, _b in muts]
    if got != [(a, b) for _m, a, b in muts]:
        raise Machinery(f"binding self-test: corrupted real traces judged {got}, expected {[(a, b) for _m, a, b in muts]}")
    mgot = [verd[c["id"]]["b"]["v"] for c in mcases]
    if any(v == "ok" for v in mgot):
        raise Machinery(f"binding self-test: a generator that uses the global random module was accepted: {mgot}")
    stage["selftests"] = round(_t.time() - t0, 1)
    rep.extra["binding_selftest"] = {"corrupted_real_traces_rejected": [list(g) for g in got],
                                     "global_rng_mutant_rejected": mgot,
                                     "process_wide_model_mutants_rejected": sorted(f"{m} by {p}" for m, p in rejected),
                                     "registry_snapshot_mutant_rejected": {g: verd[cid]["b"]["v"] for cid, g in vexp.items()}}
    return rep


def replay(path: str) -> int:
    quiet_gallia_logging()
    data = json.loads(open(path).read())
    vs = L.variants(int(data.get("seed", 0)))
    cases = []
    for v in data["violations"]:
        d = v["detail"]
        if "seed" not in d or "params" not in d:
            print(f"not replayable through child processes: {v['clause']} {v['sig']}")
            continue
        c = {"id": len(cases), "seed": d["seed"], "params": d["params"], "behavior": d.get("behavior", {}),
             "hist": d.get("hist", {}), "combo": d.get("combo")}
        if "pool" in d:  # crowded process environments: lone twin + one crowded interpreter per plan
            c["pool"] = d["pool"]
        if "vendor_group" in d:  # vendor process environments: the twins of the group
            c["vendor_group"] = d["vendor_group"]
        cases.append(c)
    if not cases:
        return 0
    bad = 0
    cvs = L.crowd_variants(int(data.get("seed", 0)))
    vvs = L.vendor_variants(int(data.get("seed", 0)))
    plain = [c for c in cases if "pool" not in c and "vendor_group" not in c]
    groups = [(plain, vs, lambda g: L.run_children(g, vs, chunk=4, workers=6)),
              ([c for c in cases if "pool" in c], cvs, lambda g: L.run_crowd(g, cvs))]
    for name, gv in vvs.items():
        groups.append(([c for c in cases if c.get("vendor_group") == name], gv,
                       lambda g, gv=gv: L.run_children(g, gv, chunk=1, workers=6)))
    for group, gvs, runner in groups:
        if not group:
            continue
        res = runner(group)
        verd, _ = L.validate(_build_tcases(group, gvs, res))
        for c in group:
            v = verd[c["id"]]
            print(f"replay seed={c['seed']} params={json.dumps(c['params'])[:160]} a={v['a']['v']} b={v['b']['v']}"
                  + (f" (run {gvs[v['b']['run'] - 1]['name'] if v['b']['run'] else '?'} step {v['b']['at']})"
                     if v["b"]["v"] != "ok" else ""))
            bad += v["a"]["v"] != "ok" or v["b"]["v"] != "ok"
    if bad:
        print(f"VIOLATION property=C16 replay={path}")
        return 1
    return 0
