"""X10 (growth) — the primitive UDS commands `primitive uds {wdbi, rtcl, iocbi, rmba, wmba, dtc read|clear|control,
ecu-reset, ping, vin, dddi id|mem|clear}` send exactly the ISO 14229-1 request(s) their options describe, once, in
the session of --session (and fail without sending when the session is refused / the session check fails), and
report what the ECU really answered.

spec   : spec/PrimitivesContract.tla (R0..R4, O1..O4) + spec/Primitives.tla (design layer, 11 deviation constants)
MC     : MC_Primitives_{a,b,c,d} (+t1 thorough), coverage MC_Primitives_cov; negative controls MC_Primitives_dev*
binding: the REAL command classes, constructed from their pydantic config classes and run through
         AsyncScript.run() (setup, main, teardown) with a real ECU client over the full tcp-lines stack in memory
         (harness/c10_stack.py, harness/streams.py) against a scripted UDSServer subclass (harness/x10_ecu.py) served
         by the real TCPUDSServerTransport.handle_client, virtual time;
         code->spec: every execution validated by Trace_Primitives (TLC): (ground-truth session, request bytes, answer,
         virtual time) at the ECU interleaved with the command's result / warning records and its exit status;
         spec->code: TLC-simulated design behaviours concretised (options, ECU treatment of the session, answer
         script) and replayed into the real command; requests / answers / exit class compared (DRIFT only).
"""

from __future__ import annotations

import hashlib
import json
import multiprocessing as mp
import os
from concurrent.futures import ThreadPoolExecutor
from typing import Any

from harness import tlc
from harness import x10_cases as cs
from harness.c10_stack import setup_logging_once
from harness.common import Machinery, Report
from harness.x10_run import run_prim

MC_QUICK = ["a", "b", "c", "d"]
MC_THOROUGH = ["t1"]
NEG = {
    "devIgnoreCheck": {"R3_Check_Inv", "R3_CheckExit_Inv"},
    "devNoSet": {"R2_Session_Inv"},
    "devAsIs": {"R2_Session_Inv", "R3_Refused_Inv", "R3_Check_Inv"},
    "devDtcSession": {"R2_Session_Inv"},
    "devExitZero": {"R3_RefusedExit_Inv"},
    "devSuccessNeg": {"O2_Success_Inv"},
    "devStopStart": {"R1_Shape_Inv"},
    "devTwice": {"R1_Once_Inv"},
    "devPing": {"R1_Once_Inv"},
    "devNoDelay": {"R4_Delay_Inv"},
    "devAlfi": {"R1_Shape_Inv"},
    "devData": {"O3_Data_Inv", "O3_Dtc_Inv"},
}
ACTIONS = ("Setup", "Session", "Dsc", "Read", "Sleep", "Send", "RepPos", "RepNeg", "Finish", "Judge")
NPROC = max(2, min(12, (os.cpu_count() or 4) - 2))
TRACE_KEYS = ("id", "kind", "opt", "session", "ev", "done")
EV_KEYS = {"q": ("k", "t", "t2", "p", "r", "nrc", "a", "ms", "ph", "ib"), "res": ("k", "tok", "ms", "ph"),
           "err": ("k", "nrcs", "tok", "ms", "ph")}


def _one(case: dict[str, Any]) -> dict[str, Any]:
    return run_prim(case)


def _run_cases(cases: list[dict[str, Any]]) -> list[dict[str, Any]]:
    if not cases:
        return []
    ctx = mp.get_context("fork")
    with ctx.Pool(NPROC) as pool:
        return pool.map(_one, cases, chunksize=8)


def _for_tlc(t: dict[str, Any]) -> dict[str, Any]:
    x = {k: t[k] for k in TRACE_KEYS}
    x["ev"] = [{k: e[k] for k in EV_KEYS[e["k"]]} for e in t["ev"]]
    # the exit status is all the contract looks at: "ok" = 0, "cfg" = rejected when the configuration was built
    d = t["done"]
    x["done"] = "cfg" if d.startswith("cfg:") else d
    return x


def _validate(traces: list[dict[str, Any]], rep: Report | None) -> tuple[dict[int, str], dict[int, int]]:
    jobs = [traces[off:off + 500] for off in range(0, len(traces), 500)]

    def one(sub: list[dict[str, Any]]) -> Any:
        return tlc.validate_batch("Trace_Primitives", "Trace_Primitives.cfg", {"traces": [_for_tlc(t) for t in sub]},
                                  timeout=1800, workers=1, heap="3g", env={"JAVA_TOOL_OPTIONS": "-Xss64m"})

    with ThreadPoolExecutor(max_workers=6) as ex:
        results = list(ex.map(one, jobs))
    verdicts: dict[int, str] = {}
    unspec: dict[int, int] = {}
    for res in results:
        if rep is not None:
            rep.add_tlc(res, "Trace_Primitives batch")
        for p in res.prints:
            if isinstance(p, list) and len(p) == 3 and p[0] == "V":
                verdicts[p[1]] = p[2]
            elif isinstance(p, list) and len(p) == 3 and p[0] == "U":
                unspec[p[1]] = p[2]
    missing = [t["id"] for t in traces if t["id"] not in verdicts]
    if missing:
        raise Machinery(f"TLC produced no verdict for {len(missing)} traces (first id {missing[0]}):\n"
                        + results[-1].out[-2000:])
    return verdicts, unspec


def _mc(rep: Report, tier: str) -> None:
    jobs: list[tuple[str, set[str] | None, bool]] = [(c, None, False) for c in MC_QUICK + (MC_THOROUGH if tier == "thorough" else [])]
    jobs.append(("cov", None, True))
    jobs += [(c, want, False) for c, want in NEG.items()]

    def one(j: tuple[str, set[str] | None, bool]) -> Any:
        return tlc.run_tlc("MC_Primitives", f"MC_Primitives_{j[0]}.cfg", workers=4 if j[1] is None else 2, timeout=1500,
                           coverage=j[2], heap="3g")

    with ThreadPoolExecutor(max_workers=6) as ex:
        results = list(ex.map(one, jobs))
    for (c, want, coverage), res in zip(jobs, results):
        rep.add_tlc(res, f"MC_Primitives_{c}" + (" (negative control)" if want else ""))
        if want is None:
            if not res.ok:
                rep.violate(f"design/{res.violated}", {"where": "Primitives design layer", "cfg": c},
                            {"cex": res.cex[-6:], "out": res.out[-1500:]})
        elif res.violated not in want:
            raise Machinery(f"negative control MC_Primitives_{c} did not violate {sorted(want)} (got {res.violated}): "
                            "contract is vacuous")
        if coverage:
            acts = {a: n for a, (n, _) in res.coverage.items() if a in ACTIONS}
            never = [a for a in ACTIONS if acts.get(a, 0) == 0]
            if never:
                raise Machinery(f"MC_Primitives_{c}: design actions never taken: {never}")
            rep.extra["design_action_coverage"] = acts
    rep.extra["negative_controls"] = sorted(NEG)


# ------------------------------------------------------------------ spec -> code
_DATA = {"rtcl": "cafe", "iocbi": "cafe", "rmba": "cafe", "vin": "cafe", "dtcread": "12345608abcdef40"}


def _collapse(seq: list[list[Any]]) -> list[list[Any]]:
    out: list[list[Any]] = []
    for x in seq:
        if out and out[-1][2] == "sil" and out[-1][1] == x[1]:
            out[-1] = x
        else:
            out.append(x)
    return out


def _projection(kind: str, ev: list[dict[str, Any]], done: str) -> list[Any]:
    """Main-phase requests that are not TesterPresent (session handling included), retries collapsed, and the exit class."""
    q = [[e["t"], bytes(e["p"]).hex(), e["r"]] for e in ev
         if e["k"] == "q" and e["ph"] == "main" and (e["p"][0] != 0x3E or kind == "ping")]
    return _collapse(q) + [["exit", "0" if done == "ok" else "cfg" if done.startswith("cfg") else "nonzero"]]


def _case_from_behaviour(st: dict[str, Any], n: int, max_retry: int) -> tuple[dict[str, Any], list[Any]] | None:
    if st.get("pc") != "Done":
        return None
    C, envd = st["C"], st["env"]
    kind, opt, session = C["kind"], dict(C["opt"]), C["session"]
    if kind in ("wdbi", "wmba") and not opt["valid"]:
        opt["inv"] = "neither"
    if kind == "ping":
        opt["setup_ping"] = False

    def cls(c: str) -> list[Any]:
        if c == "pos":
            return ["pos", _DATA[kind]] if kind in _DATA else ["pos"]
        if c == "sil":
            return ["sil"]
        return ["neg", int(c[3:])]

    ecu = cs.env(session, envd["dsc"], envd["sread"], [cls(c) for c in envd["ans"]], cls("pos"))
    if session == 1 and envd["dsc"] != "ok":
        ecu["dsc"] = {"1": envd["dsc"]}   # the design's ECU may also refuse / ignore a switch to the default session
    case = cs.make_case(kind, opt, session, ecu, style=n, origin="tlc-simulate", omit_default=bool(n % 2),
                        extra={"max_retries": max_retry, "tester_present": False} if kind != "ping" else {"max_retries": max_retry})
    return case, _projection(kind, st["hist"], st["done"])


def _spec_to_code(rep: Report, tier: str, seed: int) -> list[tuple[dict[str, Any], list[Any]]]:
    nsim = 40 if tier == "quick" else 800
    _res, behs = tlc.simulate_behaviours("MC_Primitives", "MC_Primitives_sim.cfg", num=nsim, depth=200, seed=seed + 1,
                                         timeout=1500)
    out = []
    for n, b in enumerate(behs):
        if b:
            x = _case_from_behaviour(b[-1][1], n, 1)
            if x is not None:
                out.append(x)
    rep.extra["simulated_behaviours"] = len(out)
    if len(out) < nsim // 2:
        raise Machinery(f"spec->code: only {len(out)} complete design behaviours out of {nsim} simulated")
    return out


# ------------------------------------------------------------------ run
def _digest(case: dict[str, Any]) -> str:
    return hashlib.sha1(json.dumps([case["kind"], case["ecu"], case["cfg"]], sort_keys=True).encode()).hexdigest()[:16]


def _nontrivial(t: dict[str, Any], case: dict[str, Any]) -> bool:
    e = case["ecu"]
    return (any(x["k"] == "q" and x["r"] != "pos" and not (x["p"][0] == 0x3E and x["p"][1] & 0x80) for x in t["ev"])
            or e.get("sread", "ok") != "ok" or any(v != "ok" for v in e.get("dsc", {}).values()) or not case["den"]["opt"]["valid"])


def _sig(t: dict[str, Any], case: dict[str, Any]) -> dict[str, Any]:
    e = case["ecu"]
    dsc = sorted(set(e.get("dsc", {}).values()))
    return {"cmd": t["kind"], "dsc": dsc[0] if dsc else "-", "sread": e.get("sread", "ok")}


def build_cases(tier: str, seed: int) -> list[dict[str, Any]]:
    return cs.grid(tier) + cs.seeded(tier, seed)


def run(tier: str, seed: int) -> Report:
    setup_logging_once()  # instead of quiet_gallia_logging(): result / warning records must be observable
    rep = Report("X10", tier, seed)
    rep.rule = ("executions = complete runs (setup, main, teardown) of the real primitive UDS commands against a scripted "
                "in-memory ECU; distinct = distinct (command, ECU model, option values); non-trivial = the ECU gave at "
                "least one answer other than a positive response, or treats the session switch / session read other than "
                "benignly, or the option combination is documented as invalid")
    rep.assumptions = [
        "growth item, not a listed property: statement in growth/X10.json, sources listed in spec/PrimitivesContract.tla",
        "full tcp-lines stack in memory: only asyncio.open_connection is replaced; TCPLinesTransport, ECU, UDSClient, "
        "TCPUDSServerTransport.handle_client and a UDSServer subclass are gallia code; virtual-time loop",
        "commands are constructed from their pydantic config classes with the option values a user would type (strings "
        "through gallia's own validators) and run through AsyncScript.run(); exit status 0 <=> run() returns 0 / "
        "SystemExit(0); an exception or SystemExit(n != 0) is a non-zero exit status (AsyncScript.entry_point maps them so)",
        "the phase of a request (setup / main / teardown) is observed by wrapping the command's main() on the instance",
        "what a command reports is observed through gallia's log records: result-tagged records and records of level >= "
        "WARNING; a reported response code is recognised by its ISO 14229-1 name (UDSErrorCodes) in the record's text, "
        "reported data by its hex digits in a result record's text; wording is otherwise free",
        "the ECU answers DiagnosticSessionControl (enters / refuses with conditionsNotCorrect / answers positively without "
        "entering), the session read F186 (truth / requestOutOfRange / silence) and TesterPresent always; the answer script is "
        "indexed by the other requests in the order they reach the ECU (a retry is a new request); a silent ECU never "
        "answers late; positive responses follow the ISO 14229-1 layouts (harness/x10_ecu.positive_for)",
        "busyRepeatRequest / responsePending are not generated (C04's subject); DTC lists never repeat a DTC (known finding "
        "C02/S6); no power supply, database logging off, default OEM, no --ecu-reset option",
        "ping: the background TesterPresent worker and the setup ping send the same bytes as the command (3E 00); exact "
        "counts and intervals are demanded only with both switched off (--no-tester-present --no-ping)",
    ]
    _mc(rep, tier)
    cases = build_cases(tier, seed)
    sims = _spec_to_code(rep, tier, seed)
    proj: dict[int, list[Any]] = {}
    for case, p in sims:
        proj[len(cases)] = p
        cases.append(case)
    seen: set[str] = set()
    uniq: list[dict[str, Any]] = []
    uproj: dict[int, list[Any]] = {}
    for i, c in enumerate(cases):
        d = _digest(c)
        if d in seen and i not in proj:
            continue
        seen.add(d)
        if i in proj:
            uproj[len(uniq)] = proj[i]
        uniq.append(c)
    traces = _run_cases(uniq)
    for i, t in enumerate(traces):
        t["id"] = i
    verdicts, unspec = _validate(traces, rep)
    drift = 0
    for i, p in uproj.items():
        got = _projection(traces[i]["kind"], traces[i]["ev"], traces[i]["done"])
        if got != p and verdicts[i] == "ok":
            drift += 1
            rep.drift.append({"cfg": uniq[i]["cfg"], "ecu": uniq[i]["ecu"], "design": p[:12], "code": got[:12]})
    rep.extra["spec_to_code_replayed"] = len(uproj)
    rep.extra["spec_to_code_drift"] = drift
    rep.extra["spec_to_code_contract_violations"] = sum(1 for i in uproj if verdicts[i] != "ok")
    rep.traces = rep.evaluations = len(traces)
    origins: dict[str, int] = {}
    per_kind: dict[str, int] = {}
    for i, t in enumerate(traces):
        origins[t["origin"]] = origins.get(t["origin"], 0) + 1
        per_kind[t["kind"]] = per_kind.get(t["kind"], 0) + 1
        if _nontrivial(t, uniq[i]):
            rep.nontrivial.add(_digest(uniq[i]))
        v = verdicts[i]
        if v != "ok":
            rep.violate(v, _sig(t, uniq[i]), {"case": uniq[i], "done": t["done"], "exc": t.get("exc", ""),
                                              "messages": t.get("msgs", [])[:8],
                                              "requests": [[e["ph"], e["t"], bytes(e["p"]).hex(), e["r"], bytes(e["a"]).hex()]
                                                           for e in t["ev"] if e["k"] == "q"][:30]})
    if set(per_kind) != set(cs.KINDS):
        raise Machinery(f"not every primitive was exercised: {sorted(set(cs.KINDS) - set(per_kind))}")
    rep.extra["origins"] = origins
    rep.extra["executions_per_command"] = per_kind
    rep.extra["verdicts"] = {k: sum(1 for v in verdicts.values() if v == k) for k in sorted(set(verdicts.values()))}
    rep.extra["unspecified"] = {
        "points the documented sources are silent about (ECU changed session by itself, requests after a negative answer, "
        "unanswered requests, ecu-reset exit status after a refusal, dtc control, odd iocbi combinations)":
            sum(unspec.values())}
    rep.extra["run_exit"] = {k: sum(1 for t in traces if t["done"].split(":")[0] == k)
                             for k in sorted({t["done"].split(":")[0] for t in traces})}
    for i in (0, len(traces) // 4, len(traces) // 2, 3 * len(traces) // 4, len(traces) - 1):
        t = traces[i]
        rep.sample({"origin": t["origin"], "kind": t["kind"], "cfg": uniq[i]["cfg"], "done": t["done"], "verdict": verdicts[i],
                    "events": [f"{e['ph'][0]} s{e['t']} {bytes(e['p']).hex()}>{e['r']}" if e["k"] == "q" else e["k"]
                               for e in t["ev"]][:14]})
    rep.exhaustive = True
    rep.extra["exhaustive_spaces"] = (
        "per command: its option grid (harness/x10_cases.grid) x sessions x every ECU treatment of the session switch "
        "(enters / refuses / answers positively and stays) x session read (answered / not supported / silent) on selected "
        "options, and x EVERY answer script over (positive, negative 0x31, negative 0x22, silent) of the length of the "
        "command's request sequence (rtcl: all 7 task combinations, up to 64 scripts; ping: counts 1..3 over (positive, "
        "negative, silent); dtc read: every script incl. responseTooLong and the per-bit requests for masks of <= 3 bits) "
        "under the benign treatment; everything else seeded samples")
    rep.extra["design_layer_not_vacuous"] = "every action of Primitives (cfg cov) is taken (TLC -coverage, counts in design_action_coverage)"
    _selftest(rep, traces, uniq, verdicts)
    return rep


def _selftest(rep: Report, traces: list[dict[str, Any]], cases: list[dict[str, Any]], verdicts: dict[int, str]) -> None:
    """Corrupt one field of accepted traces (and run one mutant of the fake ECU): TLC must reject each of them.  A shape
    of trace that is not available because the tree under test violates the contract there is skipped (and said so);
    on a tree without violations every mutation must be possible."""

    def clone(t: dict[str, Any]) -> dict[str, Any]:
        return json.loads(json.dumps(t))

    def subj(t: dict[str, Any]) -> list[int]:
        return [j for j, e in enumerate(t["ev"]) if e["k"] == "q" and e["ph"] == "main" and e.get("subj")]

    def pick(kinds: tuple[str, ...], pred: Any) -> dict[str, Any] | None:
        for kind in kinds:
            for i, t in enumerate(traces):
                if t["kind"] == kind and verdicts[i] == "ok" and pred(t, cases[i]):
                    return t
        return None

    def all_pos(t: dict[str, Any]) -> bool:
        s = subj(t)
        return bool(s) and all(t["ev"][j]["r"] == "pos" for j in s) and t["done"] == "ok"

    def dsc_of(t: dict[str, Any], c: dict[str, Any]) -> str:
        return str(c["ecu"].get("dsc", {}).get(str(t["session"]), "-"))

    muts: list[tuple[str, dict[str, Any], str]] = []
    skipped: list[str] = []

    def need(name: str, t: dict[str, Any] | None) -> bool:
        if t is None:
            skipped.append(name)
        return t is not None

    simple = ("wdbi", "reset", "rmba", "wmba", "iocbi", "dddiid", "dddiclear")
    base = pick(simple, lambda t, c: t["session"] >= 2 and all_pos(t) and dsc_of(t, c) == "ok" and c["ecu"]["sread"] == "ok")
    if need("accepted positive run in a non-default session", base):
        assert base is not None
        a = clone(base)
        a["ev"][subj(a)[0]]["t"] = 1
        muts.append(("request moved to the default session", a, "R2/"))
        b = clone(base)
        b["ev"][subj(b)[0]]["p"][-1] ^= 1
        muts.append(("one byte of the request changed", b, "R1/request-differs"))
        c = clone(base)
        c["ev"].insert(subj(c)[0] + 1, dict(c["ev"][subj(c)[0]]))
        muts.append(("request sent twice", c, "R1/request-sent-more-often"))
        d = clone(base)
        d["ev"] = [e for e in d["ev"] if e["k"] != "res"]
        muts.append(("result record removed", d, "O1/positive-response-not-reported"))
        e_ = clone(base)
        e_["done"] = "exit1"
        muts.append(("exit status changed to non-zero", e_, "O1/positive-outcome-reported-as-failure"))
    neg = pick(("rmba", "wdbi", "wmba", "iocbi", "vin"), lambda t, c: subj(t) and t["ev"][subj(t)[0]]["r"] == "neg")
    if need("accepted run with a negative response", neg):
        assert neg is not None
        f = clone(neg)
        for e in f["ev"]:
            if e["k"] == "err":
                e["nrcs"] = []
        muts.append(("reported response code removed", f, "O2/negative-response-code-not-reported"))
        g = clone(neg)
        j = subj(g)[0]
        g["ev"].insert(j + 1, {"k": "res", "tok": [], "ms": g["ev"][j]["ms"], "ph": "main"})
        muts.append(("success record added after a negative response", g, "O2/negative-response-reported-as-success"))
    dat = pick(("rmba", "vin", "rtcl", "iocbi"), lambda t, c: all_pos(t) and len(t["ev"][subj(t)[0]]["a"]) > 6)
    if need("accepted run that returned data", dat):
        assert dat is not None
        h = clone(dat)
        for e in h["ev"]:
            if e["k"] == "res":
                e["tok"] = [[x ^ 1 for x in tk] for tk in e["tok"]]
        muts.append(("reported data changed", h, "O3/returned-data-not-reported"))
    dl = pick(("rtcl",), lambda t, c: t["opt"]["start"] and t["opt"]["stop"] and t["opt"]["sdelay"] >= 1000 and all_pos(t))
    if need("accepted rtcl run with a stop delay", dl):
        assert dl is not None
        k = clone(dl)
        s = subj(k)
        k["ev"][s[1]]["ms"] = k["ev"][s[0]]["ms"] + 10
        muts.append(("stopRoutine moved to 10 ms after startRoutine", k, "R4/request-sent-earlier"))
    ref = pick(("wdbi", "ping", "rmba", "dtcclear"), lambda t, c: dsc_of(t, c) == "neg" and not subj(t) and t["done"] != "ok")
    if need("accepted run with a refused session", ref):
        assert ref is not None
        m = clone(ref)
        m["done"] = "ok"
        muts.append(("refused session, exit status changed to 0", m, "R3/refused-session-not-reported"))
    pg = pick(("ping",), lambda t, c: t["opt"]["count"] == 3 and not t["opt"]["bg"] and all_pos(t) and len(subj(t)) == 3)
    if need("accepted run of three pings", pg):
        assert pg is not None
        n_ = clone(pg)
        del n_["ev"][subj(n_)[2]]
        muts.append(("third ping removed", n_, "R1/request-not-sent"))
    # mutant of the harness's own fake: it answers positively where its record says negative
    fc = next((c for i, c in enumerate(cases) if c["kind"] in ("wdbi", "wmba", "dddiclear") and verdicts[i] == "ok"
               and c["ecu"]["answers"][:1] == [["neg", 0x31]] and c["ecu"]["sread"] == "ok"
               and all(v == "ok" for v in c["ecu"].get("dsc", {}).values())), None)
    if need("accepted case with a scripted negative response", fc):
        assert fc is not None
        fm = run_prim(fc, mutant="fake-answers-positive-when-scripted-negative")
        muts.append(("fake ECU answers positively where it records a negative response", fm, "O2/"))
    if skipped and not rep.violations:
        raise Machinery(f"binding self-test: no accepted trace of the needed shape: {skipped}")
    if not muts:
        rep.extra["binding_selftest"] = {"skipped (the tree under test violates the contract there)": skipped}
        return
    for n, (_, t, _) in enumerate(muts):
        t["id"] = n
    v, _u = _validate([t for _, t, _ in muts], None)
    got = {name: v[n] for n, (name, _, _) in enumerate(muts)}
    wrong = [name for n, (name, _, want) in enumerate(muts) if not v[n].startswith(want)]
    if wrong:
        raise Machinery(f"binding self-test: corrupted traces / fake mutants not rejected as expected: {wrong}: {got}")
    if skipped:
        got["skipped (the tree under test violates the contract there)"] = "; ".join(skipped)
    rep.extra["binding_selftest"] = got


def replay(path: str) -> int:
    setup_logging_once()
    data = json.loads(open(path).read())
    bad = 0
    traces = []
    for n, v in enumerate(data["violations"]):
        case = v["detail"].get("case")
        if case is None:
            print(f"replay: violation {n} ({v['clause']}) is a design-layer counterexample: re-run ./check X10")
            bad += 1
            continue
        t = _one(case)
        t["id"] = len(traces)
        traces.append(t)
    if traces:
        verdicts, _ = _validate(traces, None)
        for t in traces:
            print(f"replay kind={t['kind']} origin={t['origin']} done={t['done']} verdict={verdicts[t['id']]}")
            bad += verdicts[t["id"]] != "ok"
    if bad:
        print(f"VIOLATION property=X10 replay={path}")
        return 1
    return 0
