"""X06 (growth) — the ECUReset scanner `gallia scan uds reset` probes every reset level in the session it claims,
waits for the ECU after a reset, and reports exactly what the ECU answered.

spec   : spec/ResetScanContract.tla (clauses T0, R0..R4, R6), spec/ResetScan.tla (design: main / perform_scan /
         check_and_set_session / wait_for_ecu / leave_session, abstract ECU with silence, connection drop, refusal,
         session fall-back), MC_ResetScan_{a,b,c,cov}(+full1,full2,c4 thorough); negative controls MC_ResetScan_dev*
         (devS1 = suspected defect S1: a refused reconnect inside wait_for_ecu ends the scan)
binding: the REAL ResetScanner, run through AsyncScript.run() with a real ECU client over the full tcp-lines stack
         in memory (harness/x06_run.py on top of harness/c10_stack.py + harness/streams.py), virtual time;
         code->spec: every execution validated by Trace_ResetScan (TLC decides);
         spec->code: TLC-simulated design behaviours concretised and replayed, request sequence compared (DRIFT only).
"""

from __future__ import annotations

import hashlib
import json
import multiprocessing as mp
import os
from concurrent.futures import ThreadPoolExecutor
from typing import Any

from harness import tlc
from harness import x06_cases as cs
from harness.c10_stack import setup_logging_once
from harness.common import Machinery, Report
from harness.x06_run import NONE, POS, run_case

MC_QUICK = ["a", "b", "c"]
MC_THOROUGH = ["full1", "full2", "c4"]
MC_COV = "cov"
NEG_CONTROLS = {
    "devS1": {"R0_Envelope"}, "devNoWait": {"R6_Wait"}, "devNoReenter": {"R2_InSess"}, "devSkip": {"R4_Skip"},
    "devErr": {"R3_Err"}, "devTimeout": {"R3_To"},
}
NPROC = max(2, min(12, (os.cpu_count() or 4) - 2))


def _done_class(done: str) -> str:
    if done in ("ok", "hang"):
        return done
    return "exit" if done.startswith("exit") else "exc"


def _pool() -> Any:
    """Worker processes are forked BEFORE the TLC threads are started (no fork of a multi-threaded process)."""
    return mp.get_context("fork").Pool(NPROC)


def _for_tlc(t: dict[str, Any]) -> dict[str, Any]:
    return {"id": t["id"], "C": t["C"], "E": t["E"], "ev": t["ev"], "done": _done_class(t["done"])}


def _validate(traces: list[dict[str, Any]], rep: Report | None) -> tuple[dict[int, str], dict[int, int]]:
    """TLC batch validation (parallel JVMs); returns id -> verdict, id -> unspecified flag."""
    jobs = [traces[off:off + 250] for off in range(0, len(traces), 250)]

    def one(sub: list[dict[str, Any]]) -> Any:
        return tlc.validate_batch("Trace_ResetScan", "Trace_ResetScan.cfg", {"traces": [_for_tlc(t) for t in sub]},
                                  timeout=3000, workers=1, heap="3g", env={"JAVA_TOOL_OPTIONS": "-Xss64m"})

    with ThreadPoolExecutor(max_workers=6) as ex:
        results = list(ex.map(one, jobs))
    verdicts: dict[int, str] = {}
    unspec: dict[int, int] = {}
    for res in results:
        if rep is not None:
            rep.add_tlc(res, "Trace_ResetScan batch")
        for p in res.prints:
            if isinstance(p, list) and len(p) == 3 and p[0] == "V":
                verdicts[p[1]] = p[2]
            elif isinstance(p, list) and len(p) == 3 and p[0] == "U":
                unspec[p[1]] = p[2]
    missing = [t["id"] for t in traces if t["id"] not in verdicts]
    if missing:
        raise Machinery(f"TLC produced no verdict for {len(missing)} traces (first id {missing[0]}):\n"
                        + results[-1].out[-2000:])
    return verdicts, unspec


def _mc_start(tier: str) -> tuple[Any, list[Any], list[Any]]:
    jobs: list[tuple[str, set[str] | None, bool]] = []
    if tier == "thorough":
        jobs += [(c, None, False) for c in MC_THOROUGH]  # the long ones first
    jobs += [(c, None, False) for c in MC_QUICK]
    jobs.append((MC_COV, None, True))
    jobs += [(c, want, False) for c, want in NEG_CONTROLS.items()]

    def one(j: tuple[str, set[str] | None, bool]) -> Any:
        # negative controls stop at the first counterexample: one worker keeps their state counts reproducible
        return tlc.run_tlc("MC_ResetScan", f"MC_ResetScan_{j[0]}.cfg", workers=1 if j[1] else 4, timeout=3000,
                           coverage=j[2], heap="3g")

    ex = ThreadPoolExecutor(max_workers=5 if tier == "thorough" else 4)
    return ex, jobs, [ex.submit(one, j) for j in jobs]


def _mc_finish(rep: Report, started: tuple[Any, list[Any], list[Any]]) -> None:
    ex, jobs, futs = started
    results = [f.result() for f in futs]
    ex.shutdown()
    for (c, want, coverage), res in zip(jobs, results):
        rep.add_tlc(res, f"MC_ResetScan_{c}" + (" (negative control)" if want else ""))
        if want is None:
            if not res.ok:
                rep.violate(f"design/{res.violated}", {"where": "ResetScan design layer", "cfg": c},
                            {"cex": res.cex[-6:], "out": res.out[-1500:]})
        elif res.violated not in want:
            raise Machinery(f"negative control MC_ResetScan_{c} did not violate {sorted(want)} (got {res.violated}): "
                            "contract is vacuous")
        if coverage:
            never = [a for a, (n, _) in res.coverage.items() if n == 0]
            rep.extra["design_action_coverage"] = {a: n for a, (n, _) in res.coverage.items()}
            if never or not res.coverage:
                raise Machinery(f"MC_ResetScan_{c}: design actions never taken: {never or 'no coverage output'}")
    rep.extra["negative_controls"] = sorted(NEG_CONTROLS)


# ------------------------------------------------------------------ spec -> code
_KCLS = {0: "NS", 1: "NEG", 3: "SIL", 4: "POS"}


def _project(events: list[dict[str, Any]], sfs: set[int]) -> list[list[Any]]:
    """Requests other than TesterPresent (ECUReset only for the design's sub-functions), repeats collapsed
    (the UDS client retries unanswered requests, the design shows one)."""
    out: list[list[Any]] = []
    for e in events:
        if e["k"] != "q":
            lst = e["l"]
            if e["k"] == "err":
                item = [e["k"], sorted([int(a), int(b)] for a, b in lst if int(a) in sfs)]
            else:
                item = [e["k"], sorted(int(a) for a in lst if int(a) in sfs)]
        else:
            p = list(e["p"])
            if p[0] == 0x3E or (p[0] == 0x11 and p[1] not in sfs):
                continue
            item = ["q", e["t"], p, e["r"]]
        if not out or out[-1] != item or item[0] != "q" or item[3] != NONE:
            out.append(item)
    return out


def _case_from_behaviour(st: dict[str, Any], n: int) -> tuple[dict[str, Any], dict[str, Any]] | None:
    if st.get("pc") != "Done":
        return None
    M, C = st["M"], st["C"]
    cls: dict[str, dict[str, list[Any]]] = {}
    sfs = set()
    for key, rec in M["cls"]["$fn"]:
        s, sf = key
        sfs.add(sf)
        k = _KCLS[rec["k"]]
        cls.setdefault(str(s), {})[str(sf)] = [k] if k in ("POS", "SIL") else [k, rec["c"]]
    e = cs.ecu(cls, sessions=sorted(int(s) for s in cls), sess_read=bool(M["sessRead"]), fallback=bool(M["fallback"]),
               down=int(M["down"]), drop="fin" if M["drop"] else "no", refuse=int(M["refuse"]))
    skip: dict[int, list[int]] = {}
    for s, i in C["skip"]["$set"]:
        skip.setdefault(s, []).append(i)
    sessions = list(C["sessions"]) if C["has"] else None
    for s in sessions or []:
        # outside the design's universe: named by --skip (without a session list they are probed and ignored here)
        skip[s] = sorted(set(skip.get(s, [])) | (set(range(1, 0x80)) - sfs))
    case = cs.case(e, sessions, sorted(C["skipAll"]["$set"]), skip, not bool(C["check"]), n, "tlc-simulate")
    return case, {"design": _project(st["hist"], sfs), "out": st["out"], "sfs": sorted(sfs)}


def _spec_to_code(rep: Report, tier: str, seed: int) -> list[tuple[dict[str, Any], dict[str, Any]]]:
    nsim = 40 if tier == "quick" else 400
    _res, behs = tlc.simulate_behaviours("MC_ResetScan", "MC_ResetScan_sim.cfg", num=nsim, depth=150, seed=seed + 1,
                                         timeout=1800)
    out = []
    for n, b in enumerate(behs):
        if b:
            x = _case_from_behaviour(b[-1][1], n)
            if x is not None:
                out.append(x)
    rep.extra["simulated_behaviours"] = len(out)
    if len(out) < nsim // 2:
        raise Machinery(f"spec->code: only {len(out)} complete design behaviours out of {nsim} simulated")
    return out


def _drift(trace: dict[str, Any], proj: dict[str, Any]) -> dict[str, Any] | None:
    got = _project(trace["ev"], set(proj["sfs"]))
    # the scanner's initial ping and its teardown are outside the design
    if got != proj["design"] or _done_class(trace["done"]) != proj["out"]:
        k = next((i for i, (a, b) in enumerate(zip(got, proj["design"])) if a != b), min(len(got), len(proj["design"])))
        return {"scan": "reset", "first_difference_at": k, "design": proj["design"][max(0, k - 2):k + 4],
                "code": got[max(0, k - 2):k + 4], "design_out": proj["out"], "code_out": trace["done"]}
    return None


# ------------------------------------------------------------------ run
def _digest(case: dict[str, Any]) -> str:
    return hashlib.sha1(json.dumps([case["ecu"], case["cfg"]], sort_keys=True).encode()).hexdigest()[:16]


def _nontrivial(t: dict[str, Any]) -> bool:
    return any(e["k"] in ("ok", "err") and e["l"] for e in t["ev"])


def _check_log(t: dict[str, Any]) -> None:
    """The result-tagged summary records are the observation; if their wording is not understood any more the
    check cannot observe the report: machinery failure, never a verdict."""
    bad = [e for e in t["ev"] if e["k"] == "?"]
    if bad:
        raise Machinery(f"summary record not understood: {bad[0].get('msg')!r}; adapt the patterns in harness/x06_run.py")
    reps = [e["k"] for e in t["ev"] if e["k"] != "q"]
    nprobe = sum(1 for e in t["ev"] if e["k"] == "q" and e["p"][0] == 0x11 and e["r"] != NONE)
    if t["done"] == "ok" and nprobe > 0 and not reps:
        raise Machinery("a scan that probed and ended normally logged no ok / timeout / with error record that the "
                        "harness understands; adapt the patterns in harness/x06_run.py")
    if len({reps.count(k) for k in ("ok", "to", "err")}) != 1:
        raise Machinery(f"summary records not understood (ok/timeout/with error = "
                        f"{[reps.count(k) for k in ('ok', 'to', 'err')]}); adapt the patterns in harness/x06_run.py")


def _sig(t: dict[str, Any], case: dict[str, Any]) -> dict[str, Any]:
    e = case["ecu"]
    drops = e["drop"] != "no" or any(len(c) > 2 and c[0] == "POS" and c[2] != "no" for d in e["cls"].values() for c in d.values())
    return {"scan": "reset", "done": t["done"], "sessions": t["C"]["has"], "check": t["C"]["check"],
            "ecu_drops_connection": bool(drops), "ecu_refuses_connections": t["E"]["refuse"] > 0}


def build_cases(tier: str, seed: int) -> list[dict[str, Any]]:
    cases: list[dict[str, Any]] = []
    cases += cs.abstract(tier)
    cases += cs.packed(tier)
    cases += cs.environments(tier)
    cases += cs.mixed(tier)
    cases += cs.seeded(tier, seed)
    return cases


def run(tier: str, seed: int) -> Report:
    setup_logging_once()  # instead of quiet_gallia_logging(): result-tagged records must be observable
    rep = Report("X06", tier, seed)
    rep.rule = ("executions = complete runs of the real ResetScanner (setup, main, teardown) against an in-memory ECU; "
                "distinct = distinct (ECU model, option strings); non-trivial = the scan reported at least one 'ok' or "
                "'with error' entry")
    rep.assumptions = [
        "growth item: the property text is /verif/growth/X06.json; every clause's source is listed in the header of "
        "spec/ResetScanContract.tla",
        "full tcp-lines stack in memory: only asyncio.open_connection is replaced; TCPLinesTransport, ECU, UDSClient, "
        "TCPUDSServerTransport.handle_client and a UDSServer subclass are gallia code; virtual-time loop",
        "NO power supply: power_supply=None, ECU.power_cycle() returns False, --power-cycle cannot be configured (the "
        "config class refuses it without a power supply); an unanswered probe therefore ends the scan ('ECU did not "
        "respond ..; exit') and the 'timeout' list of a finished scan is always empty -- the clause on it is checked "
        "but only the design layer's negative control devTimeout exercises its violation",
        "ECU models: every session of the model can be entered from every session; answers to ECUReset depend on "
        "(ground-truth session, sub-function) only; after a positive reset response the ECU drops requests for `down` "
        "ms (no late answers), optionally closes the connection (FIN or RST) and refuses new ones for `refuse` ms, "
        "optionally falls back to the default session; no spontaneous session loss; the inactivity reset of gallia's "
        "server transport (10 s wall clock) is switched off",
        "negative answers: not-supported family {0x11,0x7F,0x12,0x7E}, others from {0x22,0x33,0x31,0x13,0x10,0x24,0x72}; "
        "no busy/pending answers (C04), no malformed or mismatching replies (statement silent: counted as a found "
        "reset level by the code)",
        "the session read 22 F1 86 is answered or rejected with requestOutOfRange; other NRCs (check_and_set_session "
        "raises, X01) are not generated",
        "ECUReset 0x01 is also the scanner's tool (restore default conditions, leave_session): requests 11 01 are "
        "exempt from the in-session and the skip-probing clauses; its report entries are judged",
        "silences of 8 s or more, connection refusals of 8 s or more and unanswered requests of an ECU that is up "
        "leave the way the scan ends open (counted in `unspecified`); everything observed before is still judged",
        "database logging, --ecu-reset, --oem, artifacts dir are left at their defaults / off",
        "importlib.metadata.entry_points is memoised in the harness process (speed only)",
        "the report is read from the result-tagged records matching /ok: [..]/, /timeout: [..]/, /with error: [..]/; "
        "if they are not understood the check fails as machinery (exit 2), never as a verdict",
    ]
    pool = _pool()
    try:
        return _run(rep, tier, seed, pool)
    finally:
        pool.terminate()


def _run(rep: Report, tier: str, seed: int, pool: Any) -> Report:
    # ---- 1. design layer against the contract, negative controls, action coverage (in the background)
    mc = _mc_start(tier)
    # ---- 2. real executions over the enumerated / seeded families
    cases = build_cases(tier, seed)
    # ---- 3. spec -> code
    proj: dict[int, Any] = {}
    for case, p in _spec_to_code(rep, tier, seed):
        proj[len(cases)] = p
        cases.append(case)
    seen: set[str] = set()
    uniq: list[dict[str, Any]] = []
    uproj: dict[int, Any] = {}
    for i, c in enumerate(cases):
        d = _digest(c)
        if d in seen and i not in proj:
            continue
        seen.add(d)
        if i in proj:
            uproj[len(uniq)] = proj[i]
        uniq.append(c)
    traces = pool.map(run_case, uniq, chunksize=2)
    _mc_finish(rep, mc)
    for i, t in enumerate(traces):
        t["id"] = i
        _check_log(t)
    drift = 0
    for i, p in uproj.items():
        d = _drift(traces[i], p)
        if d is not None:
            drift += 1
            d["cfg"] = uniq[i]["cfg"]
            d["ecu"] = {k: v for k, v in uniq[i]["ecu"].items()}
            rep.drift.append(d)
    rep.extra["spec_to_code_replayed"] = len(uproj)
    rep.extra["spec_to_code_drift"] = drift
    # ---- 4. code -> spec: TLC validates every execution
    verdicts, unspec = _validate(traces, rep)
    rep.traces = len(traces)
    rep.evaluations = len(traces)
    origins: dict[str, int] = {}
    for i, t in enumerate(traces):
        origins[t["origin"]] = origins.get(t["origin"], 0) + 1
        if _nontrivial(t):
            rep.nontrivial.add(_digest(uniq[i]))
        v = verdicts[i]
        if v.startswith("M0/"):
            raise Machinery(f"fake ECU inconsistent with its own model in case {i} ({t['origin']}): "
                            f"{json.dumps(uniq[i]['cfg'])}")
        if v != "ok":
            rep.violate(v, _sig(t, uniq[i]), {"case": uniq[i], "done": t["done"], "origin": t["origin"],
                                              "reports": [e for e in t["ev"] if e["k"] != "q"],
                                              "last_requests": [e for e in t["ev"] if e["k"] == "q"][-8:]})
    rep.extra["origins"] = origins
    rep.extra["unspecified"] = {"executions whose ending the sources leave open (ECU silent / refusing for 8 s or more, "
                                "or not answering although up)": sum(unspec.values())}
    rep.extra["scan_exit"] = {k: sum(1 for t in traces if t["done"] == k) for k in sorted({t["done"] for t in traces})}
    rep.extra["positive_resets_survived"] = sum(1 for t in traces for e in t["ev"]
                                                if e["k"] == "q" and e["p"][0] == 0x11 and e["r"] == POS)
    for i in (0, len(traces) // 3, 2 * len(traces) // 3, len(traces) - 1):
        t = traces[i]
        rep.sample({"cfg": uniq[i]["cfg"], "ecu_env": {k: uniq[i]["ecu"][k] for k in ("down", "drop", "refuse", "fallback")},
                    "requests_at_ecu": sum(1 for e in t["ev"] if e["k"] == "q"), "done": t["done"],
                    "reports": [e for e in t["ev"] if e["k"] != "q"][:6], "verdict": verdicts[i]})
    rep.exhaustive = tier == "thorough"
    rep.extra["design_layer_not_vacuous"] = ("every action of ResetScan is taken in MC_ResetScan_cov (TLC -coverage, "
                                             "counts in design_action_coverage)")
    rep.extra["exhaustive_spaces"] = (
        "every table of 2 sessions x sub-functions {0x01, X} x {not supported, other NRC, positive, silent} (256 tables) "
        "x 7 environments (silence none/short/long, FIN/RST, refusal short/long), X walking through 0x02..0x7F, "
        "concretised and scanned (quick: every 11th); session lists x skip maps x check on/off of harness/x06_cases.py "
        "fully crossed (quick: every 3rd); 16 environments x 4 session modes x check x fall-back (quick: every 2nd); "
        "everything else seeded samples")
    # ---- 5. binding self-tests
    _selftest(rep, traces, uniq, verdicts)
    return rep


def _selftest(rep: Report, traces: list[dict[str, Any]], cases: list[dict[str, Any]], verdicts: dict[int, str]) -> None:
    def clone(t: dict[str, Any]) -> dict[str, Any]:
        return json.loads(json.dumps(t))

    def is_reset(e: dict[str, Any]) -> bool:
        return e["k"] == "q" and e["p"][0] == 0x11

    base = next((t for i, t in enumerate(traces)
                 if verdicts[i] == "ok" and t["done"] == "ok" and t["C"]["has"] and not t["C"]["skipAll"]
                 and any(e["k"] == "ok" and [x for x in e["l"] if x != 1] for e in t["ev"])
                 and any(e["k"] == "err" and e["l"] for e in t["ev"])
                 and any(is_reset(e) and e["r"] == POS and 0 < e["d"] < 8000 for e in t["ev"])), None)
    if base is None and rep.violations:
        # the tree under test breaks the property so broadly that no execution qualifies: the violations are the result
        rep.extra["binding_selftest"] = "skipped: no accepted non-trivial execution on this tree (violations reported)"
        return
    if base is None:
        raise Machinery("no accepted non-trivial trace (session list, ok and error entries, a silent reboot) to run "
                        "the binding self-test on")
    muts: list[tuple[str, dict[str, Any], str]] = []
    a = clone(base)
    j = next(j for j, e in enumerate(a["ev"]) if e["k"] == "ok" and [x for x in e["l"] if x != 1])
    a["ev"][j]["l"] = a["ev"][j]["l"][:-1]
    muts.append(("ok entry removed", a, "R3/answered-positively-but-not-ok"))
    b = clone(base)
    j = next(j for j, e in enumerate(b["ev"]) if e["k"] == "ok")
    ns = next(e["p"][1] for e in reversed(b["ev"][:j]) if is_reset(e) and e["r"] == 0 and e["p"][1] != 1)
    b["ev"][j]["l"].append(ns)
    muts.append(("bogus ok entry", b, "R3/ok-but-not-answered-positively"))
    c = clone(base)
    j = next(j for j, e in enumerate(c["ev"]) if e["k"] == "err" and e["l"])
    c["ev"][j]["l"][0][1] ^= 0x01
    muts.append(("NRC of an error entry changed", c, "R3/error-entry-not-answered-so"))
    d = clone(base)
    j = next(j for j, e in enumerate(d["ev"]) if is_reset(e) and e["p"][1] not in (1,) and e["w"] == 0)
    d["ev"][j]["t"] = 7
    muts.append(("probe moved to another ground-truth session", d, "M0/"))
    d2 = clone(base)
    row1 = next(row for s, row in d2["E"]["tab"] if s == 1)
    j = next(j for j, e in enumerate(d2["ev"]) if is_reset(e) and e["p"][1] != 1 and e["r"] == 0 and e["t"] != 1
             and e["w"] == 0 and row1[e["p"][1] - 1] // 256 == 0)
    d2["ev"][j]["t"] = 1  # the ECU was in its default session when this probe arrived (answer as the model says there)
    d2["ev"][j]["c"] = row1[d2["ev"][j]["p"][1] - 1] % 256
    muts.append(("probe answered in the default session instead of the claimed one", d2, "R2/"))
    e_ = clone(base)
    sfx = next(e["p"][1] for e in e_["ev"] if is_reset(e) and e["p"][1] != 1 and e["r"] == 0)
    e_["ev"] = [e for e in e_["ev"] if not (is_reset(e) and e["p"][1] == sfx)]
    muts.append(("probes of one sub-function deleted", e_, "R1/sub-function-not-probed"))
    f = clone(base)
    j = next(j for j, e in enumerate(f["ev"]) if is_reset(e) and e["r"] == POS and 0 < e["d"] < 8000)
    k = next(k for k in range(j + 1, len(f["ev"])) if f["ev"][k]["k"] == "q" and f["ev"][k]["p"][0] != 0x3E)
    f["ev"] = f["ev"][:j + 1] + f["ev"][k:]
    muts.append(("pings after a positive reset deleted", f, "R6/"))
    g = clone(base)
    sfy = next(e["p"][1] for e in g["ev"] if is_reset(e) and e["p"][1] != 1)
    s0 = g["C"]["req"][0]
    g["C"]["skip"] = g["C"]["skip"] + [[s, sfy] for s in g["C"]["req"]]
    muts.append(("probed sub-function declared skipped", g, "R4/"))
    h = clone(base)
    h["done"] = "hang"
    muts.append(("scan never ended", h, "T0/"))
    h2 = clone(base)
    h2["done"] = "exc:ConnectionRefusedError"
    muts.append(("scan died", h2, "R0/"))
    # mutant of the harness's own fake: TLC must notice that the fake left its model (M0)
    mc = next(c for c in cases if c["origin"] == "environments" and c["den"]["sessions"] is None)
    muts.append(("fake ECU answers positively outside its model",
                 run_case(mc, mutant="fake-answers-positive-outside-model"), "M0/"))
    for n, (_, t, _) in enumerate(muts):
        t["id"] = n
    v, _u = _validate([t for _, t, _ in muts], None)
    got = {name: v[n] for n, (name, _, _) in enumerate(muts)}
    wrong = [name for n, (name, _, want) in enumerate(muts) if not v[n].startswith(want)]
    if wrong:
        raise Machinery(f"binding self-test: corrupted traces / fake mutant not rejected as expected: {wrong}: {got}")
    rep.extra["binding_selftest"] = got


def replay(path: str) -> int:
    setup_logging_once()
    data = json.loads(open(path).read())
    bad = 0
    traces = []
    for n, v in enumerate(data["violations"]):
        case = v["detail"].get("case")
        if case is None:
            print(f"replay: violation {n} ({v['clause']}) is a design-layer counterexample: re-run ./check X06")
            bad += 1
            continue
        t = run_case(case)
        t["id"] = len(traces)
        traces.append(t)
    if traces:
        verdicts, _ = _validate(traces, None)
        for t in traces:
            print(f"replay origin={t['origin']} done={t['done']} verdict={verdicts[t['id']]}")
            bad += verdicts[t["id"]] != "ok"
    if bad:
        print(f"VIOLATION property=X06 replay={path}")
        return 1
    return 0
