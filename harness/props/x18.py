"""X18 (growth) — the interactive log viewer `cursed-hr` (gallia.cli.cursed_hr.CursedHR) shows, after every key,
a contiguous piece of exactly the qualifying records, moves as its help screen says and never dies
(statement: /verif/growth/X18.json).

spec   : spec/CursedHrContract.tla (clauses Z0-Z3 V0-V4 M1-M7 H1 C, sources in its header),
         spec/CursedHr.tla (design: handle_io's state, one action per key command, calculate_display_entries /
         line_up / page_up / fill-up loop / update_zones transcribed; 7 deviation constants for defects found on the
         current tree (F1-F6, F8; F7 = resize inside the filter input is not modelled) + 2 controls for the contract)
MC     : MC_CursedHr_{all3,nav4,cfg3}[deep] (every key sequence up to the depth bound on all logs of 3 records /
         12 logs of 4 records) + 9 negative controls MC_CursedHr_dev*; MC_CursedHrSim (behaviours for the replay)
known  : findings/X18-F1..F8 (each with a diff); until the diffs are applied the matching sessions are counted and
         printed as KNOWN-FINDING (patterns: harness/x18_known.json), everything else fails the check
binding: the REAL class on a fake `curses` (harness/x18_fake.py, behaviour measured against ncurses on a pty with
         harness/x18_pty.py), on log files written by gallia's own writer (harness.c17_penlog.write_log).
         code -> spec: every session (keys + what the user saw after every key, named by the harness's ground truth)
         is validated by Trace_CursedHr (TLC decides); spec -> code: behaviours simulated by TLC from the design are
         replayed key by key into the real viewer, screens compared (disagreement without a broken clause = DRIFT).
"""

from __future__ import annotations

import json
import multiprocessing as mp
import os
import random
from concurrent.futures import ThreadPoolExecutor
from pathlib import Path
from typing import Any

from harness import tlc
from harness.common import Machinery, Report, quiet_gallia_logging

NEG = {
    "devF1": {"Inv_M_Motion", "Inv_Z_NoCrash", "Inv_V_Screen"},
    "devF2": {"Inv_Z_NoCrash"}, "devF3": {"Inv_Z_NoCrash"}, "devF4": {"Inv_Z_NoCrash"}, "devF5": {"Inv_Z_NoCrash"},
    "devF6": {"Inv_Z_NoCrash"}, "devF8": {"Inv_Z_NoCrash"}, "devC1": {"Inv_C_Config", "Inv_V_Screen"}, "devM1": {"Inv_M_Motion"},
}
DESIGN = {"quick": ["all3", "nav4", "cfg3"], "thorough": ["all3deep", "nav4deep", "cfg3deep"]}
ACTIONS = {"KUp": "up", "KDown": "down", "KPageUp": "ppage", "KPageDown": "npage", "KHome": "home", "KEnd": "end",
           "KLeft": "left", "KCosmetic": "x", "KEsc": "esc", "KMark": "mark", "KFilePrio": "P", "KRangePrio": "p",
           "KLevel": "lvl", "KUndo": "undo", "KRedo": "redo", "KInterpret": "interp", "KFilter": "f", "KType": "ch",
           "KEnter": "enter", "KHelp": "help", "KQuit": "quit", "KResize": "resize"}
NPROC = max(2, min(8, (os.cpu_count() or 4) // 2))
JOPT = {"JAVA_TOOL_OPTIONS": "-XX:TieredStopAtLevel=1 -XX:ParallelGCThreads=2"}
KNOWN_FILE = Path(__file__).resolve().parent.parent / "x18_known.json"


# ------------------------------------------------------------------ real sessions (worker processes)
def _init_worker() -> None:
    quiet_gallia_logging()


def _work(arg: tuple[int, dict[str, Any]]) -> tuple[int, Any]:
    from harness import x18_jobs as J

    i, job = arg
    try:
        return i, J.run_job(job)
    except Machinery as e:
        return i, {"machinery": str(e)}


def _slim(r: dict[str, Any]) -> dict[str, Any]:
    return {k: r[k] for k in ("id", "log", "prio0", "filt0", "keys", "obs", "how", "restored")}


def _validate(recs: list[dict[str, Any]], rep: Report | None, chunk: int = 700) -> dict[int, tuple[str, int, int]]:
    jobs = [recs[o:o + chunk] for o in range(0, len(recs), chunk)]

    def one(sub: list[dict[str, Any]]) -> Any:
        return tlc.validate_batch("Trace_CursedHr", "Trace_CursedHr.cfg", {"traces": [_slim(r) for r in sub]},
                                  timeout=1800, workers=1, heap="3g", env={"JAVA_TOOL_OPTIONS": "-Xss64m"})

    with ThreadPoolExecutor(max_workers=5) as ex:
        results = list(ex.map(one, jobs))
    verdicts: dict[int, tuple[str, int, int]] = {}
    for res in results:
        if rep is not None:
            rep.add_tlc(res, "Trace_CursedHr batch")
        for p in res.prints:
            if isinstance(p, list) and len(p) == 5 and p[0] == "V":
                verdicts[p[1]] = (p[2], p[3], p[4])
    missing = [r["id"] for r in recs if r["id"] not in verdicts]
    if missing:
        raise Machinery(f"TLC produced no verdict for {len(missing)} sessions (first id {missing[0]}):\n" + results[-1].out[-2500:])
    return verdicts


# ------------------------------------------------------------------ signatures (facts of the case, no judging)
def _sig(r: dict[str, Any], clause: str, j: int) -> dict[str, Any]:
    keys = r["keys"]
    last = keys[j - 1]["t"] if 0 < j <= len(keys) else ("start" if not keys else keys[-1]["t"])
    if clause.startswith("Z0"):
        # the key being handled when the viewer died = the last one it consumed
        last = keys[-1]["t"] if keys else "start"
    before = [k["t"] for k in keys[: max(0, (j if not clause.startswith("Z0") else len(keys)) - 1)]]
    mode = "main"
    for t in before:
        if mode == "main":
            mode = {"help": "help", "f": "filter", "P": "pend", "p": "pend"}.get(t, "main")
        elif mode == "help":
            mode = "main" if t in ("quit", "esc") else "help"
        elif mode == "filter":
            mode = "main" if t in ("enter", "esc") else "filter"
        else:
            mode = "main" if t in ("lvl", "esc") else "pend"
    sig: dict[str, Any] = {"last": last, "mode": mode,
                           "hidden_possible": any(x["prio"] > r["prio0"] for x in r["log"])
                           or any(t in ("lvl", "enter") for t in before + [last]),
                           "multiline": any(len(x["lens"]) > 1 or any(n > 60 for n in x["lens"]) for x in r["log"])}
    if clause.startswith("Z0"):
        used = r["end"].get("keys_used", 0)
        sig["resize"] = bool(used) and isinstance(r["script"][used - 1]["key"], dict)
        sig["exc"] = r["end"].get("exc", "")
        sig["func"] = r["end"].get("func", "")
        w = r["obs"][-1]["w"] if r["obs"] else r["size"][1]
        sig["narrow"] = w < 111
        if mode == "filter":
            typed = 0
            for t in reversed(before + [last]):
                if t != "ch":
                    break
                typed += 1
            sig["input_reaches_margin"] = typed >= w - 1
        if sig["func"] == "check_filter":
            sig["raising_filter"] = True
    return sig


def _detail(r: dict[str, Any], j: int) -> dict[str, Any]:
    return {"family": r["fam"], "spec": r["spec"], "size": r["size"], "opts": r.get("opts", {}),
            "script": r["script"], "failed_after_keys": j, "end": r["end"],
            "keys": [k["key"] if isinstance(k["key"], str) else k["key"] for k in r["script"]][: max(j, r["end"].get("keys_used", 0))],
            "screen_before": r["obs"][j - 1] if 0 < j <= len(r["obs"]) else None,
            "screen_after": r["obs"][j] if j < len(r["obs"]) else None}


def _load_known() -> list[dict[str, Any]]:
    if not KNOWN_FILE.exists():
        return []
    return json.loads(KNOWN_FILE.read_text()).get("findings", [])


def _match(sig: dict[str, Any], pat: dict[str, Any]) -> bool:
    for k, v in pat.items():
        if k not in sig:
            return False
        if isinstance(v, list):
            if sig[k] not in v:
                return False
        elif sig[k] != v:
            return False
    return True


# ------------------------------------------------------------------ design layer
def _design_cfgs(tier: str) -> list[str]:
    return DESIGN[tier]


def _run_design(name: str) -> Any:
    return tlc.run_tlc("MC_CursedHr", f"MC_CursedHr_{name}.cfg", workers=3, timeout=1500, parse_prints=False, heap="3g")


def _run_neg(name: str) -> Any:
    return tlc.run_tlc("MC_CursedHr", f"MC_CursedHr_{name}.cfg", workers=1, timeout=900, env=JOPT, parse_prints=False)


# ------------------------------------------------------------------ run
def run(tier: str, seed: int) -> Report:
    quiet_gallia_logging()
    from harness import x18_jobs as J

    rep = Report("X18", tier, seed)
    rep.rule = ("execution = one session of the real CursedHR on one log file, one terminal size and one key script, "
                "observed after every key; distinct = distinct (log, size, options, key script); non-trivial = TLC judged "
                ">= 3 screens of the session with the configuration known (i.e. not just start / quit, not a session that "
                "is unspecified from its first keys)")
    rep.assumptions = [
        "growth item, not a listed property; the statement is /verif/growth/X18.json, the source of every clause is in the "
        "header of spec/CursedHrContract.tla",
        "the terminal is harness/x18_fake.py: addstr / move / getkey / getsyx / resize behave as measured on the real ncurses "
        "binding on a pseudo-terminal (write into the lower right corner fails, newline on the last line fails, NUL raises "
        "ValueError, KEY_RESIZE + clamped cursor); one column per character (the logs hold narrow letters only: wide and "
        "combining characters, control characters other than newline are left out), colours are numbers",
        "CursedHR.debug_log is stubbed (it appends to the fixed path /tmp/cursed_log)",
        "ground truth = what the harness logged through gallia's writer (priority, tags, message lines; every message "
        "character unique per log, so a piece of text on the screen names record, line and offset); which records a filter "
        "passes is computed by the harness from that ground truth for a fixed table of filter texts",
        "terminal sizes: 4..50 lines, 80..160 columns in the judged families (the widest prefix is < 60 columns); narrower "
        "terminals are exercised for crashes only in the thorough tier and reported as observations, not violations",
        "a session ends when the scripted user stops typing (EndOfScript raised from getkey) or presses q; a key that needs "
        "more than 20 s of CPU time counts as a hang",
        "interpretation of UDS payloads (key i) is exercised only as a configuration change: the logs hold no hex payloads",
    ]
    ctx = mp.get_context("fork")
    pool = ctx.Pool(NPROC, initializer=_init_worker)  # forked BEFORE any thread exists in this process
    try:
        jobs = J.build_jobs(tier, seed)
        order = sorted(range(len(jobs)), key=lambda i: -sum(len(s["script"]) for s in jobs[i]["sessions"]))
        pending = pool.imap_unordered(_work, [(i, jobs[i]) for i in order], chunksize=1)
        with ThreadPoolExecutor(max_workers=6) as ex:
            f_sim = ex.submit(tlc.simulate_behaviours, "MC_CursedHrSim", "MC_CursedHrSim.cfg",
                              num=60 if tier == "quick" else 700, depth=14 if tier == "quick" else 22, seed=seed + 1)
            f_design = [ex.submit(_run_design, n) for n in _design_cfgs(tier)]
            f_neg = {n: ex.submit(_run_neg, n) for n in NEG}
            out: dict[int, Any] = {}
            for i, res in pending:
                out[i] = res
            _, behs = f_sim.result()
            sim_jobs = J.sim_jobs(behs)
            base = len(jobs)
            for i, res in pool.imap_unordered(_work, [(base + k, sj) for k, sj in enumerate(sim_jobs)], chunksize=1):
                out[i] = res
            jobs = jobs + sim_jobs
            # ---- 1. design layer, negative controls
            for n, f in zip(_design_cfgs(tier), f_design):
                res = f.result()
                rep.add_tlc(res, f"MC_CursedHr_{n}")
                if not res.ok:
                    rep.violate(f"design/{res.violated}", {"where": f"CursedHr design layer ({n})"},
                                {"cex": res.cex[-10:], "out": res.out[-1500:]})
            taken = {st["lastkey"]["t"] for b in behs for _a, st in b[1:] if isinstance(st.get("lastkey"), dict)}
            # KCosmetic (x: reflow) has no counterpart in the short-line logs of the replay; it is taken in MC_CursedHr_devF8
            never = [a for a, t in ACTIONS.items() if t not in taken and a != "KCosmetic"]
            if never:
                raise Machinery(f"MC_CursedHrSim: design actions never taken in the simulated behaviours: {never}")
            rep.extra["design_layer_not_vacuous"] = (f"every action of CursedHr is taken ({len(ACTIONS)} actions; from the history "
                                                     "variable `lastkey` of the simulated behaviours; TLC's -coverage runs out of "
                                                     "memory on the recursive operators)")
            for n, f in f_neg.items():
                res = f.result()
                rep.add_tlc(res, f"MC_CursedHr_{n} (negative control)")
                if res.violated not in NEG[n]:
                    raise Machinery(f"negative control MC_CursedHr_{n} did not violate {sorted(NEG[n])} (got {res.violated})")
            rep.extra["negative_controls"] = sorted(NEG)
    finally:
        pool.close()
        pool.join()
    recs: list[dict[str, Any]] = []
    for i in range(len(jobs)):
        if isinstance(out[i], dict) and "machinery" in out[i]:
            raise Machinery(out[i]["machinery"])
        recs += out[i]
    for n, r in enumerate(recs):
        r["id"] = n
    # ---- 2. code -> spec
    verdicts = _validate(recs, rep)
    rep.traces = rep.evaluations = len(recs)
    known = _load_known()
    hit: dict[str, int] = {}
    fams: dict[str, int] = {}
    unspec = 0
    judged_screens = 0
    ends: dict[str, int] = {}
    for r in recs:
        fams[r["fam"]] = fams.get(r["fam"], 0) + 1
        ends[r["how"]] = ends.get(r["how"], 0) + 1
        v, judged, j = verdicts[r["id"]]
        judged_screens += judged
        if judged >= 3:
            rep.nontrivial.add(json.dumps([r["spec"], r["size"], r.get("opts"), [k["key"] for k in r["script"]]], sort_keys=True, default=str))
        if v == "ok-unspecified":
            unspec += 1
        elif v != "ok":
            sig = _sig(r, v, j)
            if r["fam"] == "narrow":
                rep.extra.setdefault("observed_on_narrow_terminals_not_judged", {}).setdefault(
                    f"{v} {sig.get('exc', '')} {sig.get('func', '')}".strip(), 0)
                rep.extra["observed_on_narrow_terminals_not_judged"][f"{v} {sig.get('exc', '')} {sig.get('func', '')}".strip()] += 1
                continue
            s2 = dict(sig, clause=v)
            for f in known:
                if _match(s2, f["match"]):
                    hit[f["id"]] = hit.get(f["id"], 0) + 1
                    if hit[f["id"]] == 1:
                        rep.extra.setdefault("x18_known_finding_examples", {})[f["id"]] = {
                            "clause": v, "sig": sig, "keys": _detail(r, j)["keys"], "size": r["size"], "spec": r["spec"]}
                    break
            else:
                rep.violate(v, sig, _detail(r, j))
    said: set[str] = set()
    for f in known:
        if f["id"] in said:
            continue
        said.add(f["id"])
        if f["id"] in hit:
            print(f"KNOWN-FINDING: property=X18 {f['id']}: {f['what']} ({hit[f['id']]} sessions this run; {f.get('finding', '')})")
        else:
            print(f"NOTE: X18 known finding {f['id']} was not hit in this run (fixed? then remove it from harness/x18_known.json)")
    rep.extra["x18_known_findings_hit"] = hit
    rep.extra["sessions_by_family"] = fams
    rep.extra["sessions_by_end"] = ends
    rep.extra["screens_judged_by_tlc"] = judged_screens
    rep.extra["unspecified"] = {"sessions that left the documented ground (crash / hang / terminal clauses still judged)": unspec}
    rep.extra["not_demanded"] = [
        "where the view stands after a change of priority / filter / undo / redo / resize / x / t / i (only: the screen is "
        "a contiguous piece of the qualifying records)", "the cursor column, the status line, colours, highlighting of a "
        "marked range, the layout of the help", "the range p acts on when mark and cursor are on the same record (the code "
        "widens it to the neighbouring visible records), p without a fresh mark, keys other than a level key / ESC after "
        "p / P, editing keys in the filter input, a filter whose evaluation raises on some record (only: no crash)",
        "terminals narrower than 80 columns",
    ]
    # ---- 3. spec -> code
    _drift(rep, recs, verdicts)
    for r in (recs[0], recs[len(recs) // 3], recs[len(recs) // 2], recs[-1]):
        v, judged, j = verdicts[r["id"]]
        rep.sample({"family": r["fam"], "size": r["size"], "keys": [k["key"] for k in r["script"]][:30], "how": r["how"],
                    "verdict": v, "screens_judged": judged,
                    "last_screen": r["obs"][-1] if r["obs"] else None})
    rep.exhaustive = True
    rep.extra["exhaustive_spaces"] = J.EXHAUSTIVE_NOTE[tier]
    _selftest(rep, recs, verdicts)
    return rep


# ------------------------------------------------------------------ spec -> code comparison (drift only)
def _drift(rep: Report, recs: list[dict[str, Any]], verdicts: dict[int, tuple[str, int, int]]) -> None:
    n = steps = 0
    for r in recs:
        if r["fam"] != "sim":
            continue
        n += 1
        v = verdicts[r["id"]][0]
        for chk in r["design"]:
            k = chk["after_key"]  # index into the concrete script (1-based count of keys consumed)
            if k >= len(r["obs"]):
                break  # the real viewer ended earlier (a crash is a contract matter, reported above)
            o = r["obs"][k]
            steps += 1
            want = chk["want"]
            got = {"kind": o["kind"], "rows": [[x["r"], x["l"]] for x in o["rows"]], "cur": o["cur"]}
            if want["kind"] == "skip":
                continue
            if got["kind"] != want["kind"] or (want["kind"] == "log" and (got["rows"] != want["rows"] or got["cur"] != want["cur"])):
                if v in ("ok", "ok-unspecified"):
                    rep.drift.append({"what": "screen after key", "keys": [x["key"] for x in r["script"]][:k], "size": r["size"],
                                      "spec": r["spec"], "design": want, "code": got})
                break
    if n == 0 or steps == 0:
        raise Machinery("spec->code: no simulated behaviour was replayed")
    rep.extra["spec_to_code_replayed"] = {"behaviours": n, "design_states_compared": steps}
    rep.extra["spec_to_code_drift"] = len(rep.drift)


# ------------------------------------------------------------------ binding self-test
def _selftest(rep: Report, recs: list[dict[str, Any]], verdicts: dict[int, tuple[str, int, int]]) -> None:
    from harness import x18_jobs as J

    def clone(r: dict[str, Any]) -> dict[str, Any]:
        return json.loads(json.dumps(r, default=str))

    def pick(pred: Any) -> dict[str, Any] | None:
        for r in recs:
            if verdicts[r["id"]][0] == "ok" and pred(r):
                return clone(r)
        return None

    muts: list[tuple[str, dict[str, Any], str]] = []
    skipped: list[str] = []

    def add(name: str, base: dict[str, Any] | None, fn: Any, want: str) -> None:
        if base is None:
            skipped.append(name)
            return
        fn(base)
        muts.append((name, base, want))

    def big(r: dict[str, Any]) -> int | None:
        for i, o in enumerate(r["obs"]):
            if o["kind"] == "log" and len(o["rows"]) >= 3 and i >= 1:
                return i
        return None

    def drop_row(r: dict[str, Any]) -> None:
        i = big(r)
        del r["obs"][i]["rows"][1]

    add("a line dropped from the middle of a screen", pick(lambda r: big(r) is not None and verdicts[r["id"]][1] >= 3),
        drop_row, "V2/")
    add("session said to have crashed", pick(lambda r: True), lambda r: r.update(how="crash"), "Z0/crash")
    add("terminal not given back", pick(lambda r: True), lambda r: r.update(restored=False), "Z3/")

    def hide(r: dict[str, Any]) -> None:
        i = big(r)
        rec = r["obs"][i]["rows"][0]["r"]
        r["log"][rec - 1]["prio"] = 9

    add("a shown record made non-qualifying in the ground truth", pick(lambda r: big(r) is not None and verdicts[r["id"]][1] >= 3),
        hide, "V1/")

    def stuck(r: dict[str, Any]) -> None:
        for i, k in enumerate(r["keys"]):
            if k["t"] == "down" and i + 1 < len(r["obs"]) and r["obs"][i] != r["obs"][i + 1] and \
                    all(x["t"] in ("down", "up", "npage", "ppage", "home", "end") for x in r["keys"][: i + 1]):
                r["obs"][i + 1] = r["obs"][i]
                return
        raise Machinery("self-test: no moving arrow-down step in the picked session")

    def has_moving_down(r: dict[str, Any]) -> bool:
        for i, k in enumerate(r["keys"]):
            if not all(x["t"] in ("down", "up", "npage", "ppage", "home", "end") for x in r["keys"][: i + 1]):
                return False
            if k["t"] == "down" and i + 1 < len(r["obs"]) and r["obs"][i] != r["obs"][i + 1]:
                return True
        return False

    add("arrow down that moved nothing", pick(has_moving_down), stuck, "M2/")
    add("quit ignored", pick(lambda r: r["how"] == "quit"), lambda r: r.update(how="end"), "Z2/")
    # one mutant of the harness's own fake terminal: newlines are not honoured
    m = J.run_job(J.mutant_job())[0]
    muts.append(("fake terminal ignores newlines", clone(m), "V"))
    for n, (_, r, _) in enumerate(muts):
        r["id"] = n
    v = _validate([r for _, r, _ in muts], None)
    got = {name: v[n][0] for n, (name, _, _) in enumerate(muts)}
    wrong = [name for n, (name, _, want) in enumerate(muts) if not v[n][0].startswith(want)]
    if wrong:
        raise Machinery(f"binding self-test: corrupted sessions not rejected as expected: {wrong}: {got}")
    if skipped:
        if not rep.violations and not rep.extra.get("x18_known_findings_hit"):
            raise Machinery(f"binding self-test: no accepted base session for {skipped}")
        got["skipped (no accepted base session on this tree)"] = ", ".join(skipped)
    rep.extra["binding_selftest"] = got


# ------------------------------------------------------------------ replay
def replay(path: str) -> int:
    quiet_gallia_logging()
    from harness import x18_jobs as J

    data = json.loads(open(path).read())
    recs: list[dict[str, Any]] = []
    bad = 0
    for n, v in enumerate(data["violations"]):
        d = v["detail"]
        if "script" not in d:
            print(f"replay: violation {n} ({v['clause']}) is a design-layer counterexample: re-run ./check X18")
            bad += 1
            continue
        job = {"spec": d["spec"], "sessions": [{"script": d["script"], "size": d["size"], "fam": d["family"],
                                                "opts": d.get("opts", {})}]}
        for r in J.run_job(job):
            r["id"] = len(recs)
            recs.append(r)
    if recs:
        verdicts = _validate(recs, None)
        for r in recs:
            vv, _, j = verdicts[r["id"]]
            print(f"replay family={r['fam']} size={r['size']} keys={len(r['script'])} how={r['how']} verdict={vv} after_key={j}")
            bad += vv not in ("ok", "ok-unspecified")
    if bad:
        print(f"VIOLATION property=X18 replay={path}")
        return 1
    return 0
