"""X12 (growth, not a listed property) — part 1: the HSFZ discovery scanner `discover hsfz` reports what the gateway
shows; part 2: what UDSScanner.setup() / teardown() promise around every UDS scanner's main().

spec   : spec/HsfzDiscoverContract.tla (P1..P3 probing, F1/F2 found, U1 URIs, T0), spec/HsfzDiscover.tla (design: one
         action per await point of main()/probe()/_probe(); deviations Dev_S1..S3), spec/MC_HsfzDiscover_*.cfg,
         spec/Trace_HsfzDiscover.tla;
         spec/UdsScannerSetupContract.tla (D1, L1/L2, R1, G1..G3, H1..H3), spec/UdsScannerSetup.tla (design: setup steps,
         cyclic tester-present timer, main, teardown steps; deviations Dev_S4, Dev_NoTeardownAfterFailingMain,
         Dev_TpNotStopped), spec/MC_UdsScannerSetup_*.cfg, spec/Trace_UdsScannerSetup.tla.
binding: part 1 - the REAL HSFZDiscoverer.main() (real HSFZConnection underneath) against the model-driven gateway fake
         of harness/x12_gw.py (codec of harness/c07_hsfz.py) on in-memory streams under virtual time;
         part 2 - a trivial UDSScanner subclass run through the REAL AsyncScript.run() over the in-memory tcp-lines
         stack of harness/c10_stack.py with the real DBHandler on a synchronous sqlite3 connection (harness/x12_setup.py).
         code -> spec: every execution is validated by TLC (total verdict per execution);
         spec -> code: the environments TLC enumerates for the design layers (behaviour assignments x --reversed;
         configuration x ECU x main plan) are replayed into the real code, disagreement with the design's outcome = drift.
"""

from __future__ import annotations

import itertools
import json
import random
from concurrent.futures import ThreadPoolExecutor
from typing import Any

from harness import tlc
from harness.common import Machinery, Report, quiet_gallia_logging
from harness.x12_gw import BEHAVIOURS, run_scan
from harness.x12_setup import run_case
from harness.x12_setup import to_trace as setup_trace

TESTER = 0xF4
DESIGN_BEH = ["silent", "ackonly", "pos", "neg", "pos300", "pos800", "ack300pos", "lateack", "err43", "ackerr43", "close",
              "ack_close", "pos_close", "neg_close", "pos_err", "pospos", "odd", "odd_pos", "far", "far_pos"]   # = BehAll
EXTRA_BEH = [b for b in BEHAVIOURS if b not in DESIGN_BEH]   # err40 errff ackerr45 reset pos_reset oddsub short
DROP_AFTER_ANSWER = {"pos_close", "neg_close", "pos_reset", "pos_err"}
ODD_BEH = {"odd", "oddsub", "short", "odd_pos"}
ANSWERING = {"pos", "neg", "pos300", "ack300pos", "pospos", "far_pos", "odd_pos"} | DROP_AFTER_ANSWER


# ====================================================================== part 1: discover hsfz
def scan_of(start: int, stop: int, *, host: str = "127.0.0.1", port: int = 6801, tester: int = TESTER,
            reversed_: bool = False, timeout: float = 0.5) -> dict[str, Any]:
    return {"host": host, "port": port, "tester": tester, "start": start, "stop": stop, "reversed": reversed_,
            "timeout": timeout}


def beh_model(names: tuple[str, ...] | list[str], first: int = 16, **kw: Any) -> dict[str, Any]:
    return {"beh": {str(first + i): n for i, n in enumerate(names)}, **kw}


def hsfz_trace(r: dict[str, Any]) -> dict[str, Any]:
    return {"cfg": r["scan"],
            "probes": [{k: p[k] for k in ("src", "dst", "d", "ack", "ackdt", "anss")} for p in r["probes"]],
            "file": r["file"], "db": r["db"], "done": r["done"]}


def hsfz_sig(case: dict[str, Any]) -> dict[str, Any]:
    """Input class of the failing case (never a judgement): which ingredients the gateway model / scan contain."""
    m, s = case["model"], case["scan"]
    behs = set(m.get("beh", {}).values()) | ({m["default"]} if "default" in m else set())
    host = s["host"]
    return {"part": "hsfz-discover", "reversed": bool(s.get("reversed")),
            "drop_after_answer_in_play": bool(behs & DROP_AFTER_ANSWER) or (bool(m.get("drop_every")) and bool(behs & ANSWERING)),
            "odd_answer_in_play": bool(behs & ODD_BEH),
            "host": "ipv6" if ":" in host else ("ipv4" if host.replace(".", "").isdigit() else "name")}


class Cases:
    def __init__(self) -> None:
        self.items: list[dict[str, Any]] = []
        self.seen: set[str] = set()

    def add(self, family: str, model: dict[str, Any], scan: dict[str, Any]) -> dict[str, Any] | None:
        key = json.dumps([model, scan], sort_keys=True)
        if key in self.seen:
            return None
        self.seen.add(key)
        c = {"family": family, "model": model, "scan": scan, "res": run_scan(model, scan)}
        self.items.append(c)
        return c


def hsfz_families(cases: Cases, tier: str, rnd: random.Random) -> None:
    thorough = tier == "thorough"
    cases.add("baseline", beh_model(("pos", "silent", "neg", "err43")), scan_of(16, 19))      # items[0]: self-test base
    # ---- behaviours outside the design's alphabet, mixed with plain ones, every assignment, both directions
    pool = ["pos", "silent"] + EXTRA_BEH
    for beh in itertools.product(pool, repeat=2):
        if set(beh) & set(EXTRA_BEH):
            for rev in (False, True):
                cases.add("sweep-extra", beh_model(beh), scan_of(16, 17, reversed_=rev))
    # ---- the gateway hangs up after every k-th probe it handled
    kpool = ["pos", "neg", "silent", "ackonly", "err43", "pos300"] if thorough else ["pos", "silent", "err43", "pos300"]
    for k in (1, 2, 3):
        for beh in itertools.product(kpool, repeat=3):
            cases.add("sweep-drop-every-k", beh_model(beh, drop_every=k), scan_of(16, 18))
    # ---- alive check requests at every position of canonical sweeps (before the ack / between ack and answer)
    canon = [("pos", "neg", "pos"), ("pos", "silent", "pos300"), ("err43", "pos", "ackonly"), ("neg", "close", "pos")]
    for beh in canon:
        for n in (1, 2, 3):
            cases.add("sweep-alive", beh_model(beh, alive=[n]), scan_of(16, 18))
            cases.add("sweep-alive", beh_model(beh, alive_mid=[n]), scan_of(16, 18))
        cases.add("sweep-alive", beh_model(beh, alive=[1, 2, 3], alive_mid=[1, 2, 3]), scan_of(16, 18, reversed_=True))
    # ---- request timeouts around the gateway's delays (0 / 300 / 800 ms)
    for tmo in (0.2, 0.5, 2.0):
        for beh in itertools.product(["pos", "pos300", "pos800", "ack300pos", "lateack", "silent"], repeat=2):
            cases.add("sweep-timeouts", beh_model(beh), scan_of(16, 17, timeout=tmo))
    # ---- hosts, ports, tester addresses, ranges at both ends of 8 bit, empty and single ranges, both directions
    hosts = ["127.0.0.1", "192.168.10.20", "gateway.local", "GW-7", "::1", "fe80::1ff:fe23:4567:890a"]
    ranges = [(0, 2), (0x10, 0x12), (0xFD, 0xFF), (5, 5), (5, 4)]
    for host in hosts:
        for (a, b) in ranges if thorough else ranges[:3]:
            for rev in (False, True):
                cases.add("uri", {"beh": {str(a): "pos", str(a + 1): "silent", str(b): "neg"}},
                          scan_of(a, b, host=host, reversed_=rev))
    for (a, b) in ranges:
        for tester, port in ((0xF4, 6801), (0x00, 1), (0xFF, 65535), (0xF1, 6802)):
            cases.add("uri", {"beh": {str(a): "pos", str(a + 1): "err43", str(b): "neg"}},
                      scan_of(a, b, tester=tester, port=port))
    # ---- the default range 0x00..0xFF with a seeded assignment of plainly specified behaviours
    plain = ["silent", "silent", "silent", "err43", "ackonly", "pos", "neg", "pos300", "pos800", "close", "far"]
    for i in range(4 if thorough else 1):
        beh = {str(a): rnd.choice(plain) for a in range(256)}
        cases.add("full-range", {"beh": beh}, scan_of(0, 0xFF, reversed_=bool(i % 2)))


HSFZ_NEG = (("devS1", "Inv_P1_EveryAddressProbed"), ("devS2", "Inv_F2_FoundComplete"), ("devS3", "Inv_T0_NoAbort"))
SETUP_NEG = (("devS4", "Inv_D1_DbFaultTolerated"), ("devNoTeardown", "Inv_G3_Stopped"), ("devTpNotStopped", "Inv_G3_Stopped"))


def start_tlc_jobs(tier: str, pool: ThreadPoolExecutor) -> dict[str, Any]:
    """All TLC runs on the design layers are independent of each other and of the executions: run them concurrently."""
    thorough = tier == "thorough"
    # quick: the export configurations carry every clause invariant and cover the quick state spaces, so they double as
    # model-checking runs (fewer JVM starts); thorough adds the larger instances
    hs_mc = [("a2", True)] + ([("c3", False), ("a3", False), ("s4", False)] if thorough else [])
    hs_exp = ["export2", "export3"] if thorough else ["export2core"]
    su_mc = [("cov", True)] + ([("full", False)] if thorough else [])
    jobs: dict[str, Any] = {}
    for c, cov in hs_mc:
        jobs["h:" + c] = pool.submit(tlc.run_tlc, "MC_HsfzDiscover", f"MC_HsfzDiscover_{c}.cfg", timeout=3000,
                                     coverage=cov, workers=2)
    for c, _inv in HSFZ_NEG:
        jobs["h:" + c] = pool.submit(tlc.run_tlc, "MC_HsfzDiscover", f"MC_HsfzDiscover_{c}.cfg", timeout=900, workers=1)
    for c in hs_exp:
        jobs["h:" + c] = pool.submit(tlc.run_tlc, "MC_HsfzDiscover", f"MC_HsfzDiscover_{c}.cfg", timeout=1800, workers=1)
    for c, cov in su_mc:
        jobs["s:" + c] = pool.submit(tlc.run_tlc, "MC_UdsScannerSetup", f"MC_UdsScannerSetup_{c}.cfg", timeout=3000,
                                     coverage=cov, workers=2)
    for c, _inv in SETUP_NEG:
        jobs["s:" + c] = pool.submit(tlc.run_tlc, "MC_UdsScannerSetup", f"MC_UdsScannerSetup_{c}.cfg", timeout=900, workers=1)
    jobs["s:export"] = pool.submit(tlc.run_tlc, "MC_UdsScannerSetup", "MC_UdsScannerSetup_export.cfg", timeout=1800, workers=1)
    return {"jobs": jobs, "hs_mc": hs_mc, "hs_exp": hs_exp, "su_mc": su_mc}


def model_check(rep: Report, tj: dict[str, Any]) -> None:
    for pre, module, mcs, negs in (("h:", "MC_HsfzDiscover", tj["hs_mc"], HSFZ_NEG),
                                   ("s:", "MC_UdsScannerSetup", tj["su_mc"], SETUP_NEG)):
        never: dict[str, bool] = {}
        for c, _cov in mcs:
            res = tj["jobs"][pre + c].result()
            rep.add_tlc(res, f"{module}_{c}")
            if not res.ok:
                rep.violate(f"design/{res.violated}", {"where": f"{module} design layer", "cfg": c}, {"cex": res.cex[-12:]})
            for a, (n, _d) in res.coverage.items():
                never[a] = never.get(a, True) and n == 0
        nv = sorted(a for a, z in never.items() if z)
        rep.extra[f"design_actions_never_taken_{module}"] = nv
        if nv or not never:
            raise Machinery(f"{module}: coverage missing or actions never taken: {nv}")
        for c, inv in negs:
            res = tj["jobs"][pre + c].result()
            rep.add_tlc(res, f"{module}_{c} (negative control)")
            if res.violated != inv:
                raise Machinery(f"negative control {module}_{c} did not violate {inv} (got {res.violated})")


def pyset(v: Any) -> list[Any]:
    return list(v["$set"]) if isinstance(v, dict) and "$set" in v else list(v)


def hsfz_spec_to_code(rep: Report, cases: Cases, tj: dict[str, Any]) -> None:
    """(behaviour assignment, --reversed) pairs enumerated by TLC for the design layer, replayed into the real scanner."""
    want: dict[tuple[tuple[str, ...], bool], set[tuple[int, ...]]] = {}
    for cfg in tj["hs_exp"]:
        res = tj["jobs"]["h:" + cfg].result()
        rep.add_tlc(res, f"MC_HsfzDiscover_{cfg} (case export, all clause invariants)")
        if not res.ok:
            rep.violate(f"design/{res.violated}", {"where": "MC_HsfzDiscover design layer", "cfg": cfg}, {"cex": res.cex[-12:]})
        for p in res.prints:
            if isinstance(p, list) and len(p) == 4 and p[0] == "C":
                beh = tuple(v for _k, v in sorted(p[1]["$fn"])) if isinstance(p[1], dict) else tuple(p[1])
                want.setdefault((beh, bool(p[2])), set()).add(tuple(sorted(pyset(p[3]))))
    if not want:
        raise Machinery("MC_HsfzDiscover export produced no cases")
    nrep = ndrift = 0
    for (beh, rev) in sorted(want):
        c = cases.add("sweep-tlc", beh_model(beh), scan_of(16, 15 + len(beh), reversed_=rev))
        if c is None:
            continue
        nrep += 1
        r = c["res"]
        got = tuple(sorted({x["dst"] for x in r["file"]}))
        if r["done"] != "ok" or got not in want[(beh, rev)]:
            ndrift += 1
            rep.drift.append({"machine": "hsfz-discover", "beh": list(beh), "reversed": rev,
                              "design": sorted(want[(beh, rev)])[:3], "code": [r["done"], got]})
    rep.extra["spec_to_code_hsfz_replayed"] = nrep
    rep.extra["spec_to_code_hsfz_drift"] = ndrift


def validate(module: str, traces: list[dict[str, Any]], rep: Report) -> tuple[dict[int, str], int]:
    CH = 1500
    chunks = [traces[o:o + CH] for o in range(0, len(traces), CH)]

    def one(sub: list[dict[str, Any]]) -> Any:
        return tlc.validate_batch(module, f"{module}.cfg", {"traces": sub}, timeout=1800, env={"JAVA_TOOL_OPTIONS": "-Xss64m"})

    with ThreadPoolExecutor(max_workers=4) as ex:
        results = list(ex.map(one, chunks))
    verdicts: dict[int, str] = {}
    unspec = 0
    for res in results:
        rep.add_tlc(res, f"{module} batch")
        for p in res.prints:
            if isinstance(p, list) and len(p) == 3 and p[0] == "V":
                verdicts[p[1]] = p[2]
            elif isinstance(p, list) and len(p) == 3 and p[0] == "U" and p[1] < SELF:
                unspec += int(p[2] > 0)
    missing = [t["id"] for t in traces if t["id"] not in verdicts]
    if missing:
        raise Machinery(f"{module}: no verdict for {len(missing)} traces (first {missing[0]}):\n{results[-1].out[-3000:]}")
    return verdicts, unspec


SELF = 1_000_000     # ids of the self-test traces inside a validation batch


def hsfz_self_probes(good: dict[str, Any]) -> list[tuple[str, dict[str, Any], str]]:
    """Corruptions of one plain accepted execution (the baseline case) + a run against a mutant of the gateway fake."""
    base = hsfz_trace(good["res"])
    probes: list[tuple[str, dict[str, Any], str]] = []
    t = json.loads(json.dumps(base))
    t["file"] = t["file"][1:]
    probes.append(("found address dropped from ECUs.txt", t, "F2/answering-address-not-found"))
    t = json.loads(json.dumps(base))
    ghost = dict(t["db"][0])
    ghost["dst"] = [a for a in range(t["cfg"]["start"], t["cfg"]["stop"] + 1) if a not in {x["dst"] for x in t["db"]}][0] \
        if len(t["db"]) < t["cfg"]["stop"] - t["cfg"]["start"] + 1 else t["cfg"]["stop"] + 1
    t["db"].append(ghost)
    want = "F1/found-without-answer-from-that-address" if ghost["dst"] <= t["cfg"]["stop"] else \
        "U1/emitted-uri-does-not-denote-the-endpoint"
    probes.append(("found address invented in the database", t, want))
    t = json.loads(json.dumps(base))
    t["file"][0]["port"] += 1
    probes.append(("uri port corrupted", t, "U1/emitted-uri-does-not-denote-the-endpoint"))
    t = json.loads(json.dumps(base))
    t["probes"] = [p for p in t["probes"] if p["dst"] != t["cfg"]["start"]]
    t["file"] = [x for x in t["file"] if x["dst"] != t["cfg"]["start"]]
    t["db"] = [x for x in t["db"] if x["dst"] != t["cfg"]["start"]]
    probes.append(("probe of the first address removed", t, "P1/address-of-the-range-not-probed"))
    t = json.loads(json.dumps(base))
    t["probes"][0]["src"] ^= 1
    probes.append(("tester address of one request changed", t, "P2/request-not-as-configured"))
    t = json.loads(json.dumps(base))
    t["probes"] = list(reversed(t["probes"]))
    probes.append(("probe order reversed", t, "P3/probe-order"))
    # a mutant of the gateway fake: it answers every address whatever its model (and log) says
    r = run_scan(beh_model(("silent", "pos", "silent")), scan_of(16, 18), mutant="gw-answers-everything")
    t = hsfz_trace(r)
    for p in t["probes"]:
        if p["dst"] != 17:
            p["anss"] = []      # what a fake would log that follows its model
    probes.append(("gateway fake that answers what it logs as silent", t, "F1/found-without-answer-from-that-address"))
    for i, (_w, tr, _v) in enumerate(probes):
        tr["id"] = SELF + i
    return probes


def check_self_probes(rep: Report, part: str, base_verdict: str, probes: list[tuple[str, dict[str, Any], str]],
                      verdicts: dict[int, str]) -> None:
    if base_verdict != "ok":
        if rep.violations:   # the baseline itself is rejected: the violations are the result of this run
            rep.extra[f"self_test_{part}"] = f"skipped: baseline execution rejected ({base_verdict}), violations reported"
            return
        raise Machinery(f"binding self-test ({part}): baseline execution rejected ({base_verdict}) without a violation")
    for i, (what, _tr, want) in enumerate(probes):
        got = verdicts.get(SELF + i)
        if got != want:
            raise Machinery(f"binding self-test ({part}): {what}: TLC says {got!r}, expected {want!r}")
    rep.extra[f"self_test_{part}"] = [p[0] for p in probes]


def hsfz_unspecified(rep: Report) -> None:
    """A gateway that refuses a TCP connection in the middle of the sweep: the sources are silent, only recorded."""
    r = run_scan({"beh": {"16": "pos", "17": "pos", "18": "neg"}, "refuse": [2]}, scan_of(16, 18))
    rep.extra["unspecified_gateway_refuses_second_connection"] = [r["done"], r["exc"][:80], [x["dst"] for x in r["file"]]]


# ====================================================================== part 2: UDSScanner.setup / teardown
def setup_case(**kw: Any) -> dict[str, Any]:
    c: dict[str, Any] = {"ping": True, "tp": True, "interval": 0.5, "props": True, "compare": True, "reset": None, "db": True,
                         "art": True, "ecu": {}, "main": {"ms": 1600, "write": False, "fail": False, "reqs": 0},
                         "db_fail": None}
    for k, v in kw.items():
        if isinstance(v, dict):
            c[k] = {**c[k], **v}
        else:
            c[k] = v
    return c


def setup_sig(case: dict[str, Any]) -> dict[str, Any]:
    return {"part": "uds-scanner-setup", "db_fault": case.get("db_fail") or "none", "main_fails": bool(case["main"].get("fail")),
            "ecu_reset": case.get("reset") is not None}


class SetupCases:
    def __init__(self) -> None:
        self.items: list[dict[str, Any]] = []
        self.seen: set[str] = set()

    def add(self, family: str, case: dict[str, Any]) -> dict[str, Any] | None:
        key = json.dumps(case, sort_keys=True)
        if key in self.seen:
            return None
        self.seen.add(key)
        c = {"family": family, "case": case, "res": run_case(case)}
        self.items.append(c)
        return c


def setup_families(cases: SetupCases, tier: str) -> None:
    thorough = tier == "thorough"
    cases.add("baseline", setup_case(main={"write": True, "ms": 1600}))
    cases.add("baseline", setup_case(main={"write": True, "ms": 1600, "reqs": 3}))
    # ---- tester-present intervals x how long main() idles x worker on/off x ping on/off x main outcome
    for interval in (0.2, 0.5, 1.0):
        for ms in (0, 300, 1600, 5200) if thorough else (0, 1600, 5200):
            for tp, ping, fail in itertools.product((True, False), repeat=3):
                cases.add("tp-interval", setup_case(interval=interval, tp=tp, ping=ping, main={"ms": ms, "fail": fail}))
    # ---- reset levels x ECU reaction x main writes the property / issues requests of its own
    for lvl in (1, 2, 3):
        for beh in ("ok", "neg_then_ok", "neg"):
            for write in (False, True):
                cases.add("ecu-reset", setup_case(reset=lvl, ecu={"reset": beh}, main={"write": write, "reqs": 2}))
    # ---- the ECU needs a while until it answers the initial TesterPresent
    for k in (0, 1, 3, 6) if thorough else (1, 3):
        for tp in (True, False):
            cases.add("slow-ecu", setup_case(ecu={"tp_silent": k}, tp=tp))
    # ---- properties / compare / database / artifacts x property changed by main x main outcome x database fault
    for props, compare, db, art, write, fail in itertools.product((True, False), repeat=6):
        if compare and not props:
            continue
        faults = [None] + (["scan_run"] + (["pre", "post"] if props else []) if db else [])
        for fault in faults if (thorough or not fail) else faults[:2]:
            cases.add("properties", setup_case(props=props, compare=compare, db=db, art=art, db_fail=fault,
                                               main={"write": write, "fail": fail, "ms": 700}))


def setup_spec_to_code(rep: Report, cases: SetupCases, tier: str, rnd: random.Random, tj: dict[str, Any]) -> None:
    res = tj["jobs"]["s:export"].result()
    rep.add_tlc(res, "MC_UdsScannerSetup_export (case export, all clause invariants)")
    if not res.ok:
        rep.violate(f"design/{res.violated}", {"where": "MC_UdsScannerSetup design layer", "cfg": "export"}, {"cex": res.cex[-12:]})
    exported = [p for p in res.prints if isinstance(p, list) and len(p) == 5 and p[0] == "K"]
    if not exported:
        raise Machinery("MC_UdsScannerSetup export produced no cases")
    exported.sort(key=lambda p: json.dumps(p[1:4], sort_keys=True))
    rnd.shuffle(exported)
    pick = exported if tier == "thorough" and len(exported) <= 4000 else exported[: 4000 if tier == "thorough" else 400]
    nrep = ndrift = 0
    for _k, cfg, ecu, plan, summ in pick:
        case = setup_case(ping=cfg["ping"], tp=cfg["tp"], interval=cfg["interval"] / 1000.0, props=cfg["props"],
                          compare=cfg["compare"], reset=None if cfg["reset"] < 0 else cfg["reset"], db=cfg["db"],
                          art=cfg["art"], db_fail=None if cfg["dbFault"] == "none" else cfg["dbFault"],
                          ecu={"reset": ecu["reset"], "tp_silent": ecu["silent"]},
                          main={"ms": plan["ms"], "write": plan["write"], "fail": plan["fail"], "reqs": 0})
        c = cases.add("tlc", case)
        if c is None:
            continue
        nrep += 1
        t = setup_trace(c["res"])
        got = {"nmain": t["nmain"], "runOut": t["runOut"], "db": {k: t["db"][k] for k in ("has", "pre", "post")},
               "files": t["files"], "warn": t["warnTeardown"] > 0,
               "nreset": sum(1 for e in t["reqs"] if e["k"] == "reset"), "ndsc": sum(1 for e in t["reqs"] if e["k"] == "dsc"),
               "ntpsetup": sum(1 for e in t["reqs"] if e["k"] == "tp" and e["ph"] == "setup"),
               "ntpmain": sum(1 for e in t["reqs"] if e["k"] == "tp" and e["ph"] == "main")}
        if got != summ:
            ndrift += 1
            rep.drift.append({"machine": "uds-scanner-setup", "case": case,
                              "design": {k: v for k, v in summ.items() if got.get(k) != v},
                              "code": {k: v for k, v in got.items() if summ.get(k) != v}})
    rep.extra["spec_to_code_setup_exported"] = len(exported)
    rep.extra["spec_to_code_setup_replayed"] = nrep
    rep.extra["spec_to_code_setup_drift"] = ndrift


def setup_self_probes(good: dict[str, Any]) -> list[tuple[str, dict[str, Any], str]]:
    """Corruptions of the baseline run (ping, worker, properties, db, artifacts, main writes the property) + a run
    against a mutant of the ECU fake."""
    base = setup_trace(good["res"])
    probes: list[tuple[str, dict[str, Any], str]] = []
    t = json.loads(json.dumps(base))
    t["db"]["post"] = t["db"]["pre"]
    probes.append(("properties_post of the database row replaced by properties_pre", t,
                   "H2/stored-properties-differ-from-what-the-ecu-said"))
    t = json.loads(json.dumps(base))
    t["reqs"] = [e for e in t["reqs"] if not (e["k"] == "tp" and e["ph"] == "main")]
    probes.append(("cyclic tester present removed from main", t, "G2/cyclic-tester-present-during-main"))
    t = json.loads(json.dumps(base))
    t["reqs"].append({"t": t["runEnd"] + 400, "ph": "after", "k": "tp", "res": "pos", "v": -1, "lvl": -1})
    probes.append(("tester present after the run", t, "G3/not-quiet-after-teardown"))
    t = json.loads(json.dumps(base))
    t["leaked"] = 1
    probes.append(("a background task left pending after the run", t, "G3/not-quiet-after-teardown"))
    t = json.loads(json.dumps(base))
    t["reqs"] = [e for e in t["reqs"] if not (e["k"] == "tp" and e["ph"] == "setup")]
    probes.append(("initial tester present removed", t, "G1/initial-tester-present"))
    t = json.loads(json.dumps(base))
    t["reqs"] = [e for e in t["reqs"] if not (e["k"] == "prop" and e["ph"] == "teardown")]
    probes.append(("property read of the teardown removed", t, "H1/properties-not-read-before-and-after"))
    t = json.loads(json.dumps(base))
    t["warnTeardown"] = 0
    probes.append(("comparison warning removed", t, "H3/comparison-warning"))
    t = json.loads(json.dumps(base))
    t["cfg"]["reset"] = 1
    probes.append(("configuration says --ecu-reset, no reset seen", t, "R1/ecu-reset"))
    t = json.loads(json.dumps(base))
    t["runOut"] = "exc"
    probes.append(("run reported as failed although main returned", t, "L2/run-outcome-differs-from-main"))
    # a mutant of the ECU fake: the property value it logs is not the one it sent
    r = run_case(good["case"], mutant="logs-other-prop-value")  # noqa
    probes.append(("ECU fake that logs another property value than it sent", setup_trace(r),
                   "H2/stored-properties-differ-from-what-the-ecu-said"))
    for i, (_w, tr, _v) in enumerate(probes):
        tr["id"] = SELF + i
    return probes


def setup_unspecified(rep: Report) -> None:
    """Environments the sources are silent about: only recorded."""
    out = {}
    r = run_case(setup_case(reset=1, ecu={"reset": "neg", "dsc": "neg"}))
    out["dsc_refused_after_refused_reset"] = [r["run"], r["exc"][:80], sum(1 for m in r["marks"] if m["e"] == "MainStart")]
    for fail in (False, True):
        r = run_case(setup_case(ecu={"dead_after_main": True}, main={"fail": fail, "ms": 700}))
        out[f"ecu_silent_in_teardown_main_{'raises' if fail else 'returns'}"] = {
            "run": r["run"], "exc": r["exc"][:80], "connections_left_open": r["open"],
            "tester_present_left_running": r["tp_left_running"],
            "requests_after_the_run": sum(1 for e in r["log"] if e["ph"] == "after")}
    rep.extra["unspecified_setup_environments"] = out


# ====================================================================== driver
def run(tier: str, seed: int) -> Report:
    quiet_gallia_logging()
    rep = Report("X12", tier, seed)
    rep.rule = ("part 1: executions = the real HSFZDiscoverer.main() against a model-driven HSFZ gateway on in-memory streams "
                "under virtual time; every assignment of a gateway behaviour (ack / delayed ack / no ack / error control word "
                "instead of ack or answer / positive, negative, delayed, double, foreign-address or non-matching answer / FIN "
                "or RST afterwards) to 2 (3) swept addresses x --reversed as enumerated by TLC for the design layer, plus "
                "behaviours outside the design alphabet, hang-up-after-every-k-th-probe gateways, alive checks at every "
                "position, request timeouts 0.2/0.5/2 s, hosts/ports/tester addresses/ranges for the URIs, the full default "
                "range. part 2: executions = a trivial UDSScanner run through the real AsyncScript.run() over the in-memory "
                "tcp-lines stack with the real DBHandler; all combinations of ping / tester-present / properties / compare / "
                "db / artifacts / --ecu-reset x ECU reaction to the reset x unanswered initial pings x main writes / fails x "
                "database fault (sampled from the TLC enumeration in quick), intervals 0.2/0.5/1 s x main durations. "
                "distinct = distinct (model, configuration); non-trivial = part 1: some address does something else than "
                "staying silent; part 2: at least one of tester-present / properties / ecu-reset / db fault is in play")
    rep.assumptions = [
        "part 1: main() is driven directly with artifacts_dir and a recording db handler (Scanner.setup would first open the "
        "--target connection, which needs src_addr/dst_addr in the URI; not part of the statement)",
        "asyncio.open_connection replaced by in-memory connections; virtual time; a frame counts as delivered when it is fed "
        "while the client side is open",
        "part 1: acknowledgements are sent at 0/300/800 ms, answers at 0/300/800 ms after the acknowledgement; gateways that "
        "refuse TCP connections are recorded as unspecified, not judged",
        "part 2: load_ecu replaced by an ECU subclass whose properties() reads DID 0xF190; aiosqlite.connect replaced by a "
        "synchronous sqlite3 connection with the same coroutine surface (real DBHandler, real SQL, real file); database "
        "faults are sqlite3.OperationalError raised for the statement that writes the scan run / properties_pre / "
        "properties_post; an ECU that stops answering during teardown or refuses DiagnosticSessionControl after a refused "
        "reset is recorded as unspecified, not judged",
        "part 2: the comparison of the properties is observed as 'a warning was logged during teardown'",
    ]
    rnd = random.Random(seed)
    hs, su = Cases(), SetupCases()
    with ThreadPoolExecutor(max_workers=8) as pool:
        tj = start_tlc_jobs(tier, pool)
        hsfz_families(hs, tier, rnd)
        hsfz_unspecified(rep)
        setup_families(su, tier)
        setup_unspecified(rep)
        hsfz_spec_to_code(rep, hs, tj)
        setup_spec_to_code(rep, su, tier, rnd, tj)
        model_check(rep, tj)
    # ---- code -> spec
    htr = []
    for i, c in enumerate(hs.items):
        t = hsfz_trace(c["res"])
        t["id"] = i
        htr.append(t)
    strs = []
    for i, c in enumerate(su.items):
        t = setup_trace(c["res"])
        t["id"] = i
        strs.append(t)
    hprobes, sprobes = hsfz_self_probes(hs.items[0]), setup_self_probes(su.items[0])
    with ThreadPoolExecutor(max_workers=2) as pool:
        fh = pool.submit(validate, "Trace_HsfzDiscover", htr + [p[1] for p in hprobes], rep)
        fs = pool.submit(validate, "Trace_UdsScannerSetup", strs + [p[1] for p in sprobes], rep)
        (hv, hu), (sv, s_u) = fh.result(), fs.result()
    rep.extra["executions_with_unspecified_parts"] = {"hsfz": hu, "setup": s_u}
    rep.traces = rep.evaluations = len(htr) + len(strs)
    fam: dict[str, int] = {}
    for i, c in enumerate(hs.items):
        fam["hsfz/" + c["family"]] = fam.get("hsfz/" + c["family"], 0) + 1
        m = c["model"]
        if any(b != "silent" for b in m.get("beh", {}).values()):
            rep.nontrivial.add(("h", i))
        if hv[i] != "ok":
            r = c["res"]
            rep.violate(hv[i], hsfz_sig(c), {"model": {k: v for k, v in m.items() if k != "beh" or len(v) <= 8},
                                             "scan": c["scan"], "done": r["done"], "exc": r["exc"],
                                             "found_file": [x["dst"] for x in r["file"]], "found_db": [x["dst"] for x in r["db"]],
                                             "raw_lines": r["raw"][:4], "probes": r["probes"][:8]})
    for i, c in enumerate(su.items):
        fam["setup/" + c["family"]] = fam.get("setup/" + c["family"], 0) + 1
        k = c["case"]
        if k["tp"] or k["props"] or k.get("reset") is not None or k.get("db_fail"):
            rep.nontrivial.add(("s", i))
        if sv[i] != "ok":
            r = c["res"]
            rep.violate(sv[i], setup_sig(k), {"case": k, "run": r["run"], "exc": r["exc"], "db": r["db"], "files": r["files"],
                                              "open": r["open"], "marks": r["marks"], "warnings": r["warn"][:6],
                                              "requests": r["log"][:30]})
    rep.extra["families"] = fam
    for c in hs.items[3:5]:
        r = c["res"]
        rep.sample({"part": 1, "family": c["family"], "beh": c["model"].get("beh"), "scan": c["scan"], "done": r["done"],
                    "found": [x["dst"] for x in r["file"]], "lines": r["raw"][:2]})
    for c in su.items[5:6] + su.items[-1:]:
        r = c["res"]
        rep.sample({"part": 2, "family": c["family"], "case": c["case"], "run": r["run"], "db": r["db"],
                    "requests": [(e["t"], e["ph"], e["k"], e["res"]) for e in r["log"]][:14]})
    check_self_probes(rep, "hsfz", hv[0], hprobes, hv)
    check_self_probes(rep, "setup", sv[0], sprobes, sv)
    rep.exhaustive = True
    rep.extra["exhaustive_over"] = ("part 1: all behaviour assignments of the design alphabet to 2 swept addresses x --reversed"
                                    + (" (and of the core alphabet of 11 behaviours to 3)" if tier == "thorough" else
                                       " (quick: core alphabet of 11 behaviours)")
                                    + "; part 2: the stated configuration products"
                                    + ("; all environments of the design layer" if tier == "thorough" else
                                       "; a seeded sample of the design layer's environments"))
    rep.extra["stand_ins"] = ["asyncio.open_connection -> in-memory wires", "gallia.command.uds.load_ecu -> PropECU",
                              "aiosqlite.connect -> synchronous sqlite3 connection", "virtual ECU = PropServer(UDSServer)"]
    return rep


def replay(path: str) -> int:
    """Executions are deterministic functions of (tier, seed): re-run and report whether the recorded violation
    signatures still occur on the current tree."""
    data = json.loads(open(path).read())
    rep = run(data.get("tier", "quick"), int(data.get("seed", 0)))
    want = {(v["clause"], json.dumps(v["sig"], sort_keys=True)) for v in data.get("violations", [])}
    got = {(v.clause, json.dumps(v.sig, sort_keys=True)) for v in rep.violations}
    still = want & got
    print(f"replay: {len(still)} of {len(want)} recorded violation signatures reproduce on the current tree")
    if still:
        print(f"VIOLATION property={rep.property_id} replay={path}")
        return 1
    return 0
