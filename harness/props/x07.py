"""X07 (growth) — `gallia scan uds dump-seeds` does what its help texts say.

spec   : spec/SeedDumpContract.tla (clauses D1 D2 S1 S2 K0-K6 R0-R4 P1 D5 L0, sources in its header),
         spec/SeedDump.tla (design: the main loop, one action per await point, 11 deviation constants)
MC     : MC_SeedDump_{a3,b,c3,d,t,v}(+a,c thorough); negative controls MC_SeedDump_dev*; MC_SeedDump_sim (simulation)
binding: the REAL SASeedsDumper.run() (setup, main, teardown) with a real ECU client over the full tcp-lines
         stack in memory (harness/c10_stack.serving) against a scripted gallia UDSServer subclass
         (harness/x07_run.SeedEcu), virtual time, artifacts directory in a mkdtemp(); the seeds file is read back;
         code->spec: every execution validated by Trace_SeedDump (TLC compares the byte sequences);
         spec->code: TLC-simulated design behaviours concretised into ECU scripts and replayed (DRIFT only).
"""

from __future__ import annotations

import hashlib
import json
import multiprocessing as mp
import os
from concurrent.futures import ThreadPoolExecutor
from typing import Any

from harness import tlc
from harness import x07_cases as cs
from harness.c10_stack import setup_logging_once
from harness.common import Machinery, Report
from harness.x07_run import run_case

MC_QUICK = ["a3", "b", "c3", "d", "t", "v"]
MC_THOROUGH = ["a", "c"]
NEG = {
    "devNoSleepOnError": {"P1_Sleep"}, "devSaveDuringDetect": {"D1_File"}, "devNoReenter": {"R3_Reenter"},
    "devCountOnlyPositive": {"R1_EveryNth"}, "devDurationInSeconds": {"D5_Duration"},
    "devIgnoreDuration": {"D5_Duration"}, "devSkipKey": {"K4_AfterSeed"}, "devContinueAfterUnlock": {"K5_Unlock"},
    "devNoCheck": {"S2_Checked"}, "devAbortOnNegative": {"D5_Duration"}, "devKeyLenFromZero": {"K_ZeroKey"}, "devWriteMismatch": {"D1_File"},
}
ACTIONS = ["Do" + a for a in ("SetSession", "LoopHead", "MaybeReset", "Wait", "ReSession", "Check", "Recover", "Seed",
                                "Write", "Key", "Sleep", "Leave", "Interrupt")]
NPROC = max(2, min(12, (os.cpu_count() or 4) - 2))
JAVA_ENV = {"JAVA_TOOL_OPTIONS": "-Xss64m"}


# ------------------------------------------------------------------ 1. design layer
def _mc(rep: Report, tier: str) -> None:
    jobs: list[tuple[str, set[str] | None, bool]] = [(c, None, c == "v") for c in MC_QUICK]
    if tier == "thorough":
        jobs += [(c, None, False) for c in MC_THOROUGH]
    jobs += [(c, want, False) for c, want in NEG.items()]

    def one(j: tuple[str, set[str] | None, bool]) -> Any:
        return tlc.run_tlc("MC_SeedDump", f"MC_SeedDump_{j[0]}.cfg", workers=2, timeout=1500, coverage=j[2], heap="2g")

    with ThreadPoolExecutor(max_workers=6) as ex:
        results = list(ex.map(one, jobs))
    for (c, want, coverage), res in zip(jobs, results):
        rep.add_tlc(res, f"MC_SeedDump_{c}" + (" (negative control)" if want else ""))
        if want is None:
            if not res.ok:
                rep.violate(f"design/{res.violated}", {"where": "SeedDump design layer", "cfg": c},
                            {"cex": res.cex[-8:], "out": res.out[-1500:]})
        elif res.violated not in want:
            raise Machinery(f"negative control MC_SeedDump_{c} did not violate {sorted(want)} (got {res.violated}): "
                            "contract is vacuous")
        if coverage:
            cov = {a: res.coverage.get(a, (0, 0))[0] for a in ACTIONS}
            never = [a for a, n in cov.items() if n == 0]
            if never:
                raise Machinery(f"MC_SeedDump_{c}: design actions never taken: {never}")
            rep.extra["design_action_coverage"] = cov
    rep.extra["negative_controls"] = sorted(NEG)


# ------------------------------------------------------------------ 2. real executions
def _digest(case: dict[str, Any]) -> str:
    return hashlib.sha1(json.dumps([case["ecu"], case["cfg"], case.get("int")], sort_keys=True).encode()).hexdigest()[:16]


def _run_cases(cases: list[dict[str, Any]]) -> list[dict[str, Any]]:
    if not cases:
        return []
    ctx = mp.get_context("fork")
    with ctx.Pool(NPROC) as pool:
        return pool.map(run_case, cases, chunksize=8)


def _slim(t: dict[str, Any]) -> dict[str, Any]:
    return {"id": t["id"], "C": t["C"], "ev": t["ev"], "file": t["file"], "end": t["end"], "tend": t["tend"]}


def _validate(traces: list[dict[str, Any]], rep: Report | None, chunk: int = 2500) -> tuple[dict[int, str], dict[int, int]]:
    jobs = [traces[off:off + chunk] for off in range(0, len(traces), chunk)]

    def one(sub: list[dict[str, Any]]) -> Any:
        return tlc.validate_batch("Trace_SeedDump", "Trace_SeedDump.cfg", {"traces": [_slim(t) for t in sub]},
                                  timeout=3000, workers=1, heap="3g", env=JAVA_ENV)

    with ThreadPoolExecutor(max_workers=6) as ex:
        results = list(ex.map(one, jobs))
    verdicts: dict[int, str] = {}
    unspec: dict[int, int] = {}
    for res in results:
        if rep is not None:
            rep.add_tlc(res, "Trace_SeedDump batch")
        for p in res.prints:
            if isinstance(p, list) and len(p) == 3 and p[0] == "V":
                verdicts[p[1]] = p[2]
            elif isinstance(p, list) and len(p) == 3 and p[0] == "U":
                unspec[p[1]] = p[2]
    missing = [t["id"] for t in traces if t["id"] not in verdicts]
    if missing:
        raise Machinery(f"TLC produced no verdict for {len(missing)} traces (first id {missing[0]}):\n"
                        + results[-1].out[-2000:])
    return verdicts, unspec


# ------------------------------------------------------------------ 3. spec -> code
_SEED_KIND = {"pos1": ["pos", 1], "pos2": ["pos", 2], "posdrop": ["posdrop", 1], "neg": ["neg", 0x37], "sil": ["sil"],
              "mis": ["mis", 1]}


def _cls(q: list[int], a: list[int], has: bool) -> list[Any]:
    """Projection compared between design and code: security access / reset PDUs with the class of the answer."""
    if not has:
        c = "none"
    elif a[:1] == [0x7F]:
        c = f"neg{a[2]:02x}" if len(a) == 3 else "neg"
    elif a[:1] == [q[0] + 0x40] and (q[0] != 0x27 or a[1:2] == [q[1] & 0x7F]):
        c = "pos"
    else:
        c = "mis"
    return [bytes(q).hex(), c, max(0, len(a) - 2) if c == "pos" and q[0] == 0x27 else 0]


def _projection(ev: list[dict[str, Any]], drop_tail_reset: bool) -> list[Any]:
    out = [_cls(e["q"], e["a"], e["has"]) for e in ev if e["q"][0] in (0x27, 0x11)]
    if drop_tail_reset and out and out[-1][0].startswith("11"):
        out = out[:-1]
    return out


def _case_from_behaviour(st: dict[str, Any], n: int, lat_ms: int, tmo_ms: int) -> tuple[dict[str, Any], dict[str, Any]] | None:
    if st.get("pc") != "Final":
        return None
    C = st["C"]
    cfg: dict[str, Any] = {"session": str(C["session"]), "level": str(C["level"]), "duration": C["dur"] / 60000.0,
                           "check": bool(C["check"]), "retries": 0, "timeout": tmo_ms / 1000.0}
    if C["data"]:
        cfg["data"] = bytes(C["data"]).hex()
    if C["zk"] != -1:
        cfg["zk"], cfg["zkmax"] = C["zk"], C["zkmax"]
    if C["reset"] != -1:
        cfg["reset"] = C["reset"]
    if C["sleep"] != -1:
        cfg["sleep"] = C["sleep"] / 1000.0
    ecu: dict[str, Any] = {"lat": lat_ms / 1000.0, "seed": [], "seed_tail": [["pos", 1]], "dsc": [], "rd": [], "keys": [],
                           "resets": [], "key": {"len": 2, "accept": False, "nrc": 0x35}}
    hist = st["hist"]
    for i, e in enumerate(hist):
        q, k = e["q"], e["k"]
        if q[0] == 0x10:
            ecu["dsc"].append({"ok": "ok", "neg": 0x22, "sil": "sil"}[k])
        elif q[0] == 0x22:
            ecu["rd"].append("ok" if k == "ok" else "sil")
        elif q[0] == 0x27 and q[1] % 2 == 1:
            ecu["seed"].append(_SEED_KIND[k])
        elif q[0] == 0x27:
            ecu["keys"].append(k)
        elif q[0] == 0x11:
            nxt = hist[i + 1] if i + 1 < len(hist) else None
            dead = nxt is not None and nxt["q"][0] == 0x3E and nxt["k"] == "dead"
            ecu["resets"].append({"ans": "ok", "boot": 1e6 if dead else 0.0})
    end = st["end"]
    interrupt = st["intAt"] / 1000.0 if end == "cancel" else C["dur"] / 1000.0 + 2000.25
    case = {"ecu": ecu, "cfg": cfg, "int": interrupt, "origin": "tlc-simulate", "n": n}
    proj = {"pdus": _projection(hist, end == "done"), "file_len": len(st["file"]), "end": end}
    return case, proj


def _spec_to_code(rep: Report, tier: str, seed: int) -> list[tuple[dict[str, Any], dict[str, Any]]]:
    nsim = 150 if tier == "quick" else 1500
    _res, behs = tlc.simulate_behaviours("MC_SeedDump", "MC_SeedDump_sim.cfg", num=nsim, depth=120, seed=seed + 1,
                                         timeout=1500)
    out: list[tuple[dict[str, Any], dict[str, Any]]] = []
    seen: set[str] = set()
    for n, b in enumerate(behs):
        if not b:
            continue
        x = _case_from_behaviour(b[-1][1], n, 20000, 30000)
        if x is None:
            continue
        d = _digest(x[0])
        if d in seen:
            continue
        seen.add(d)
        out.append(x)
    rep.extra["simulated_behaviours"] = {"simulated": len(behs), "distinct_complete": len(out)}
    if len(out) < 20:
        raise Machinery(f"spec->code: only {len(out)} distinct complete design behaviours out of {nsim} simulated")
    return out


def _drift(trace: dict[str, Any], proj: dict[str, Any]) -> dict[str, Any] | None:
    end = {"exit": "exit", "exc": "exc", "done": "done", "cancel": "cancel"}.get(trace["end"], trace["end"])
    got = _projection(trace["ev"], end == "done")
    # the real leave_session goes on after its reset (ping, session change): cut the tail the design does not model
    if got != proj["pdus"] or end != proj["end"]:
        return {"design": proj["pdus"][:24], "code": got[:24], "design_end": proj["end"], "code_end": end}
    return None


# ------------------------------------------------------------------ run
def _sig(verdict: str) -> dict[str, Any]:
    return {"command": "dump-seeds", "group": verdict.split("/")[0]}


def _seed_answers(t: dict[str, Any]) -> tuple[int, int]:
    pos = other = 0
    for e in t["ev"]:
        if e["q"][0] == 0x27 and len(e["q"]) >= 2 and e["q"][1] % 2 == 1:
            if e["has"] and e["a"][:1] == [0x67]:
                pos += 1
            else:
                other += 1
    return pos, other


def run(tier: str, seed: int) -> Report:
    setup_logging_once()
    rep = Report("X07", tier, seed)
    rep.rule = ("executions = complete runs of the real SASeedsDumper (setup, main, teardown) against an in-memory ECU, "
                "seeds file read back; distinct = distinct (ECU script, option values, interrupt instant); non-trivial = "
                "at least two seeds ended up in the file AND at least one seed request failed (negative / unanswered / "
                "mismatching answer) or a counter-measure (zero key, reset) was exercised")
    rep.assumptions = [
        "growth item, not a listed property; the statement is /verif/growth/X07.json, sources of every clause in the "
        "header of spec/SeedDumpContract.tla",
        "full tcp-lines stack in memory: only asyncio.open_connection is replaced; TCPLinesTransport, ECU, UDSClient, "
        "TCPUDSServerTransport.handle_client and a UDSServer subclass are gallia code; virtual-time loop; time.time() / "
        "time.monotonic() follow the virtual clock while a case runs (the command measures --duration with time.time())",
        "the run is started through SASeedsDumper.run() with artifacts_dir set to a mkdtemp() (entry_point() / META.json / "
        "hooks are C15's subject); an interrupt is the cancellation of the main task (what asyncio.run() does on Ctrl-C)",
        "the ECU answers within the request timeout or not at all (no late answers), it thinks > 0 s about every "
        "SecurityAccess request (the dump loop has no other delay), it leaves its session only when answering a "
        "SecurityAccess request, on ECUReset, or through the virtual ECU's own 10 s inactivity reset",
        "busyRepeatRequest / responsePending answers are not generated (C04 covers how the client resolves them)",
        "duration bound: a seed request later than first seed request + duration + 60 s is a violation (tolerance = one "
        "unit of the option); cases keep one loop iteration's preamble (reset, wait_for_ecu, session check) below that",
        "no power supply, no database, properties / dumpcap off",
    ]
    # ---- 1. design layer, negative controls, action coverage
    _mc(rep, tier)
    # ---- 2./3. cases: enumerated + seeded families, TLC-simulated design behaviours
    cases = cs.build(tier, seed)
    sims = _spec_to_code(rep, tier, seed)
    proj: dict[str, dict[str, Any]] = {}
    for case, p in sims:
        proj[_digest(case)] = p
        cases.append(case)
    seen: set[str] = set()
    uniq: list[dict[str, Any]] = []
    for c in cases:
        d = _digest(c)
        if d not in seen:
            seen.add(d)
            uniq.append(c)
    traces = _run_cases(uniq)
    for i, t in enumerate(traces):
        t["id"] = i
    ndrift = 0
    for i, c in enumerate(uniq):
        if c["origin"] == "tlc-simulate":
            d = _drift(traces[i], proj[_digest(c)])
            if d is not None:
                ndrift += 1
                d["cfg"] = c["cfg"]
                rep.drift.append(d)
    rep.extra["spec_to_code_replayed"] = len(sims)
    rep.extra["spec_to_code_drift"] = ndrift
    # ---- 4. code -> spec
    verdicts, unspec = _validate(traces, rep)
    rep.traces = rep.evaluations = len(traces)
    origins: dict[str, int] = {}
    for i, t in enumerate(traces):
        o = t["origin"].split("-")[0] if t["origin"].startswith("enum") else t["origin"]
        origins[o] = origins.get(o, 0) + 1
        pos, other = _seed_answers(t)
        if len(t["file"]) >= 2 and pos >= 2 and (other >= 1 or t["C"]["zk"] >= 0 or t["C"]["reset"] >= 0):
            rep.nontrivial.add(_digest(uniq[i]))
        v = verdicts[i]
        if v != "ok":
            rep.violate(v, _sig(v), {"case": uniq[i], "end": t["end"], "exc": t["exc"], "tend": t["tend"],
                                     "file": bytes(t["file"]).hex()[:200],
                                     "ecu_saw": [[e["t"], e["ta"], e["s"], bytes(e["q"]).hex(),
                                                  bytes(e["a"]).hex() if e["has"] else None] for e in t["ev"][:60]]})
    rep.extra["origins"] = origins
    rep.extra["run_end"] = {k: sum(1 for t in traces if t["end"] == k) for k in sorted({t["end"] for t in traces})}
    rep.extra["unspecified"] = {
        "executions with an aspect the sources are silent about (unanswered/refused ECUReset, unreadable session, "
        "ambiguous NRC during key length detection, answer sent at the instant of the interrupt)":
            sum(1 for i in range(len(traces)) if unspec.get(i, 0) > 0)}
    rep.extra["seed_bytes_compared"] = sum(len(t["file"]) for t in traces)
    for i in (0, len(traces) // 4, len(traces) // 2, len(traces) - 1):
        t = traces[i]
        rep.sample({"cfg": uniq[i]["cfg"], "ecu_seed_script": uniq[i]["ecu"].get("seed", [])[:6], "end": t["end"],
                    "requests_at_ecu": len(t["ev"]), "file": bytes(t["file"]).hex()[:48], "verdict": verdicts[i]})
    rep.exhaustive = True
    n = 3 if tier == "quick" else 4
    rep.extra["exhaustive_spaces"] = (
        f"every seed-answer script of length {n} over the 8 answer kinds of harness/x07_cases.ALPHA (positive 2/3 bytes, "
        f"same seed again, positive + session loss, requiredTimeDelayNotExpired, exceededNumberOfAttempts, silence, "
        f"mismatching positive answer) x {len(cs.enum_cfgs(tier))} option sets; seed lengths 0..{39 if tier == 'quick' else 129}, "
        "255, 300, 1000; interrupt instants on a 0.5/0.25 s grid; everything else seeded samples")
    rep.extra["design_layer_not_vacuous"] = "every action of SeedDump is taken in MC_SeedDump_v (TLC -coverage)"
    # ---- 5. binding self-tests
    _selftest(rep, traces, uniq, verdicts)
    return rep


def _selftest(rep: Report, traces: list[dict[str, Any]], cases: list[dict[str, Any]], verdicts: dict[int, str]) -> None:
    def clone(t: dict[str, Any]) -> dict[str, Any]:
        return json.loads(json.dumps(t))

    def is_seed(e: dict[str, Any]) -> bool:
        return e["q"][0] == 0x27 and e["q"][1] % 2 == 1

    base = next((t for i, t in enumerate(traces) if verdicts[i] == "ok" and t["end"] == "done" and len(t["file"]) >= 6
                 and t["C"]["zk"] < 0 and t["C"]["sleep"] < 0 and _seed_answers(t)[0] >= 3), None)
    slp = next((t for i, t in enumerate(traces) if verdicts[i] == "ok" and t["C"]["sleep"] >= 500
                and _seed_answers(t)[0] >= 3), None)
    if base is None or slp is None:
        raise Machinery("no accepted non-trivial trace to run the binding self-test on")
    muts: list[tuple[str, dict[str, Any], str]] = []
    a = clone(base); a["file"][len(a["file"]) // 2] ^= 1; muts.append(("file byte flipped", a, "D1/"))
    b = clone(base); b["file"] = b["file"][:-1]; muts.append(("last file byte missing", b, "D1/received-seed-missing"))
    c = clone(base); c["file"] = c["file"] + c["file"][-2:]; muts.append(("seed written twice", c, "D1/file-holds"))
    d = clone(base)
    j = next(j for j, e in enumerate(d["ev"]) if is_seed(e))
    d["ev"][j]["q"][1] += 2; muts.append(("seed request for another level", d, "D2/"))
    e_ = clone(base)
    j = next(j for j, e in enumerate(e_["ev"]) if is_seed(e))
    e_["ev"] = [x for x in e_["ev"][:j] if not (x["q"][0] == 0x10 and x["has"] and x["a"][0] == 0x50)] + e_["ev"][j:]
    muts.append(("session change removed", e_, "S1/"))
    f = clone(slp)
    js = [j for j, e in enumerate(f["ev"]) if is_seed(e)]
    k = next(k for k in range(1, len(js)) if f["ev"][js[k - 1]]["has"])
    f["ev"][js[k]]["t"] = f["ev"][js[k - 1]]["ta"] + 1; muts.append(("seed request moved into the sleep", f, "P1/"))
    g = clone(base); g["C"]["dur"] = g["tend"] + 60000; muts.append(("run ended before the duration", g, "D5/run-ended"))
    # mutant of the harness's own fake: the ECU sends other seed bytes than it records -> the file must not match
    mc = next(c for i, c in enumerate(cases) if traces[i] is base)
    muts.append(("fake ECU sends other seed bytes than it records",
                 run_case(mc, mutant="fake-sends-other-seed-than-recorded"), "D1/"))
    for n, (_, t, _) in enumerate(muts):
        t["id"] = n
    v, _u = _validate([t for _, t, _ in muts], None)
    got = {name: v[n] for n, (name, _, _) in enumerate(muts)}
    wrong = [name for n, (name, _, want) in enumerate(muts) if not v[n].startswith(want)]
    if wrong:
        raise Machinery(f"binding self-test: corrupted traces / fake mutant not rejected as expected: {wrong}: {got}")
    rep.extra["binding_selftest"] = got


def replay(path: str) -> int:
    setup_logging_once()
    data = json.loads(open(path).read())
    bad = 0
    traces = []
    for n, v in enumerate(data["violations"]):
        case = v["detail"].get("case")
        if case is None:
            print(f"replay: violation {n} ({v['clause']}) is a design-layer counterexample: re-run ./check X07")
            bad += 1
            continue
        t = run_case(case)
        t["id"] = len(traces)
        traces.append(t)
    if traces:
        verdicts, _ = _validate(traces, None)
        for t in traces:
            print(f"replay origin={t['origin']} end={t['end']} file={len(t['file'])}B verdict={verdicts[t['id']]}")
            bad += verdicts[t["id"]] != "ok"
    if bad:
        print(f"VIOLATION property=X07 replay={path}")
        return 1
    return 0
