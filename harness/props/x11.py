"""X11 (growth) — the high-level flows of gallia's ECU class: set_session (hooks, database fall-back),
leave_session (reset, power-cycle fall-back, wait, default session), transmit_data (block sequence), refresh_state and
the update_state bookkeeping.  Property text: growth/X11.json.

spec   : spec/EcuFlowsContract.tla (clauses SS1..SS8, SB, LS1..LS6, LB, TX1..TX7, RF1..RF4, BK, L0; sources in its
         header), spec/EcuFlows.tla (design, one action per await point, abstract ECU), MC_EcuFlows_{set,leave,xfer,
         xferlong,refresh,book3} (+ book, book5, leaveedge in the thorough tier); negative controls MC_EcuFlows_dev*
         (devS1 / devS2 = the two defects found: findings/X11-S1-*, findings/X11-S2-*)
binding: the REAL ECU object.  set_session with a REAL DBHandler (aiosqlite, temp file, normal asyncio loop; the rows
         are written with insert_session_transition as the session scan does; get_session_transition is observed by
         wrapping the bound method); the other flows on harness.fakes.ScriptedTransport under virtual time, leave_session
         optionally with a real PowerSupply object on a recording driver.
         code->spec: every execution validated by Trace_EcuFlows (TLC decides);
         spec->code: TLC-simulated design behaviours concretised and replayed, event lists compared (DRIFT only).
"""

from __future__ import annotations

import json
import re
import shutil
import tempfile
from concurrent.futures import ThreadPoolExecutor
from pathlib import Path
from typing import Any

from harness import tlc
from harness import x11_cases as cs
from harness import x11_flows as xf
from harness.common import Machinery, Report, quiet_gallia_logging

MC = ["set", "leave", "xfer", "xferlong", "refresh", "book3"]
# short TLC runs: C1 only, few GC / compiler threads (the sandbox is shared; JVM start-up dominates their CPU time)
JVM_SMALL = "-XX:TieredStopAtLevel=1 -XX:ParallelGCThreads=2 -XX:CICompilerCount=1"
NEG_CONTROLS = {
    "devS1": "SS2/", "devS2": "TX5/", "devWrap": "TX1/", "devNoWait": "LS4/", "devNoPc": "LS3/", "devNoDb": "SS5/",
    "devRefresh": "RF2/", "devKey": "BK/", "devNoPost": "SS7/",
}
RUNNERS = {"leave": xf.run_leave, "xfer": xf.run_xfer, "refresh": xf.run_refresh, "book": xf.run_book}


# ------------------------------------------------------------------ design layer
MC_THOROUGH = ["book5", "book", "leaveedge"]


def _mc_start(tier: str) -> tuple[Any, list[tuple[str, str | None]], list[Any]]:
    jobs: list[tuple[str, str | None]] = [(c, None) for c in (MC_THOROUGH if tier == "thorough" else [])]  # long ones first
    jobs += [(c, None) for c in MC] + list(NEG_CONTROLS.items())

    def one(j: tuple[str, str | None]) -> Any:
        return tlc.run_tlc("MC_EcuFlows", f"MC_EcuFlows_{j[0]}.cfg", workers=1 if j[1] else 6 if j[0] == "book5" else 2, timeout=1500,
                           coverage=j[1] is None and not j[0].startswith("book"), heap="2g",
                           env=None if j[0] in ("book5", "book") else {"JAVA_TOOL_OPTIONS": JVM_SMALL})

    ex = ThreadPoolExecutor(max_workers=5)
    return ex, jobs, [ex.submit(one, j) for j in jobs]


def _mc_finish(rep: Report, started: tuple[Any, list[tuple[str, str | None]], list[Any]]) -> None:
    ex, jobs, futs = started
    results = [f.result() for f in futs]
    ex.shutdown()
    cov: dict[str, int] = {}
    for (c, want), res in zip(jobs, results):
        rep.add_tlc(res, f"MC_EcuFlows_{c}" + (" (negative control)" if want else ""))
        if want is None:
            if not res.ok:
                lab = re.findall(r'fail \|-> "([^"]+)"', res.out)
                rep.violate(f"design/{res.violated}", {"where": "EcuFlows design layer", "cfg": c},
                            {"label": lab[-1] if lab else None, "cex": res.cex[-4:], "out": res.out[-1500:]})
            for a, (n, _) in res.coverage.items():
                cov[a] = cov.get(a, 0) + n
        else:
            labs = re.findall(r'fail \|-> "([^"]+)"', res.out)
            if res.violated != "ContractHolds" or not labs or not labs[-1].startswith(want):
                raise Machinery(f"negative control MC_EcuFlows_{c} did not violate {want} (got {res.violated}, "
                                f"{labs[-1:]}): contract is vacuous")
    actions = ["SPre", "SDsc1", "SDb", "WPre", "WDsc", "WPost", "SDsc2", "SPost", "SRet", "LReset", "LPc", "LPcUp", "LPcDone",
               "LRc", "LWait", "WSleep", "WPing", "LDsc", "LRet", "LRaise", "XStart", "XTd", "XRte", "XRet", "XRaise", "RStart",
               "RRead", "RRet", "RRaise"]
    never = [a for a in actions if cov.get(a, 0) == 0]
    if never:
        raise Machinery(f"design actions never taken in the MC_EcuFlows configs: {never}")
    rep.extra["design_action_coverage"] = {a: cov[a] for a in actions}
    rep.extra["design_layer_not_vacuous"] = ("every action of the set / leave / xfer / refresh parts of EcuFlows is taken (TLC "
                                             "-coverage, counts in design_action_coverage); the book part has the two actions "
                                             "BStep / BRet, both needed to reach its states")
    rep.extra["negative_controls"] = {k: v for k, v in NEG_CONTROLS.items()}


# ------------------------------------------------------------------ real executions
def _run_cases(cases: list[dict[str, Any]]) -> list[dict[str, Any]]:
    """Runs every case on the real code; returns the traces in the order of `cases`."""
    traces: list[dict[str, Any] | None] = [None] * len(cases)
    set_idx = [i for i, c in enumerate(cases) if c["flow"] == "set"]
    if set_idx:
        tmp = Path(tempfile.mkdtemp(prefix="x11-"))
        try:
            for i, t in zip(set_idx, xf.run_set_cases([cases[i] for i in set_idx], tmp)):
                traces[i] = t
        finally:
            shutil.rmtree(tmp, ignore_errors=True)
    for i, c in enumerate(cases):
        if c["flow"] != "set":
            traces[i] = RUNNERS[c["flow"]](c)
    out = []
    for i, t in enumerate(traces):
        assert t is not None
        t["id"] = i
        t["flow"] = cases[i]["flow"]
        out.append(t)
    return out


def _validate(traces: list[dict[str, Any]], rep: Report | None) -> dict[int, tuple[str, int, int]]:
    """TLC batch validation, a few JVMs in parallel; id -> (verdict, events consumed, unspecified flag)."""
    jobs: list[list[dict[str, Any]]] = []
    cur: list[dict[str, Any]] = []
    size = 0
    for t in sorted(traces, key=lambda t: t["flow"]):
        cur.append(t)
        size += len(t["ev"])
        if size > 25000 or len(cur) >= 1500:
            jobs.append(cur)
            cur, size = [], 0
    if cur:
        jobs.append(cur)

    def one(sub: list[dict[str, Any]]) -> Any:
        return tlc.validate_batch("Trace_EcuFlows", "Trace_EcuFlows.cfg", {"traces": [{"id": t["id"], "ev": t["ev"]} for t in sub]},
                                  timeout=1500, workers=1, heap="3g", env={"JAVA_TOOL_OPTIONS": "-Xss64m " + JVM_SMALL})

    with ThreadPoolExecutor(max_workers=5) as ex:
        results = list(ex.map(one, jobs))
    verdicts: dict[int, tuple[str, int, int]] = {}
    for res in results:
        if rep is not None:
            rep.add_tlc(res, "Trace_EcuFlows batch")
        for p in res.prints:
            if isinstance(p, list) and len(p) == 5 and p[0] == "V":
                verdicts[p[1]] = (p[2], p[3], p[4])
    missing = [t["id"] for t in traces if t["id"] not in verdicts]
    if missing:
        raise Machinery(f"TLC produced no verdict for {len(missing)} traces (first id {missing[0]}):\n{results[-1].out[-2000:]}")
    return verdicts


# ------------------------------------------------------------------ spec -> code
def _fn(v: Any) -> dict[Any, Any]:
    if isinstance(v, list):  # TLC prints a function with domain 1..n as a sequence
        return {i + 1: x for i, x in enumerate(v)}
    return {k: x for k, x in v["$fn"]}


def _case_from_design(c: dict[str, Any], e: dict[str, Any]) -> dict[str, Any] | None:
    f = c["flow"]
    if f == "set":
        edges = {str(k): sorted(v["$set"]) for k, v in _fn(e["edges"]).items()}
        rows = [list(r) for r in c["rows"]]
        return {"flow": "set", "level": c["level"], "skip": c["skip"], "usedb": c["usedb"], "hasdb": c["hasdb"], "s0": c["s0"],
                "sec0": c["sec0"], "cfgobj": False, "ecu": {"sess": c["s0"], "edges": edges},
                "db": [{"target": "self", "run": "cur", "dest": c["level"], "steps": r} for r in rows], "origin": "tlc-simulate"}
    if f == "leave":
        return {"flow": "leave", "level": c["level"], "sec0": c["sec0"], "skip": False, "supply": c["supply"],
                "sleep": None if c["sleep"] < 0 else c["sleep"] / 1000,
                "ecu": {"reset": e["reset"], "down": e["down"], "drop": e["drop"], "dsc1": e["dsc1"]}, "origin": "tlc-simulate"}
    if f == "xfer":
        m: dict[str, Any] = {"mnbl": c["bl"], "rte": e["rte"]}
        if e["negAt"]:
            m["neg_at"] = e["negAt"]
        if e["silentAt"]:
            m["silent_at"] = e["silentAt"]
        return {"flow": "xfer", "n": len(c["data"]), "maxbl": None if c["maxbl"] == xf.DEFAULT_MAX_BLOCK_LENGTH else c["maxbl"],
                "ecu": m, "origin": "tlc-simulate"}
    if f == "refresh":
        return {"flow": "refresh", "reset": c["reset"], "s0": c["s0"], "sec0": c["sec0"],
                "rs": ["pos", e["s"]] if e["out"] == "pos" else ["neg", 0x31] if e["out"] == "neg" else ["silent"],
                "origin": "tlc-simulate"}
    return None


def _project(ev: list[dict[str, Any]]) -> list[Any]:
    """Events without virtual times; runs of equal pings collapsed (the design's clock is coarser than asyncio's)."""
    out: list[Any] = []
    for e in ev:
        if e["e"] == "Start":
            continue
        x = {k: v for k, v in e.items() if k != "t"}
        if x["e"] == "Ret" and x["val"] in ("true", "false"):
            x["val"] = "true"
        if x["e"] in ("Ping", "RC") and out and out[-1] == x:
            continue
        out.append(x)
    return out


def _spec_to_code(rep: Report, tier: str, seed: int) -> tuple[list[dict[str, Any]], list[list[Any]]]:
    per = 25 if tier == "quick" else 150
    cases, designs = [], []

    def one(c: str) -> Any:
        return tlc.simulate_behaviours("MC_EcuFlows", f"MC_EcuFlows_{c}.cfg", num=per, depth=120, seed=seed + 3, timeout=900,
                                       env={"JAVA_TOOL_OPTIONS": JVM_SMALL})[1]

    with ThreadPoolExecutor(max_workers=4) as ex:
        allb = list(ex.map(one, ["set", "leave", "xfer", "refresh"]))
    for behs in allb:
        for b in behs:
            if not b or b[-1][1].get("pc") != "done":
                continue
            st = b[-1][1]
            case = _case_from_design(st["c"], st["E"])
            if case is not None:
                cases.append(case)
                designs.append(_project(st["hist"]))
    rep.extra["simulated_behaviours"] = len(cases)
    if len(cases) < 2 * per:
        raise Machinery(f"spec->code: only {len(cases)} complete design behaviours out of {4 * per} simulated")
    return cases, designs


# ------------------------------------------------------------------ run
def _nontrivial(flow: str, ev: list[dict[str, Any]]) -> bool:
    if flow == "set":
        return any(e["e"] == "Db" for e in ev)
    if flow == "leave":
        return any(e["e"] == "Reset" and e["out"] != "silent" for e in ev)
    if flow == "xfer":
        return sum(1 for e in ev if e["e"] == "Td") >= 2
    if flow == "refresh":
        return any(e["e"] == "Rs" and e["out"] == "pos" for e in ev)
    return sum(1 for e in ev if e["e"] == "X" and e["out"] == "pos" and e["kind"] in ("dsc", "reset", "key", "rs")) >= 2


def _sig(case: dict[str, Any], t: dict[str, Any]) -> dict[str, Any]:
    f = case["flow"]
    if f == "set":
        found = next((e["found"] for e in t["ev"] if e["e"] == "Db"), False)
        return {"flow": "set", "skip_hooks": bool(case["skip"]), "use_db": bool(case["usedb"] and case["hasdb"]),
                "db_steps_found": bool(found)}
    if f == "leave":
        return {"flow": "leave", "power_supply": bool(case["supply"]), "reset": case["ecu"]["reset"], "dsc1": case["ecu"]["dsc1"]}
    if f == "xfer":
        bl = min(int(case["ecu"]["mnbl"]), xf.DEFAULT_MAX_BLOCK_LENGTH if case["maxbl"] is None else int(case["maxbl"]))
        return {"flow": "xfer", "block_length": "<2" if bl < 2 else "2" if bl == 2 else ">=3",
                "fault": sorted(k for k in case["ecu"] if k in ("neg_at", "silent_at", "rte"))}
    if f == "refresh":
        return {"flow": "refresh", "reset_state": case["reset"], "answer": case["rs"][0]}
    return {"flow": "book"}


def _detail(case: dict[str, Any], t: dict[str, Any]) -> dict[str, Any]:
    ev = t["ev"]
    if case["flow"] == "xfer":
        ev = [{k: (v if k not in ("data", "p") or len(v) <= 12 else f"<{len(v)} bytes>") for k, v in e.items()} for e in ev]
    return {"case": case, "exc": t.get("exc"), "events": ev[:14] + (["..."] + ev[-4:] if len(ev) > 18 else ev[14:])}


def build_cases(tier: str, seed: int) -> list[dict[str, Any]]:
    return cs.set_cases(tier) + cs.leave_cases(tier) + cs.xfer_cases(tier) + cs.refresh_cases(tier) + cs.book_cases(tier, seed)


def run(tier: str, seed: int) -> Report:
    quiet_gallia_logging()
    rep = Report("X11", tier, seed)
    rep.rule = ("executions = calls of the real ECU.set_session / leave_session / (request_download +) transmit_data / "
                "refresh_state / raw exchanges followed by update_state against a scripted ECU; distinct = distinct cases; "
                "non-trivial = set: the database was consulted; leave: the reset was answered; xfer: at least two blocks; "
                "refresh: positive answer; book: at least two positively answered state-relevant exchanges")
    rep.assumptions = [
        "growth item: the property text is /verif/growth/X11.json; every clause's source is listed in the header of "
        "spec/EcuFlowsContract.tla",
        "set_session runs on a NORMAL asyncio loop with a REAL DBHandler (aiosqlite worker thread, one temp sqlite file per "
        "run, one scan run / target per case); the rows are written with DBHandler.insert_session_transition exactly as "
        "the session scan does (destination, stack of sessions to enter before it; also rows of an older run of the same "
        "target, of another target, of another destination); DBHandler.get_session_transition is observed by wrapping the "
        "bound method of the real handler; implicit request logging is switched off (C11 covers it)",
        "the other flows run on harness.fakes.ScriptedTransport under virtual time (request timeout 0.5 s, max_retry 0: "
        "the retry loop is C04's subject); the scripted ECU answers DiagnosticSessionControl by a session graph, ECUReset "
        "positive / negative / not at all, is silent for 0 / 1.3 / 12 s after a reset or power-up, optionally kills its "
        "connections then; no busy / pending answers, no malformed or mismatching replies",
        "leave_session with a power supply uses the real gallia.power_supply.PowerSupply on a recording driver "
        "(set_output / set_master); no cyclic tester-present task (X04)",
        "transmit_data is driven the documented way: request_download() first, block_length = the response's "
        "max_number_of_block_length; max_block_length at its documented default 0xFFF unless the case sets it",
        "hooks are observed through a subclass overriding set_session_pre / set_session_post (the documented extension "
        "point); they only record",
        "where the sources are silent the contract accepts every outcome and counts the execution in `unspecified`: any "
        "unanswered request in set_session; leave_session when the ECU never answered a TesterPresent after the reset; the "
        "return value of leave_session; transmit_data with empty data; the security level after refresh_state read a "
        "different session; whether refresh_state raises when the ECU does not answer positively",
    ]
    mc = _mc_start(tier)
    cases = build_cases(tier, seed)
    n_enum = len(cases)
    sim_cases, designs = _spec_to_code(rep, tier, seed)
    cases += sim_cases
    traces = _run_cases(cases)
    _mc_finish(rep, mc)
    # ---- spec -> code: drift only
    drift = 0
    for k, d in enumerate(designs):
        got = _project(traces[n_enum + k]["ev"])
        if got != d:
            drift += 1
            j = next((i for i, (a, b) in enumerate(zip(got, d)) if a != b), min(len(got), len(d)))
            rep.drift.append({"flow": cases[n_enum + k]["flow"], "case": cases[n_enum + k], "first_difference_at": j,
                              "design": d[max(0, j - 1):j + 3], "code": got[max(0, j - 1):j + 3]})
    rep.extra["spec_to_code_replayed"] = len(designs)
    rep.extra["spec_to_code_drift"] = drift
    # ---- code -> spec
    verdicts = _validate(traces, rep)
    rep.traces = rep.evaluations = len(traces)
    per_flow: dict[str, int] = {}
    unspec: dict[str, int] = {}
    seen: set[str] = set()
    for i, t in enumerate(traces):
        f = cases[i]["flow"]
        per_flow[f] = per_flow.get(f, 0) + 1
        v, _, u = verdicts[i]
        unspec[f] = unspec.get(f, 0) + u
        key = json.dumps({k: cases[i][k] for k in cases[i] if k != "origin"}, sort_keys=True)
        if _nontrivial(f, t["ev"]) and key not in seen:
            seen.add(key)
            rep.nontrivial.add(key)
        if v.startswith("trace/"):
            raise Machinery(f"recorded trace not understood by the contract ({v}) in case {cases[i]}")
        if v != "ok":
            rep.violate(v, _sig(cases[i], t), _detail(cases[i], t))
    rep.extra["executions_per_flow"] = per_flow
    rep.extra["unspecified"] = unspec
    rep.extra["max_blocks_in_one_transfer"] = max(sum(1 for e in t["ev"] if e["e"] == "Td") for t in traces)
    rep.extra["exhaustive_spaces"] = (
        "set: 4 session graphs x level 2..4 x initial session 1..3 x skip_hooks x use_db x database present x 10 database "
        "contents (quick: the combinations without fall-back thinned by 2); leave: power supply x sleep {None, 0.3, 2} x "
        "reset {pos, neg, silent} x silence {0, 1.3, 12 s} x connection drop x default session {pos, neg, silent}; xfer: "
        "maxNumberOfBlockLength values x data lengths {0, 1, k*payload-1, k*payload, k*payload+1 : k = 1..3} x faults, and "
        "transfers of more than 255 blocks; refresh: reset_state x state x 7 answers; book: all exchange sequences up to "
        "length 2 (thorough 3) over 18 symbols + seeded longer ones")
    for i in (3, len(cs.set_cases(tier)) + 5, n_enum - 1):
        rep.sample({"case": {k: v for k, v in cases[i].items() if k != "db"}, "events": _detail(cases[i], traces[i])["events"][:12],
                    "verdict": verdicts[i][0]})
    rep.exhaustive = True
    _selftest(rep, cases, traces, verdicts)
    return rep


def _selftest(rep: Report, cases: list[dict[str, Any]], traces: list[dict[str, Any]], verdicts: dict[int, tuple[str, int, int]]) -> None:
    def clone(t: dict[str, Any]) -> dict[str, Any]:
        return json.loads(json.dumps(t))

    def pick(pred: Any) -> dict[str, Any] | None:
        return next((t for i, t in enumerate(traces) if verdicts[i][0] == "ok" and pred(cases[i], t["ev"])), None)

    muts: list[tuple[str, dict[str, Any], str]] = []
    a = pick(lambda c, ev: c["flow"] == "set" and any(e["e"] == "Db" and e["found"] for e in ev) and ev[-1]["val"] == "pos")
    b = pick(lambda c, ev: c["flow"] == "xfer" and sum(1 for e in ev if e["e"] == "Td") > 256 and ev[-1]["val"] == "none")
    d = pick(lambda c, ev: c["flow"] == "leave" and any(e["e"] == "Reset" and e["out"] == "pos" for e in ev)
             and any(e["e"] == "Ping" and e["out"] == "answer" for e in ev) and ev[-1]["val"] == "true")
    e_ = pick(lambda c, ev: c["flow"] == "refresh" and ev[1]["out"] == "pos" and ev[1]["s"] != c["s0"])
    f = pick(lambda c, ev: c["flow"] == "book" and any(e["e"] == "X" and e["kind"] == "key" and e["out"] == "pos" for e in ev))
    if None in (a, b, d, e_, f):
        if rep.violations:
            rep.extra["binding_selftest"] = "skipped: no accepted execution of every kind on this tree (violations reported)"
            return
        raise Machinery("no accepted non-trivial trace of every flow to run the binding self-test on")
    assert a and b and d and e_ and f
    x = clone(a)
    x["ev"][-1]["val"] = "neg"
    muts.append(("set: result flipped", x, "SS8/"))
    x = clone(a)
    x["ev"] = [e for e in x["ev"] if e["e"] != "Db"]
    muts.append(("set: database lookup removed", x, "SS5/"))
    x = clone(a)
    x["ev"][-1]["sess"] = 1 if x["ev"][-1]["sess"] != 1 else 2
    muts.append(("set: tracked session changed", x, "SB/"))
    x = clone(b)
    j = [i for i, e in enumerate(x["ev"]) if e["e"] == "Td"][255]
    x["ev"][j]["c"] = 1
    muts.append(("xfer: counter of block 256 is 1 instead of 0", x, "TX1/"))
    x = clone(b)
    j = [i for i, e in enumerate(x["ev"]) if e["e"] == "Td"][3]
    x["ev"][j]["p"][0] ^= 1
    muts.append(("xfer: one payload byte changed", x, "TX3/"))
    x = clone(b)
    x["ev"] = [e for e in x["ev"] if e["e"] != "Rte"]
    muts.append(("xfer: transfer exit removed", x, "TX5/"))
    x = clone(d)
    x["ev"] = [e for e in x["ev"] if e["e"] not in ("Ping", "RC")]
    muts.append(("leave: pings after the reset removed", x, "LS4/"))
    x = clone(d)
    x["ev"][-1]["sess"] = x["ev"][0]["s0"] if x["ev"][0]["s0"] != 1 else 3
    muts.append(("leave: tracked session not reset", x, "LB/"))
    x = clone(e_)
    x["ev"][-1]["sess"] = x["ev"][0]["s0"]
    muts.append(("refresh: answer not taken over", x, "RF2/"))
    x = clone(f)
    j = next(i for i, e in enumerate(x["ev"]) if e["e"] == "X" and e["kind"] == "key" and e["out"] == "pos")
    x["ev"][j]["csec"] += 1
    muts.append(("book: security level off by one", x, "BK/"))
    # mutant of the harness's own fake: the ECU model records a payload that differs from what it received
    mt = xf.run_xfer({"flow": "xfer", "n": 9, "maxbl": None, "ecu": {"mnbl": 5, "mutant": "fake-drops-a-byte"}})
    mt["flow"] = "xfer"
    muts.append(("fake ECU records a shortened payload", mt, "TX"))
    for n, (_, t, _) in enumerate(muts):
        t["id"] = n
    v = _validate([t for _, t, _ in muts], None)
    got = {name: v[n][0] for n, (name, _, _) in enumerate(muts)}
    wrong = [name for n, (name, _, want) in enumerate(muts) if not v[n][0].startswith(want)]
    if wrong:
        raise Machinery(f"binding self-test: corrupted traces / fake mutant not rejected as expected: {wrong}: {got}")
    rep.extra["binding_selftest"] = got


def replay(path: str) -> int:
    quiet_gallia_logging()
    data = json.loads(open(path).read())
    cases = []
    bad = 0
    for n, v in enumerate(data["violations"]):
        case = v["detail"].get("case")
        if case is None:
            print(f"replay: violation {n} ({v['clause']}) is a design-layer counterexample: re-run ./check X11")
            bad += 1
            continue
        cases.append(case)
    if cases:
        traces = _run_cases(cases)
        verdicts = _validate(traces, None)
        for i, t in enumerate(traces):
            print(f"replay flow={cases[i]['flow']} origin={cases[i].get('origin')} verdict={verdicts[i][0]}")
            bad += verdicts[i][0] != "ok"
    if bad:
        print(f"VIOLATION property=X11 replay={path}")
        return 1
    return 0
