"""X23 (growth) -- the ISO-TP and raw-CAN transports deliver what the bus carries.

CANMessage.pack / unpack are the Linux can_frame / canfd_frame layout and inverse to each other; a RawCANTransport hands
out exactly the frames the last set_filter() call asks for, unaltered and in bus order, a receive that times out loses
nothing, sendto / write put the given identifier and payload on the bus in the configured frame format,
get_idle_traffic reports exactly the ids it saw, close() releases the socket; every documented isotp:// URI parameter
(in every documented spelling) reaches the ISO-TP socket as the option value linux/can/isotp.h defines, before bind;
read / write move whole PDUs; ECOMM / EILSEQ become BrokenPipeError, ETIMEDOUT TimeoutError, other errors are raised.

spec   : spec/CanTransportsContract.tla (K1..K3 frames, N0 targets, F0..F2 filters, R1 R2 T1 receive, S1..S5 send,
         I0..I2 idle, C0 C1 close, O1..O6 socket options, P0..P3 PDUs, E1..E3 errors), spec/CanTransports.tla (design:
         parts "frames" / "raw" / "iso", kernel model, 20 deviation constants + Buf), spec/MC_CanTransports*.cfg,
         spec/Trace_CanTransports.tla
binding: the REAL gallia.transports.can / .isotp code; only the kernel socket is replaced (X14's in-memory bus,
         imported from harness/x14_run.py and wrapped in harness/x23_run.py); virtual time.
         code -> spec: every execution validated by TLC (total verdict, first broken clause + event index);
         spec -> code: the frames, the URI configurations (with the option bytes the design layer computes) and
         simulated behaviours of the raw part are replayed into the real code; a different outcome = drift.
"""

from __future__ import annotations

import errno
import hashlib
import json
import multiprocessing as mp
import os
import re
import shutil
import tempfile
from concurrent.futures import ThreadPoolExecutor
from pathlib import Path
from typing import Any

from harness import tlc
from harness import x23_cases as cs
from harness.common import Machinery, Report, quiet_gallia_logging
from harness.x23_run import run_case, to_trace

NPROC = max(2, min(8, (os.cpu_count() or 4) - 2))
MODULE = "MC_CanTransports"
SMALL_JVM = {"JAVA_TOOL_OPTIONS": "-XX:TieredStopAtLevel=1 -XX:ParallelGCThreads=2 -XX:CICompilerCount=1"}
SELF = 10_000_000

NEG = {
    "devFdFlagDropped": {"Inv_K1_PackLayout"}, "devRtrBit": {"Inv_K1_PackLayout"}, "devUnpackNoCut": {"Inv_K2_UnpackFields"},
    "devSffMaskAlways": {"Inv_F1_WantedDelivered", "Inv_F2_UnwantedKept"},
    "devMaskSwapped": {"Inv_F1_WantedDelivered", "Inv_F2_UnwantedKept"},
    "devJoinSticky": {"Inv_F1_WantedDelivered"}, "devNoJoin": {"Inv_F2_UnwantedKept"},
    "devTimeoutEats": {"Inv_T1_TimeoutKeeps"}, "devDstTruthy": {"Inv_S5_SendWorks"}, "devCloseNoop": {"Inv_C1_Closed"},
    "devSendFdDropped": {"Inv_S1_SentFrame"}, "devIdleStopsOnTimeout": {"Inv_I2_IdleComplete"},
    "devPadSwapped": {"Inv_O2_Values"}, "devExtTruthy": {"Inv_O1_Flags"}, "devBindSwapped": {"Inv_O5_Bind"},
    "devBindFirst": {"Inv_O6_BeforeBind"}, "devNoLLOpts": {"Inv_O4_LinkLayer"}, "devHexRejected": {"Inv_N0_ValidTarget"},
    "devEcommReraised": {"Inv_E1_FlowErrors"}, "devEilseqTimeout": {"Inv_E1_FlowErrors"},
    "devErrSwallowed": {"Inv_E3_NotSwallowed"}, "devBufSmall": {"Inv_P2_PduRead"},
}
DESIGN_ACTIONS = {
    "frames": ("Pack", "Unpack"),
    "raw_filter": ("BusFrame", "SetFilter", "RecvCall", "RecvReturn", "RecvTimeout"),
    "raw_io": ("SendTo", "Write", "Close"),
    "raw_idle": ("IdleStart", "IdleCheck", "IdleRecvFrame", "IdleRecvTimeout", "IdleDone"),
    "iso_connect": ("Parse", "SetOpts", "SetLL", "Bind", "Connected"),
    "iso_io": ("KernelPdu", "KernelErr", "ReadCall", "ReadReturn", "ReadTimeout", "IsoWriteP", "IsoCloseP"),
}


# ------------------------------------------------------------------ model checking
# the same negative controls swept in one TLC run per instance: deviation -> clause the contract must name
SWEEPS = {
    "sweep_frames": {"FdFlagDropped": "K1/", "RtrBit": "K1/", "UnpackNoCut": "K2/"},
    "sweep_filter": {"SffMaskAlways": "F", "MaskSwapped": "F", "JoinSticky": "F1/", "NoJoin": "F2/", "TimeoutEats": "T1/"},
    "sweep_io": {"DstTruthy": "S5/", "CloseNoop": "C1/", "FdFlagDropped": "S1/"},
    "sweep_idle": {"IdleStopsOnTimeout": "I2/"},
    "sweep_conn": {"PadSwapped": "O2/", "ExtTruthy": "O1/", "BindSwapped": "O5/", "BindFirst": "O6/", "NoLLOpts": "O4/",
                   "HexRejected": "N0/"},
    "sweep_isoio": {"EcommReraised": "E1/", "EilseqTimeout": "E1/", "ErrSwallowed": "E3/", "BufSmall": "P2/"},
}


def start_tlc_jobs(tier: str, seed: int, pool: ThreadPoolExecutor) -> dict[str, Any]:
    thorough = tier == "thorough"
    env = None if thorough else SMALL_JVM
    fr, ic = ("frames", "iso_connect") if thorough else ("frames_quick", "iso_connect_quick")
    mc = [fr, "raw_filter", "raw_io", "raw_idle", ic, "iso_io"] + (["raw_filter3", "raw_mixed"] if thorough else [])
    jobs: dict[str, Any] = {}
    for c in mc:
        jobs[c] = pool.submit(tlc.run_tlc, MODULE, f"{MODULE}_{c}.cfg", timeout=3000, coverage=True, env=env,
                              workers=1 if c in (fr, ic) else (4 if thorough else 2), heap="2g")
    for c in SWEEPS:
        jobs[c] = pool.submit(tlc.run_tlc, MODULE, f"{MODULE}_{c}.cfg", timeout=900, workers=1, env=SMALL_JVM, heap="1g")
    if thorough:           # one configuration per deviation constant as well
        for c in NEG:
            jobs[c] = pool.submit(tlc.run_tlc, MODULE, f"{MODULE}_{c}.cfg", timeout=900, workers=1, env=SMALL_JVM, heap="1g",
                                  parse_prints=False)
    jobs["sim"] = pool.submit(simulate_hists, 400 if thorough else 120, 40, seed)
    return {"jobs": jobs, "mc": mc, "frames": fr, "iso_connect": ic, "thorough": thorough}


def simulate_hists(num: int, depth: int, seed: int) -> tuple[Any, list[tuple[dict[str, Any], list[Any]]]]:
    """TLC -simulate on the raw part: (configuration, history tokens) of the last state of every behaviour."""
    d = tempfile.mkdtemp(prefix="x23sim-")
    try:
        res = tlc.run_tlc(MODULE, f"{MODULE}_raw_sim.cfg", workers=1, timeout=900, simulate=f"file={d}/b,num={num}", depth=depth,
                          seed=seed + 1, deadlock=False, parse_prints=False, heap="1g", env=SMALL_JVM)
        out = []
        for fn in sorted(os.listdir(d)):
            txt = (Path(d) / fn).read_text()
            blocks = re.split(r"^(?=STATE_\d+ ==)", txt, flags=re.M)
            last = blocks[-1]
            vals: dict[str, Any] = {}
            for part in re.split(r"^/\\ ", last.split("==", 1)[1], flags=re.M):
                m = re.match(r"(\w+) = (.*)$", part.strip(), re.S)
                if m and m.group(1) in ("cfg", "hist"):
                    body = re.split(r"^\\\*|^=+$", m.group(2), flags=re.M)[0].strip()
                    vals[m.group(1)] = tlc.parse_value(body)
            if "cfg" in vals and "hist" in vals:
                out.append((vals["cfg"], vals["hist"]))
        return res, out
    finally:
        shutil.rmtree(d, ignore_errors=True)


def model_check(rep: Report, tj: dict[str, Any]) -> None:
    cover: dict[str, int] = {a: 0 for acts in DESIGN_ACTIONS.values() for a in acts}
    for c in tj["mc"]:
        res = tj["jobs"][c].result()
        rep.add_tlc(res, f"{MODULE}_{c}")
        if not res.ok:
            rep.violate(f"design/{res.violated}", {"where": "CanTransports design layer", "cfg": c}, {"cex": res.cex[-10:]})
        for a in cover:
            cover[a] += max(res.coverage.get(a, (0, 0)))
    never = [a for a, n in cover.items() if n == 0]
    if never:
        raise Machinery(f"design actions never taken in the coverage runs: {never}")
    rep.extra["design_action_coverage"] = cover
    caught: dict[str, str] = {}
    for c, want in SWEEPS.items():
        res = tj["jobs"][c].result()
        rep.add_tlc(res, f"{MODULE}_{c} (negative controls: {', '.join(sorted(want))})")
        got = {p[1]: p[2] for p in res.prints if isinstance(p, list) and len(p) == 3 and p[0] == "NEG"}
        for dev, clause in want.items():
            if not str(got.get(dev, "")).startswith(clause):
                raise Machinery(f"negative control {dev} in {MODULE}_{c} did not break clause {clause}* (got {got.get(dev)}): "
                                "the contract is vacuous there")
            caught[f"{c}:{dev}"] = got[dev]
    if tj["thorough"]:
        for c, inv in NEG.items():
            res = tj["jobs"][c].result()
            rep.add_tlc(res, f"{MODULE}_{c} (negative control)")
            if res.violated not in inv:
                raise Machinery(f"negative control {MODULE}_{c} did not violate {sorted(inv)} (got {res.violated}): "
                                "the contract is vacuous there")
    rep.extra["negative_controls"] = caught
    rep.extra["negative_controls_that_are_the_tree_as_found"] = ["JoinSticky", "DstTruthy", "CloseNoop", "HexRejected", "BufSmall"]


# ------------------------------------------------------------------ real executions
def _run_one(case: dict[str, Any]) -> dict[str, Any]:
    r = run_case(case)
    t = to_trace(r)
    t["origin"] = case.get("origin", "")
    return t


def run_cases(cases: list[dict[str, Any]]) -> list[dict[str, Any]]:
    if not cases:
        return []
    ctx = mp.get_context("fork")
    with ctx.Pool(NPROC) as pool:
        return pool.map(_run_one, cases, chunksize=32)


def weight(t: dict[str, Any]) -> int:
    if t["kind"] in ("pack", "unpack"):
        return 1
    return 2 + len(t["ev"]) + sum(len(e.get("d", [])) + len(e.get("pdu", [])) for e in t["ev"]) // 64


def validate(traces: list[dict[str, Any]], rep: Report | None) -> tuple[dict[int, str], dict[int, int], dict[int, int]]:
    chunks: list[list[dict[str, Any]]] = []
    cur: list[dict[str, Any]] = []
    w = 0
    for t in traces:
        cur.append({k: v for k, v in t.items() if k != "origin"})
        w += weight(t)
        if w >= 6000:
            chunks.append(cur)
            cur, w = [], 0
    if cur:
        chunks.append(cur)

    def one(sub: list[dict[str, Any]]) -> Any:
        return tlc.validate_batch("Trace_CanTransports", "Trace_CanTransports.cfg", {"traces": sub}, timeout=1800, heap="2g",
                                  env={"JAVA_TOOL_OPTIONS": "-Xss64m -XX:ParallelGCThreads=2 -XX:TieredStopAtLevel=1 "
                                                            "-XX:CICompilerCount=1"})

    with ThreadPoolExecutor(max_workers=10) as ex:
        results = list(ex.map(one, chunks))
    verdicts: dict[int, str] = {}
    unspec: dict[int, int] = {}
    at: dict[int, int] = {}
    for res in results:
        if rep is not None:
            rep.add_tlc(res, "Trace_CanTransports batch")
        for p in res.prints:
            if isinstance(p, list) and len(p) == 3 and p[0] == "V":
                verdicts[p[1]] = p[2]
            elif isinstance(p, list) and len(p) == 4 and p[0] == "U":
                unspec[p[1]], at[p[1]] = p[2], p[3]
    missing = [t["tid"] for t in traces if t["tid"] not in verdicts]
    if missing:
        raise Machinery(f"TLC produced no verdict for {len(missing)} traces (first id {missing[0]}):\n{results[-1].out[-3000:]}")
    return verdicts, unspec, at


# ------------------------------------------------------------------ spec -> code
def design_frames(res: Any) -> list[dict[str, Any]]:
    out = []
    for p in res.prints:
        if isinstance(p, list) and len(p) == 2 and p[0] == "F" and isinstance(p[1], dict):
            out.append(p[1])
    return out


def design_iso(res: Any) -> list[tuple[dict[str, Any], list[dict[str, Any]]]]:
    out = []
    for p in res.prints:
        if isinstance(p, list) and len(p) == 3 and p[0] == "I" and isinstance(p[1], dict):
            out.append((p[1], p[2]))
    return out


def outcomes(t: dict[str, Any]) -> list[Any]:
    out: list[Any] = []
    for e in t["ev"]:
        if e["e"] != "op":
            continue
        if e["op"] == "recv":
            out.append(["recv", "frame", e["id"]] if e["res"] == "frame" else ["recv", e["res"]])
        elif e["op"] in ("sendto", "write", "close"):
            out.append([e["op"], e["res"]])
        elif e["op"] == "idle":
            out.append(["idle", sorted(set(e["ids"]))])
    return out


def calls_of(t: dict[str, Any]) -> list[Any]:
    ev = next((e for e in t["ev"] if e["e"] == "op" and e["op"] == "connect"), None)
    if ev is None:
        return []
    out = []
    for c in ev["calls"]:
        if c["c"] == "opt":
            out.append(["opt", c["level"], c["opt"], list(c["v"]), bool(c["refused"])])
        else:
            out.append(["bind", c["iface"], c["n"], c["rx"]["id"], c["rx"]["eff"], c["tx"]["id"], c["tx"]["eff"]])
    return out


def design_calls(calls: list[dict[str, Any]]) -> list[Any]:
    out = []
    for c in calls:
        if c["c"] == "opt":
            out.append(["opt", c["level"], c["opt"], list(c["v"]), bool(c["refused"])])
        else:
            out.append(["bind", c["iface"], c["n"], c["rx"]["id"], c["rx"]["eff"], c["tx"]["id"], c["tx"]["eff"]])
    return out


# ------------------------------------------------------------------ evidence helpers
def digest(case: dict[str, Any]) -> str:
    c = {k: v for k, v in case.items() if k != "origin"}
    return hashlib.sha1(json.dumps(c, sort_keys=True).encode()).hexdigest()[:16]


def family(case: dict[str, Any]) -> str:
    return str(case.get("origin", "?")).split("[", 1)[0]


def nontrivial(t: dict[str, Any]) -> bool:
    if t["kind"] in ("pack", "unpack"):
        return True
    return any(e["e"] in ("B", "W", "P") for e in t["ev"]) or any(e["e"] == "op" and e["op"] == "connect" and e["calls"] for e in t["ev"])


def sig_of(case: dict[str, Any], t: dict[str, Any], at: int) -> dict[str, Any]:
    """Input class of the failing case (never a judgement): the API call at which the first clause broke and a few
    properties of the script before it."""
    if t["kind"] in ("pack", "unpack"):
        return {"unit": "CANMessage." + t["kind"]}
    ev = t["ev"][at - 1] if 0 < at <= len(t["ev"]) else {"e": "?", "op": "?"}
    op = ev.get("op", ev["e"])
    before = [e for e in t["ev"][:at] if e["e"] == "op"]
    sig: dict[str, Any] = {"unit": "RawCANTransport" if t["kind"] == "raw" else "ISOTPTransport", "op": op}
    if t["kind"] == "raw":
        if op in ("recv", "idle"):
            filt = [e for e in before if e["op"] == "filter" and e["ids"]]
            sig["plain_filter_after_inverted_filter"] = any(not f["inv"] and any(g["inv"] for g in filt[:i]) for i, f in enumerate(filt))
        elif op == "write":
            dst = t["cfg"]["dst"]
            sig["dst_id"] = "none" if dst < 0 else ("zero" if dst == 0 else "set")
        return sig
    c = t["cfg"]
    if op == "connect":
        sig["int_parameters_spelled_0x_without_auto_int"] = sorted(n for k, n in (("txtime", "frame_txtime"), ("txdl", "tx_dl"))
                                                                   if c.get("hex") and c[k] >= 0)
    elif op == "read":
        sig["pdu_longer_than_8192"] = any(e["e"] == "P" and len(e["d"]) > 8192 for e in t["ev"][:at])
    return sig


# ------------------------------------------------------------------ cases
def baseline_raw() -> dict[str, Any]:
    ops = [{"op": "filter", "ids": [0x100, 0x200], "inv": True}, cs.bus(0x100, 2), cs.bus(0x300, 3), cs.bus(0x301, 4),
           cs.later(30, 0x302, 5), cs.recv(100), cs.recv(100), cs.recv(100), cs.recv(50), {"op": "write", "d": "aabbcc"},
           {"op": "sendto", "dst": 0x7FF, "d": "0102030405060708", "timeout": 100},
           cs.later(201, 0x400, 1), cs.later(701, 0x401, 1), {"op": "idle", "sniff": 1000}]
    return cs.raw_case(False, False, 0x123, ops, "baseline-raw")


def baseline_iso() -> dict[str, Any]:
    c = cs.iso_cfg(0x18DA00F1, 0x18DAF100, xid=True, fd=True, txtime=20, ea=0x54, rea=0xF4, txpad=0xAA, rxpad=0x55, txdl=16)
    ops = [{"op": "write", "d": "22f190"}, {"op": "pdu", "d": "62f19041"}, {"op": "read", "timeout": 100},
           {"op": "err", "errno": errno.ECOMM}, {"op": "read", "timeout": 100}, {"op": "err", "errno": errno.ETIMEDOUT},
           {"op": "read", "timeout": 100}, {"op": "err", "errno": errno.ENETDOWN}, {"op": "read", "timeout": 100}, {"op": "close"}]
    return cs.iso_case(c, False, ops, "baseline-iso")


def baseline_frames() -> list[dict[str, Any]]:
    f = {"id": 0x18DA00F1, "eff": True, "rtr": False, "err": False, "fd": True, "brs": True, "esi": False, "d": cs.data(5, 12)}
    return [{"kind": "pack", **f, "dlc": -1, "origin": "baseline-pack"}, {"kind": "unpack", **f, "origin": "baseline-unpack"}]


def build_cases(tier: str, seed: int) -> list[dict[str, Any]]:
    cases = [baseline_raw(), baseline_iso(), *baseline_frames()]            # cases[0..3]: bases of the binding self-test
    cases += cs.fam_filter(tier)
    cases += cs.fam_filter_queue(tier)
    cases += cs.fam_timing(tier)
    cases += cs.fam_send(tier)
    cases += cs.fam_idle(tier)
    cases += cs.fam_life(tier)
    cases += cs.fam_random_raw(tier, seed)
    cases += cs.fam_iso_connect(tier)
    cases += cs.fam_iso_io(tier)
    cases += cs.fam_random_iso(tier, seed)
    cases += cs.fam_frames_extra(tier, seed)
    return cases


def run(tier: str, seed: int) -> Report:
    quiet_gallia_logging()
    rep = Report("X23", tier, seed)
    rep.rule = ("executions = scripted sessions of one real RawCANTransport / ISOTPTransport (connect, then API calls while "
                "other nodes put frames / PDUs / socket errors on the bus) plus single calls of CANMessage.pack / unpack; "
                "evaluations = API calls judged by TLC + frames; distinct = distinct case descriptions; non-trivial = the "
                "session carried at least one frame / PDU / socket option (sessions), every pack / unpack case")
    rep.assumptions = [
        "growth item, not a listed property: statement in growth/X23.json, sources listed in spec/CanTransportsContract.tla",
        "the sandbox kernel has no AF_CAN: inside gallia.transports.can / .isotp the name `s` (the socket module) is bound to "
        "X14's stand-in (harness/x14_run.py, imported unmodified) whose socket() returns one end of an AF_UNIX datagram pair; "
        "the other end is an in-memory bus with the Linux CAN_RAW_FILTER / CAN_INV_FILTER / CAN_RAW_JOIN_FILTERS / "
        "CAN_RAW_FD_FRAMES semantics; harness/x23_run.py wraps it: every setsockopt / bind is recorded in call order, ISO-TP "
        "options on a bound socket fail with EISCONN, a raw write that is no can_frame / canfd_frame fails with EINVAL, error "
        "frames need CAN_RAW_ERR_FILTER, a scripted errno makes the next recv() fail (sk_err); all of CANMessage, "
        "RawCANTransport and ISOTPTransport run unmodified",
        "time.time() inside gallia.transports.can (get_idle_traffic) reads the virtual clock of harness.vloop",
        "ISO-TP is served on PDU level (one datagram = one PDU): segmentation, flow control and padding happen in the kernel "
        "and are represented only by the socket options that configure them",
        "frames / PDUs never arrive at the very millisecond a receive deadline expires (the scripts avoid ties)",
        "sendto() is never blocked by a full transmit queue",
    ]
    with ThreadPoolExecutor(max_workers=32) as pool:
        tj = start_tlc_jobs(tier, seed, pool)
        cases = build_cases(tier, seed)
        traces = run_cases(cases)
        # spec -> code: wait for the exports
        fres = tj["jobs"][tj["frames"]].result()
        ires = tj["jobs"][tj["iso_connect"]].result()
        sres, hists = tj["jobs"]["sim"].result()
        frames = design_frames(fres)
        isos = design_iso(ires)
        if not frames or not isos or not hists:
            raise Machinery(f"design layer exported {len(frames)} frames, {len(isos)} URI configurations, {len(hists)} behaviours")
        rep.add_tlc(sres, f"{MODULE}_raw_sim (-simulate, {len(hists)} behaviours)")
        first_design = len(cases)
        more: list[dict[str, Any]] = cs.frame_cases_from_design(frames)
        want_calls: dict[int, list[Any]] = {}
        for n, (c, calls) in enumerate(isos):
            cfg = {k: v for k, v in c.items() if k != "dev"}
            want_calls[first_design + len(more)] = design_calls(calls)
            more.append(cs.iso_case(cfg, bool(cfg["hex"]), [], f"design-uri[{n}]"))
        want_out: dict[int, list[Any]] = {}
        seen_scripts: set[str] = set()
        for n, (c, h) in enumerate(hists):
            case, want = cs.raw_script_from_hist(c, h, f"design-behaviour[{n}]")
            dg = digest(case)
            if dg in seen_scripts or not want:
                continue
            seen_scripts.add(dg)
            want_out[first_design + len(more)] = want
            more.append(case)
        cases += more
        traces += run_cases(more)
        for i, t in enumerate(traces):
            t["tid"] = i
        probes = self_probes(traces, cases)
        verdicts, unspec, at = validate(traces + [p[1] for p in probes], rep)
        model_check(rep, tj)
    # spec -> code
    ndrift = 0
    for i, want in want_calls.items():
        got = calls_of(traces[i])
        if got != want:
            ndrift += 1
            rep.drift.append({"origin": cases[i]["origin"], "uri": cases[i]["uri"], "design": want, "code": got})
    for i, want in want_out.items():
        got = outcomes(traces[i])
        ok = len(got) == len(want) and all(w == g or (len(w) > 1 and w[1] == "?" and w[0] == g[0]) for w, g in zip(want, got))
        if not ok:
            ndrift += 1
            rep.drift.append({"origin": cases[i]["origin"], "ops": cases[i]["ops"][:30], "design": want, "code": got})
    rep.extra["spec_to_code_replayed"] = {"frames": len(frames), "uri_configurations": len(want_calls), "raw_behaviours": len(want_out)}
    rep.extra["spec_to_code_drift"] = ndrift
    # code -> spec
    kinds: dict[str, int] = {}
    fams: dict[str, int] = {}
    nun = 0
    for i, t in enumerate(traces):
        kinds[t["kind"]] = kinds.get(t["kind"], 0) + 1
        fams[family(cases[i])] = fams.get(family(cases[i]), 0) + 1
        if nontrivial(t):
            rep.nontrivial.add(digest(cases[i]))
        nun += unspec.get(i, 0)
        v = verdicts[i]
        if v.startswith("M0/"):
            raise Machinery(f"trace of unknown kind: {cases[i].get('origin')}")
        if v != "ok":
            detail: dict[str, Any] = {"case": cases[i], "failed_at_event": at.get(i, 0)}
            if t["kind"] in ("raw", "iso") and 0 < at.get(i, 0) <= len(t["ev"]):
                detail["event"] = _short(t["ev"][at[i] - 1])
            rep.violate(v, sig_of(cases[i], t, at.get(i, 0)), detail)
    rep.traces = sum(n for k, n in kinds.items() if k in ("raw", "iso"))
    rep.evaluations = sum(sum(1 for e in t["ev"] if e["e"] == "op") if t["kind"] in ("raw", "iso") else 1 for t in traces)
    rep.extra["executions_by_kind"] = kinds
    rep.extra["executions_by_family"] = fams
    rep.extra["unspecified"] = {
        "API calls / frames the sources do not decide (identifiers beyond the configured width, lengths no CAN frame carries, "
        "set_filter([]), RawCANTransport.read, anything after close(), PDUs above 8300 bytes, RTR payloads)": nun,
    }
    rep.extra["notes"] = [
        "frame_txtime: docs/transports.md says milliseconds, linux/can/isotp.h says nanoseconds; the value reaches the socket "
        "unscaled; both readings are accepted (clause O3)",
        "docs/transports.md lists src_addr / dst_addr as required can-raw parameters; RawCANConfig knows dst_id only (the "
        "documented names are ignored, write() then refuses): not judged",
    ]
    for i in (0, 1, 2, len(traces) // 5, 2 * len(traces) // 5, len(traces) - 1):
        t = traces[i]
        s: dict[str, Any] = {"origin": cases[i]["origin"], "verdict": verdicts[i]}
        if t["kind"] in ("raw", "iso"):
            s["uri"] = cases[i]["uri"]
            s["events"] = [_short(e) for e in t["ev"][:8]]
        rep.sample(s)
    rep.exhaustive = True
    rep.extra["exhaustive_spaces"] = (
        "model: part frames = ids at both ends of 11 / 29 bit x EFF x ERR x RTR x classic / FD x BRS x ESI x every length a "
        "frame can carry x dlc given or not (3000 frames); part raw = every interleaving of <= 2 (3) bus frames of 3 ids with "
        "<= 3 (2) API calls out of set_filter(every subset, inverted or not) / recvfrom / sendto / write / get_idle_traffic / "
        "close per configuration; part iso = every URI configuration of the grid (1728) through connect, every "
        "interleaving of <= 3 kernel events (PDU lengths 1 / 3, errnos ECOMM / EILSEQ / ETIMEDOUT / ENETDOWN) with <= 3 calls; "
        "real code: the same 3000 frames packed and unpacked, the same 1728 URI configurations connected, every pair of "
        "set_filter calls (none / 3 lists x inverted or not) x identifier width, every errno x position, the delay grids; "
        "seeded sessions, simulated behaviours and bus timing in general: samples")
    rep.extra["design_layer_not_vacuous"] = "every action of CanTransports is taken (TLC -coverage on the six design configs)"
    check_self_probes(rep, probes, verdicts)
    return rep


def _short(e: dict[str, Any]) -> dict[str, Any]:
    out = {}
    for k, v in e.items():
        if isinstance(v, list) and len(v) > 16:
            out[k] = v[:16] + [f"... {len(v)} items"]
        else:
            out[k] = v
    return out


# ------------------------------------------------------------------ binding self-test
def self_probes(traces: list[dict[str, Any]], cases: list[dict[str, Any]]) -> list[tuple[str, dict[str, Any], str]]:
    """Corruptions of four accepted executions (cases[0..3]) + one mutant of the bus fake.  A corruption whose anchor is
    missing in the recorded execution (a tree that behaves differently) is left out; the caller insists on a minimum."""
    out: list[tuple[str, dict[str, Any], str]] = []

    def clone(t: dict[str, Any]) -> dict[str, Any]:
        return json.loads(json.dumps(t))

    def ops(t: dict[str, Any], name: str) -> list[dict[str, Any]]:
        return [e for e in t["ev"] if e["e"] == "op" and e["op"] == name]

    def add(what: str, want: str, fn: Any, src: dict[str, Any]) -> None:
        try:
            t = clone(src)
            fn(t)
            out.append((what, t, want))
        except (IndexError, KeyError, StopIteration, TypeError):
            pass

    raw, iso, pk, un = traces[0], traces[1], traces[2], traces[3]

    def r_data(t: dict[str, Any]) -> None:
        ops(t, "recv")[0]["d"][0] ^= 1

    def r_id(t: dict[str, Any]) -> None:
        ops(t, "recv")[1]["id"] ^= 2

    def r_timeout(t: dict[str, Any]) -> None:
        e = ops(t, "recv")[0]
        e.update(res="timeout", id=-1, d=[])

    def r_lost(t: dict[str, Any]) -> None:
        e = ops(t, "recv")[0]
        e.update(res="timeout", id=-1, d=[])
        k = t["ev"].index(e)
        del t["ev"][k - 1]                                # its "R"

    def r_inv(t: dict[str, Any]) -> None:
        ops(t, "filter")[0]["ids"].append(0x300)

    def r_swap(t: dict[str, Any]) -> None:
        a, b = ops(t, "recv")[0], ops(t, "recv")[1]
        i, j = t["ev"].index(a), t["ev"].index(b)
        t["ev"][i - 1], t["ev"][j - 1] = t["ev"][j - 1], t["ev"][i - 1]
        a["id"], b["id"] = b["id"], a["id"]
        a["d"], b["d"] = b["d"], a["d"]

    def w_id(t: dict[str, Any]) -> None:
        next(e for e in t["ev"] if e["e"] == "W")["id"] ^= 1

    def w_fd(t: dict[str, Any]) -> None:
        next(e for e in t["ev"] if e["e"] == "W")["fd"] = True

    def w_ret(t: dict[str, Any]) -> None:
        ops(t, "write")[0]["ret"] += 1

    def w_none(t: dict[str, Any]) -> None:
        t["ev"].remove(next(e for e in t["ev"] if e["e"] == "W"))

    def w_nodst(t: dict[str, Any]) -> None:
        t["cfg"]["dst"] = -1

    def i_drop(t: dict[str, Any]) -> None:
        del ops(t, "idle")[0]["ids"][0]

    def i_ghost(t: dict[str, Any]) -> None:
        ops(t, "idle")[0]["ids"].append(0x7E0)

    def i_unread(t: dict[str, Any]) -> None:
        e = ops(t, "idle")[0]
        k = t["ev"].index(e)
        rs = [x for x in t["ev"][:k] if x["e"] == "R"]
        t["ev"].remove(rs[-1])
        del e["ids"][-1]

    def n_exc(t: dict[str, Any]) -> None:
        ops(t, "connect")[0]["res"] = "exc"

    def n_iface(t: dict[str, Any]) -> None:
        ops(t, "connect")[0]["calls"][0]["iface"] = "can9"

    def t_hang(t: dict[str, Any]) -> None:
        t["done"] = "hang"

    if raw["kind"] == "raw":
        add("first payload byte of a received frame changed", "R1/", r_data, raw)
        add("identifier of a received frame changed", "R1/", r_id, raw)
        add("a receive that consumed a frame reports a time-out", "T1/", r_timeout, raw)
        add("a frame that passes the filter is never handed out", "F1/", r_lost, raw)
        add("the deny list had held one more id (a denied frame handed out)", "F2/", r_inv, raw)
        add("two frames handed out in the opposite order", "F1/", r_swap, raw)
        add("frame written with another identifier", "S1/", w_id, raw)
        add("frame written as CAN FD frame on a classic transport", "S1/", w_fd, raw)
        add("write() returns another number", "S2/", w_ret, raw)
        add("write() puts nothing on the bus", "S3/", w_none, raw)
        add("write() sends although the URI has no dst_id", "S4/", w_nodst, raw)
        add("idle list lacks an id that was read", "I2/", i_drop, raw)
        add("idle list holds an id that was never read", "I1/", i_ghost, raw)
        add("frame inside the sniff period never read", "I2/", i_unread, raw)
        add("connect refused", "N0/", n_exc, raw)
        add("bound to another interface", "N1/", n_iface, raw)
        add("session recorded as hanging", "T0/", t_hang, raw)

    def opt(t: dict[str, Any], o: int) -> dict[str, Any]:
        return next(c for c in ops(t, "connect")[0]["calls"] if c["c"] == "opt" and c["opt"] == o)

    def bind(t: dict[str, Any]) -> dict[str, Any]:
        return next(c for c in ops(t, "connect")[0]["calls"] if c["c"] == "bind")

    def o_flag(t: dict[str, Any]) -> None:
        opt(t, 1)["v"][0 if t["le"] else 3] ^= 0x02

    def o_listen(t: dict[str, Any]) -> None:
        opt(t, 1)["v"][0 if t["le"] else 3] |= 0x01

    def o_pad(t: dict[str, Any]) -> None:
        v = opt(t, 1)["v"]
        v[9], v[10] = v[10], v[9]

    def o_ea(t: dict[str, Any]) -> None:
        opt(t, 1)["v"][8] ^= 1

    def o_txtime(t: dict[str, Any]) -> None:
        opt(t, 1)["v"][4 if t["le"] else 7] ^= 1

    def o_mtu(t: dict[str, Any]) -> None:
        opt(t, 5)["v"][0] = 16

    def o_txdl(t: dict[str, Any]) -> None:
        opt(t, 5)["v"][1] = 64

    def o_noll(t: dict[str, Any]) -> None:
        ops(t, "connect")[0]["calls"].remove(opt(t, 5))

    def o_bind(t: dict[str, Any]) -> None:
        b = bind(t)
        b["rx"], b["tx"] = b["tx"], b["rx"]

    def o_eff(t: dict[str, Any]) -> None:
        bind(t)["tx"]["eff"] = False

    def o_late(t: dict[str, Any]) -> None:
        opt(t, 1)["refused"] = True

    def p_w(t: dict[str, Any]) -> None:
        next(e for e in t["ev"] if e["e"] == "W")["pdu"][-1] ^= 1

    def p_r(t: dict[str, Any]) -> None:
        ops(t, "read")[0]["d"].pop()

    def e_mro(t: dict[str, Any]) -> None:
        ops(t, "read")[1]["mro"] = ["OSError", "Exception", "BaseException"]

    def e_tmo(t: dict[str, Any]) -> None:
        ops(t, "read")[1].update(res="timeout", mro=["TimeoutError", "OSError"])

    def e_etimedout(t: dict[str, Any]) -> None:
        ops(t, "read")[2].update(res="exc", mro=["OSError"])

    def e_swallow(t: dict[str, Any]) -> None:
        ops(t, "read")[3].update(res="data", d=[])

    def c_open(t: dict[str, Any]) -> None:
        ops(t, "close")[0]["fdopen"] = True

    if iso["kind"] == "iso":
        add("EXTEND_ADDR flag flipped", "O1/", o_flag, iso)
        add("LISTEN_MODE flag set", "O1/", o_listen, iso)
        add("tx / rx padding bytes swapped", "O2/", o_pad, iso)
        add("extended address byte changed", "O2/", o_ea, iso)
        add("frame_txtime changed", "O3/", o_txtime, iso)
        add("link layer mtu of classic CAN on an is_fd target", "O4/", o_mtu, iso)
        add("tx_dl changed", "O4/", o_txdl, iso)
        add("no link layer options on an is_fd target", "O4/", o_noll, iso)
        add("bind with rx / tx swapped", "O5/", o_bind, iso)
        add("bind without the EFF flag", "O5/", o_eff, iso)
        add("options set on the bound socket", "O6/", o_late, iso)
        add("last byte of the written PDU changed", "P1/", p_w, iso)
        add("read PDU one byte short", "P2/", p_r, iso)
        add("ECOMM raised as plain OSError", "E1/", e_mro, iso)
        add("ECOMM reported as time-out", "E1/", e_tmo, iso)
        add("ETIMEDOUT raised as plain OSError", "E2/", e_etimedout, iso)
        add("ENETDOWN swallowed (b'' returned)", "E3/", e_swallow, iso)
        add("socket open after close()", "C1/", c_open, iso)

    def k_len(t: dict[str, Any]) -> None:
        t["packed"][4] ^= 1

    def k_eff(t: dict[str, Any]) -> None:
        t["packed"][3 if t["le"] else 0] ^= 0x80

    def k_brs(t: dict[str, Any]) -> None:
        t["packed"][5] ^= 1

    def k_short(t: dict[str, Any]) -> None:
        del t["packed"][16:]

    def u_data(t: dict[str, Any]) -> None:
        t["m"]["d"][0] ^= 1

    def u_id(t: dict[str, Any]) -> None:
        t["m"]["id"] &= 0x7FF

    def u_fd(t: dict[str, Any]) -> None:
        t["m"]["fd"] = False

    def u_again(t: dict[str, Any]) -> None:
        t["again"][20] ^= 1

    if pk["kind"] == "pack":
        add("length byte of a packed frame changed", "K1/", k_len, pk)
        add("EFF flag of a packed frame flipped", "K1/", k_eff, pk)
        add("BRS flag of a packed frame flipped", "K1/", k_brs, pk)
        add("FD frame packed into 16 bytes", "K1/", k_short, pk)
    if un["kind"] == "unpack":
        add("unpacked data changed", "K2/", u_data, un)
        add("unpacked identifier cut to 11 bit", "K2/", u_id, un)
        add("unpacked frame not marked FD", "K2/", u_fd, un)
        add("unpacked message packs to other bytes", "K3/", u_again, un)
    # a mutant of the bus stand-in: it delivers another CAN id than it logs
    m = to_trace(run_case(cases[0], mutant="bus-delivers-other-id"))
    out.append(("bus fake that delivers another CAN id than it logs", m, "R1/"))
    for n, (_w, tr, _v) in enumerate(out):
        tr["tid"] = SELF + n
    return out


def check_self_probes(rep: Report, probes: list[tuple[str, dict[str, Any], str]], verdicts: dict[int, str]) -> None:
    base = [verdicts.get(i) for i in range(4)]
    if any(v != "ok" for v in base):
        if rep.violations:
            rep.extra["binding_selftest"] = f"skipped: baseline executions rejected ({base}), violations reported"
            return
        raise Machinery(f"binding self-test: baseline executions rejected ({base}) without a violation")
    got = {what: verdicts.get(SELF + n) for n, (what, _t, _v) in enumerate(probes)}
    wrong = [what for n, (what, _t, want) in enumerate(probes) if not str(verdicts.get(SELF + n)).startswith(want)]
    if wrong and rep.violations:
        rep.extra["binding_selftest_not_as_expected_on_a_violating_tree"] = wrong
    elif wrong:
        raise Machinery(f"binding self-test: corrupted traces / fake mutant not judged as expected: {wrong}: {got}")
    if len(probes) < 40 and not rep.violations:
        raise Machinery(f"binding self-test: only {len(probes)} corruptions could be built")
    rep.extra["binding_selftest"] = got


def replay(path: str) -> int:
    quiet_gallia_logging()
    data = json.loads(open(path).read())
    bad = 0
    traces = []
    for n, v in enumerate(data["violations"]):
        case = v["detail"].get("case")
        if case is None:
            print(f"replay: violation {n} ({v['clause']}) is a design-layer counterexample: re-run ./check X23")
            bad += 1
            continue
        t = _run_one(case)
        t["tid"] = len(traces)
        traces.append(t)
    if traces:
        verdicts, _u, _a = validate(traces, None)
        for t in traces:
            print(f"replay origin={t['origin']} verdict={verdicts[t['tid']]}")
            bad += verdicts[t["tid"]] != "ok"
    if bad:
        print(f"VIOLATION property=X23 replay={path}")
        return 1
    return 0
