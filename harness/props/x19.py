"""X19 (growth) — the logging front end of gallia other than what C17 covers.

spec   : spec/LogFrontContract.tla (clauses M1-M5 V1-V3 E1 S0-S6 K1-K4 O1-O3 R2-R5 H0-H3, sources in its header),
         spec/LogFront.tla (design: consoles per logger node, file handlers, sinks; 12 deviation constants)
MC     : MC_LogFront_{colour,env,cov}(+sinks,sinks6 thorough); negative controls MC_LogFront_dev*; MC_LogFront_sim
binding: the REAL gallia.log.setup_logging / add_zst_log_handler / remove_zst_log_handler / Logger methods /
         resolve_color_mode / _ConsoleFormatter, gallia.utils.get_log_level / get_file_log_level, PenlogPriority /
         Loglevel tables and the hr entry point, driven in spawned worker processes (harness/x19_run.py) with scripted
         stderr / stdout objects (isatty both ways), NO_COLOR / GALLIA_LOGLEVEL / COLUMNS scripted, log files in a
         mkdtemp(); code->spec: every execution validated by Trace_LogFront; spec->code: TLC-simulated design
         behaviours (setup / add / remove / log sequences) replayed, projected sink state compared (DRIFT only).
"""

from __future__ import annotations

import hashlib
import json
import multiprocessing as mp
import os
from concurrent.futures import ThreadPoolExecutor
from typing import Any

from harness import tlc
from harness import x19_cases as cs
from harness.common import Machinery, Report

MC_QUICK = ["colour", "env", "cov"]
MC_THOROUGH = ["sinks", "sinks6"]
NEG = {
    "devF1": {"Inv_K1pair", "Inv_K1"}, "devF1s": {"Inv_K1"}, "devF2": {"Inv_M", "Inv_E1"}, "devF2s": {"Inv_E1"},
    "devF3": {"Inv_V"}, "devNoCleanup": {"Inv_S3"}, "devNoHandlerLevel": {"Inv_S1"},
    "devFileLevelFromConsole": {"Inv_S2"}, "devRmLosesLast": {"Inv_S2"}, "devRmKeepsRouting": {"Inv_S6"},
    "devSetupKeepsLevel": {"Inv_S1"}, "devAutoIgnoresNoColor": {"Inv_K2"}, "devNeverColours": {"Inv_K2"},
    "devVolatileAll": {"Inv_O1"},
}
ACTIONS = ["Setup", "Add", "Rm", "Log", "End"]
NPROC = max(2, min(12, (os.cpu_count() or 4) - 2))
JAVA_ENV = {"JAVA_TOOL_OPTIONS": "-Xss64m"}
DROP = {"raw", "exc", "env", "style", "colored", "variant", "A", "B", "stray", "by", "s", "errlines", "explicit_name",
        "via", "long", "origin", "cn", "source", "prefix", "etty", "nonempty", "mutant", "proj", "strip"}


# ------------------------------------------------------------------ 1. design layer
def _mc_jobs(tier: str) -> list[tuple[str, set[str] | None, bool]]:
    jobs: list[tuple[str, set[str] | None, bool]] = [(c, None, c == "cov") for c in MC_QUICK]
    if tier == "thorough":
        jobs += [(c, None, False) for c in MC_THOROUGH]
    jobs += [(c, want, False) for c, want in NEG.items()]
    return jobs


def _mc_one(j: tuple[str, set[str] | None, bool]) -> Any:
    return tlc.run_tlc("MC_LogFront", f"MC_LogFront_{j[0]}.cfg", workers=1 if j[1] else 3, timeout=1500,
                       coverage=j[2], heap="2g")


def _mc_eval(rep: Report, jobs: list[tuple[str, set[str] | None, bool]], results: list[Any]) -> None:
    for (c, want, coverage), res in zip(jobs, results):
        rep.add_tlc(res, f"MC_LogFront_{c}" + (" (negative control)" if want else ""))
        if want is None:
            if not res.ok:
                rep.violate(f"design/{res.violated}", {"where": "LogFront design layer", "cfg": c},
                            {"cex": res.cex[-8:], "out": res.out[-1500:]})
        elif res.violated not in want:
            raise Machinery(f"negative control MC_LogFront_{c} did not violate {sorted(want)} (got {res.violated}): "
                            "contract is vacuous")
        if coverage:
            cov = {a: res.coverage.get(a, (0, 0))[0] for a in ACTIONS}
            never = [a for a, n in cov.items() if n == 0]
            if never:
                raise Machinery(f"MC_LogFront_{c}: design actions never taken: {never}")
            rep.extra["design_action_coverage"] = cov
    rep.extra["negative_controls"] = sorted(NEG)


# ------------------------------------------------------------------ 2. real executions (spawned workers)
def _digest(case: dict[str, Any]) -> str:
    c = {k: v for k, v in case.items() if k not in ("cn", "origin", "proj")}
    return hashlib.sha1(json.dumps(c, sort_keys=True).encode()).hexdigest()[:16]


def _work(chunk: list[dict[str, Any]]) -> list[dict[str, Any]]:
    from harness import x19_run

    return x19_run.run_chunk(chunk)


def _slim(t: Any) -> Any:
    if isinstance(t, dict):
        return {k: _slim(v) for k, v in t.items() if v is not None and k not in DROP}
    if isinstance(t, list):
        return [_slim(v) for v in t]
    return t


def _validate(traces: list[dict[str, Any]], rep: Report | None, chunk: int = 2500) -> dict[int, tuple[str, int, int]]:
    jobs = [traces[off:off + chunk] for off in range(0, len(traces), chunk)]

    def one(sub: list[dict[str, Any]]) -> Any:
        return tlc.validate_batch("Trace_LogFront", "Trace_LogFront.cfg", {"traces": [_slim(t) for t in sub]},
                                  timeout=3000, workers=1, heap="3g", env=JAVA_ENV)

    with ThreadPoolExecutor(max_workers=4) as ex:
        results = list(ex.map(one, jobs))
    verdicts: dict[int, tuple[str, int, int]] = {}
    for res in results:
        if rep is not None:
            rep.add_tlc(res, "Trace_LogFront batch")
        for p in res.prints:
            if isinstance(p, list) and len(p) == 5 and p[0] == "V":
                verdicts[p[1]] = (p[2], p[3], p[4])
    missing = [t["id"] for t in traces if t["id"] not in verdicts]
    if missing:
        raise Machinery(f"TLC produced no verdict for {len(missing)} traces (first id {missing[0]}):\n"
                        + results[-1].out[-2000:])
    return verdicts


# ------------------------------------------------------------------ 3. spec -> code
_ENV_OF = {2: "critical", 5: "NOTICE", 7: "7", 8: "trace", 3: "error", 4: "4", 6: "info"}


def _script_from_hist(hist: list[dict[str, Any]]) -> list[dict[str, Any]]:
    ev = []
    for e in hist:
        a = e["a"]
        if a == "setup":
            envp = e["envp"]
            ev.append(cs.setup(e["node"], e["lvl"], e["mode"], e["tty"], e["nocolor"], e["vol"], e["cols"],
                               env=None if envp == -1 else _ENV_OF.get(envp, str(envp)), envp=envp))
        elif a == "add":
            ev.append(cs.add(e["f"], e["lvl"]))
        elif a == "rm":
            ev.append(cs.rm(e["f"]))
        elif a == "log":
            ev.append(cs.log(e["src"], e["prio"], e["shape"], e["long"]))
    return ev


def _proj_event(e: dict[str, Any]) -> Any:
    """Projected state compared between design and code: which sink got which record, rendered how."""
    if e["a"] == "log":
        simple = e["shape"] in ("plain", "tags", "result")
        chunks = sorted(json.dumps([k["style"], k["colored"], k["end"] if simple else "-", k["whole"] if simple else "-"])
                        for k in e["w"])
        return ["log", e["id"], chunks]
    if e["a"] == "rm":
        return ["rm", e["f"], list(e["got"])]
    if e["a"] == "setup":
        return ["setup", e["ok"]]
    return [e["a"]]


def _spec_to_code(rep: Report, tier: str, seed: int) -> list[dict[str, Any]]:
    nsim = 200 if tier == "quick" else 2500
    _res, behs = tlc.simulate_behaviours("MC_LogFront", "MC_LogFront_sim.cfg", num=nsim, depth=40, seed=seed + 1,
                                         timeout=1500)
    out: list[dict[str, Any]] = []
    seen: set[str] = set()
    for b in behs:
        if not b:
            continue
        hist = b[-1][1].get("hist")
        if not isinstance(hist, list) or len(hist) < 3:
            continue
        hist = [e for e in hist if e["a"] != "end"]
        case = cs.run("tlc-simulate", _script_from_hist(hist))
        d = _digest(case)
        if d in seen:
            continue
        seen.add(d)
        case["proj"] = [_proj_event(e) for e in hist]
        out.append(case)
    rep.extra["simulated_behaviours"] = {"simulated": len(behs), "distinct": len(out)}
    if len(out) < 20:
        raise Machinery(f"spec->code: only {len(out)} distinct design behaviours out of {nsim} simulated")
    return out


def _drift(trace: dict[str, Any], proj: list[Any]) -> dict[str, Any] | None:
    got = [_proj_event(e) for e in trace["ev"][:len(proj)]]
    for i, (a, b) in enumerate(zip(proj, got)):
        if a != b:
            return {"at": i, "design": a, "code": b, "event": {k: v for k, v in trace["ev"][i].items() if k != "w"}}
    if len(got) < len(proj):
        return {"at": len(got), "design": proj[len(got)], "code": "session ended"}
    return None


# ------------------------------------------------------------------ signatures
def _first_setup(t: dict[str, Any], upto: int) -> dict[str, Any] | None:
    evs = t["ev"][:upto] if upto else t["ev"]
    ss = [e for e in evs if e["a"] == "setup"]
    return ss[-1] if ss else None


def _sig(t: dict[str, Any], label: str, at: int) -> dict[str, Any]:
    g = label.split("/")[0]
    k = t["kind"]
    sig: dict[str, Any] = {"group": g, "api": {"run": "console", "hr": "hr"}.get(k, k)}
    if k == "run":
        s = _first_setup(t, at)
        if g in ("K1", "K2", "K3") and s is not None:
            sig.update(mode=s["mode"], stderr_tty=s["tty"], nocolor=s["nocolor"])
        if g == "E1" and s is not None:
            sig.update(env=s.get("env"), severity_below_critical=s.get("envp") in (0, 1))
        if at and t["ev"][at - 1]["a"] == "log":
            sig.update(src=t["ev"][at - 1]["src"], shape=t["ev"][at - 1]["shape"])
    elif k == "hr":
        sig.update(mode=t["mode"], stdout_tty=t["tty"], stderr_tty=t["etty"], nocolor=t["nocolor"])
        if g == "H2":
            sig.update(severity_below_critical=True)
    elif k == "pair":
        sig.update(what=t["what"])
        if t["what"] in ("always_tty", "hr_stderr"):
            sig.update(stderr_tty=False)
    elif k == "levels":
        sig.update(severity_below_critical=(g == "M5"))
    elif k == "verb":
        sig.update(n_above_2=t["n"] > 2)
    elif k == "fromstr":
        sig.update(cls=t["cls"])
    return sig


def _nontrivial(t: dict[str, Any]) -> bool:
    if t["kind"] == "run":
        sinks = {("con", e["node"]) for e in t["ev"] if e["a"] == "setup" and e.get("ok")} | {
            ("file", e["f"]) for e in t["ev"] if e["a"] == "add"}
        shown = [bool(e["w"]) for e in t["ev"] if e["a"] == "log"]
        infile = {i for e in t["ev"] if e["a"] == "rm" for i in e.get("got", [])}
        ids = [e["id"] for e in t["ev"] if e["a"] == "log"]
        differs = any((e["id"] in infile) != bool(e["w"]) for e in t["ev"] if e["a"] == "log")
        return len(sinks) >= 2 and len(ids) >= 2 and (differs or (any(shown) and not all(shown)))
    if t["kind"] == "hr":
        return len(t["w"]) >= 7
    return t["kind"] == "pair" and t.get("nonempty", False)


# ------------------------------------------------------------------ run
def run(tier: str, seed: int) -> Report:
    rep = Report("X19", tier, seed)
    rep.rule = ("executions = sessions of the real setup_logging / add_zst_log_handler / remove_zst_log_handler / logger "
                "calls (what stderr and every closed log file received, per action), hr runs, pairs of runs, and "
                "evaluations of the pure level tables; distinct = distinct case description; non-trivial = a session "
                "with at least two sinks and two records in which some record reached one sink but not another, an hr "
                "run over at least 7 rendered records, or a non-empty pair")
    rep.assumptions = [
        "growth item, not a listed property; the statement is /verif/growth/X19.json, sources of every clause in the "
        "header of spec/LogFrontContract.tla; C17's subject (file content read back exactly, hr record selection) is "
        "not re-checked: closed log files are decompressed and split by the harness itself",
        "in-process, POSIX: sys.stderr / sys.stdout are scripted stream objects (every write() call kept apart, "
        "isatty() scripted); gallia.log is imported while the scripted stderr is sys.stderr (resolve_color_mode binds "
        "its default stream at import); sys.platform == 'win32' is not exercised",
        "after every action the harness waits until all QueueListener threads are idle, so the writes seen meanwhile "
        "belong to that action (the asynchronous hand-over itself is not raced here; C17 holds the writer up)",
        "records get a deterministic creation time through a logging.Filter on the emitting loggers; the terminal "
        "width comes from COLUMNS; tty-ness, NO_COLOR and the width are constant within a session except in the "
        "palette / pair families where they are the subject",
        "file handlers are added to logger 'gallia' as BaseCommand.entry_point does; consoles on logger '' (what the "
        "gallia CLI does) or 'gallia' (the default of setup_logging)",
        "the root logger has no handlers of its own (no logging.basicConfig by the embedding program)",
    ]
    # ---- cases: enumerated + seeded families, TLC-simulated design behaviours
    cases = cs.build(tier, seed)
    sims = _spec_to_code(rep, tier, seed)
    cases += sims
    seen: set[str] = set()
    uniq: list[dict[str, Any]] = []
    for c in cases:
        d = _digest(c)
        if d not in seen:
            seen.add(d)
            c.setdefault("cn", len(uniq))
            uniq.append(c)
    # mutant of the harness's own stream fake (binding self-test): it loses every second write
    base_mut = next(c for c in uniq if c.get("origin") == "threshold")
    uniq.append(dict(base_mut, origin="selftest-fake-mutant", mutant="drop-writes"))
    # ---- real executions in spawned workers (started before any TLC thread), design layer meanwhile
    step = 24
    chunks = [uniq[i:i + step] for i in range(0, len(uniq), step)]
    jobs = _mc_jobs(tier)
    ctx = mp.get_context("spawn")
    with ctx.Pool(NPROC) as pool:
        fut = pool.map_async(_work, chunks, chunksize=1)
        with ThreadPoolExecutor(max_workers=5) as ex:
            mc_results = list(ex.map(_mc_one, jobs))
        traces = [t for sub in fut.get(timeout=3000) for t in sub]
    _mc_eval(rep, jobs, mc_results)
    for i, t in enumerate(traces):
        t["id"] = i
    mutant_trace = traces.pop()
    uniq.pop()
    # ---- spec -> code drift
    ndrift = 0
    for i, c in enumerate(uniq):
        if c.get("origin") == "tlc-simulate":
            d = _drift(traces[i], c["proj"])
            if d is not None:
                ndrift += 1
                rep.drift.append(d)
    rep.extra["spec_to_code_replayed"] = len(sims)
    rep.extra["spec_to_code_drift"] = ndrift
    # ---- code -> spec
    verdicts = _validate(traces, rep)
    rep.traces = rep.evaluations = len(traces)
    origins: dict[str, int] = {}
    unspec = 0
    notes = {"records of a logger outside the namespace shown on a console installed on 'gallia' (docs/logging.md "
             "example uses get_logger(__name__))": 0, "…of these reached stderr only through logging.lastResort": 0}
    for i, t in enumerate(traces):
        o = t.get("origin", t["kind"])
        origins[o] = origins.get(o, 0) + 1
        if _nontrivial(t):
            rep.nontrivial.add(_digest(uniq[i]))
        v, un, at = verdicts[i]
        unspec += 1 if un else 0
        if t["kind"] == "run":
            only_gallia = not any(e["a"] == "setup" and e["node"] == "root" for e in t["ev"])
            for e in t["ev"]:
                if e["a"] == "log" and e["src"] == "other" and only_gallia:
                    k0, k1 = list(notes)
                    notes[k0] += 1
                    notes[k1] += 1 if e["w"] else 0
        if v != "ok":
            detail = {"case": uniq[i], "at_event": at}
            if t["kind"] == "run":
                detail["events"] = [{k: x for k, x in e.items() if k != "w"} | {"chunks": len(e.get("w", []))}
                                    for e in t["ev"]][:40]
                if at:
                    detail["failing_event"] = t["ev"][at - 1]
            elif t["kind"] == "hr":
                detail.update(exit=t["exit"], exc=t["exc"], printed=len(t["w"]), records=len(t["recs"]))
            elif t["kind"] == "pair":
                diff = next((j for j, (a, b) in enumerate(zip(t["a"], t["b"])) if a != b), None)
                detail.update(first_difference=diff, a=t["a"][diff] if diff is not None else None,
                              b=t["b"][diff] if diff is not None else None, lens=[len(t["a"]), len(t["b"])])
            else:
                detail["observed"] = {k: x for k, x in t.items() if k not in ("id",)}
            rep.violate(v, _sig(t, v, at), detail)
    rep.extra["origins"] = origins
    rep.extra["unspecified"] = {"executions with an aspect the sources are silent about (see the contract header)": unspec}
    rep.extra["measured_not_judged"] = notes
    rep.extra["chunks_rendered"] = sum(len(e.get("w", [])) for t in traces if t["kind"] == "run" for e in t["ev"]) + sum(
        len(t["w"]) for t in traces if t["kind"] == "hr")
    for i in (0, len(traces) // 3, len(traces) // 2, len(traces) - 1):
        t = traces[i]
        rep.sample({"kind": t["kind"], "origin": t.get("origin"), "verdict": verdicts[i][0],
                    "what": [e["a"] + (f":{e['src']}@{e['prio']}" if e["a"] == "log" else "") for e in t["ev"]][:14]
                    if t["kind"] == "run" else {k: t.get(k) for k in ("mode", "tty", "what", "n", "cls", "s") if k in t}})
    rep.exhaustive = True
    n = 3 if tier == "quick" else 5
    rep.extra["exhaustive_spaces"] = (
        "console level x file level x record level (7 x 7 x 7) x console on logger '' / 'gallia' x volatile on / off; "
        "colour mode x stderr tty x NO_COLOR x volatile x console node with records of all 7 levels and every shape; "
        "GALLIA_LOGLEVEL over every documented value (names, 0..8), unset and undocumented, x node; "
        f"every action word of length {n} over {{setup on '', setup on 'gallia', add / remove file 1 / 2, log from "
        "'gallia' / a child / an outside logger}} after a first setup; hr: --color x stdout tty x stderr tty x NO_COLOR "
        "x prefix all / none / mixed x (synthesised with / without python level, gallia's own writer); -v -2..100; "
        "from_str over every name in 4 spellings and 0..8; everything else seeded samples")
    rep.extra["design_layer_not_vacuous"] = "every action of LogFront is taken in MC_LogFront_cov (TLC -coverage)"
    # ---- binding self-tests
    _selftest(rep, traces, verdicts, mutant_trace)
    return rep


def _selftest(rep: Report, traces: list[dict[str, Any]], verdicts: dict[int, tuple[str, int, int]],
              mutant_trace: dict[str, Any]) -> None:
    def clone(t: dict[str, Any]) -> dict[str, Any]:
        return json.loads(json.dumps(t))

    # a run that already reports violations may have no accepted trace of some kind left: the self-test is then
    # carried out on what is left and its result recorded, the run fails through its violations anyway
    strict = not rep.violations

    class _Skip(Exception):
        pass

    def pick(pred: Any) -> dict[str, Any]:
        for i, t in enumerate(traces):
            if verdicts[i][0] == "ok" and pred(t):
                return clone(t)
        if strict:
            raise Machinery("no accepted trace to run a binding self-test on")
        raise _Skip

    def shown(t: dict[str, Any]) -> list[int]:
        return [j for j, e in enumerate(t["ev"]) if e["a"] == "log" and len(e["w"]) == 1]

    def rms(t: dict[str, Any]) -> list[int]:
        return [j for j, e in enumerate(t["ev"]) if e["a"] == "rm" and len(e["got"]) >= 2]

    thr = lambda t: t.get("origin") == "threshold" and shown(t) and rms(t)  # noqa: E731
    muts: list[tuple[str, dict[str, Any], Any]] = []

    def m_console_removed() -> dict[str, Any]:
        a = pick(thr); a["ev"][shown(a)[0]]["w"] = []; return a

    def m_console_twice() -> dict[str, Any]:
        b = pick(thr); j = shown(b)[0]; b["ev"][j]["w"] = b["ev"][j]["w"] * 2; return b

    def m_file_removed() -> dict[str, Any]:
        c = pick(thr); c["ev"][rms(c)[0]]["got"].pop(0); return c

    def m_file_holds() -> dict[str, Any]:
        d = pick(lambda t: thr(t) and any(e["a"] == "log" and e["id"] not in t["ev"][rms(t)[0]]["got"] for e in t["ev"]))
        jd = rms(d)[0]
        missing = next(e["id"] for e in d["ev"] if e["a"] == "log" and e["id"] not in d["ev"][jd]["got"])
        d["ev"][jd]["got"].append(missing); return d

    def m_file_order() -> dict[str, Any]:
        e_ = pick(thr); g = e_["ev"][rms(e_)[0]]["got"]; g[0], g[1] = g[1], g[0]; return e_

    def m_colour_never() -> dict[str, Any]:
        f = pick(thr); f["ev"][shown(f)[0]]["w"][0]["sgr"] = 1; return f

    def m_not_terminated() -> dict[str, Any]:
        h = pick(lambda t: thr(t) and not t["ev"][0]["vol"]); h["ev"][shown(h)[0]]["w"][0]["end"] = "cr"; return h

    def m_timestamp() -> dict[str, Any]:
        k = pick(thr); k["ev"][shown(k)[0]]["w"][0]["tms"] += 5; return k

    def m_closed_changed() -> dict[str, Any]:
        m = pick(thr); m["ev"][-1]["files"][0] = m["ev"][-1]["files"][0] + [1]; return m

    def m_late() -> dict[str, Any]:
        m = pick(thr); m["ev"][-1]["late"][0] = 2; return m

    def m_hr_missing() -> dict[str, Any]:
        hr = pick(lambda t: t["kind"] == "hr" and len(t["w"]) >= 7); hr["w"].pop(); return hr

    def m_hr_escape() -> dict[str, Any]:
        hr2 = pick(lambda t: t["kind"] == "hr" and t["mode"] == "never" and len(t["w"]) >= 7); hr2["w"][2]["rst"] = 1
        return hr2

    def m_pair() -> dict[str, Any]:
        pr = pick(lambda t: t["kind"] == "pair" and t["a"]); pr["a"][0] = pr["a"][0] + "x"; return pr

    def m_verb() -> dict[str, Any]:
        vb = pick(lambda t: t["kind"] == "verb" and t["n"] == 1); vb["prio"] = 6; return vb

    def m_fromstr() -> dict[str, Any]:
        fs = pick(lambda t: t["kind"] == "fromstr" and t["cls"] == "name"); fs["res"] = (fs["res"] + 1) % 9; return fs

    for name, fn, want in [
            ("console chunk removed", m_console_removed, "S1/console-missing"), ("console chunk twice", m_console_twice, "S3/"),
            ("file record removed", m_file_removed, "S2/file-misses"),
            ("file holds a record below its level", m_file_holds, "S2/file-holds"), ("file order swapped", m_file_order, "S4/"),
            ("colour code under NEVER", m_colour_never, "K2/"), ("line not terminated", m_not_terminated, "O1/"),
            ("timestamp off by 5 ms", m_timestamp, "R5/"), ("closed file changed", m_closed_changed, "S6/closed"),
            ("removed handler still fed", m_late, "S6/removed"), ("hr output missing", m_hr_missing, "H0/"),
            ("hr escape code under never", m_hr_escape, "K2/"), ("pair differs", m_pair, ("K", "H")),
            ("-v 1 gives INFO", m_verb, "V1/"), ("from_str off by one", m_fromstr, "M4/")]:
        try:
            muts.append((name, fn(), want))
        except _Skip:
            continue
    muts.append(("stream fake loses every second write", mutant_trace, "S1/console-missing"))
    for n, (_, t, _) in enumerate(muts):
        t["id"] = n
    v = _validate([t for _, t, _ in muts], None)
    got = {name: v[n][0] for n, (name, _, _) in enumerate(muts)}
    wrong = [name for n, (name, _, want) in enumerate(muts) if not v[n][0].startswith(want)]
    if wrong and strict:
        raise Machinery(f"binding self-test: corrupted traces / fake mutant not rejected as expected: {wrong}: {got}")
    rep.extra["binding_selftest"] = got
    if wrong:
        rep.extra["binding_selftest_not_as_expected_on_a_violating_tree"] = wrong


def replay(path: str) -> int:
    data = json.loads(open(path).read())
    cases = []
    bad = 0
    for n, v in enumerate(data["violations"]):
        case = v["detail"].get("case")
        if case is None:
            print(f"replay: violation {n} ({v['clause']}) is a design-layer counterexample: re-run ./check X19")
            bad += 1
            continue
        cases.append(case)
    if cases:
        ctx = mp.get_context("spawn")
        with ctx.Pool(1) as pool:
            traces = pool.apply(_work, (cases,))
        for i, t in enumerate(traces):
            t["id"] = i
        verdicts = _validate(traces, None)
        for t in traces:
            print(f"replay kind={t['kind']} origin={t.get('origin')} verdict={verdicts[t['id']][0]}")
            bad += verdicts[t["id"]][0] != "ok"
    if bad:
        print(f"VIOLATION property=X19 replay={path}")
        return 1
    return 0
