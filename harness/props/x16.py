"""X16 (growth) -- the capture life cycle: gallia.dumpcap.Dumpcap (command line / capture filter for every transport
scheme, start, sync, the compressor task, stop) and `--dumpcap / --no-dumpcap` of Scanner.setup() / teardown().

spec   : spec/DumpcapContract.tla (A1 A2 A4 command line; R0..R6 start / sync report failures; T0..T3 stop protocol;
         G0..G2 the pcap.gz file; S0..S6 Scanner) -- pcap-filter(7) semantics evaluated by TLC on probe packets
         spec/Dumpcap.tla (design: client / capture process / compressor task, one action per await point)
MC     : MC_Dumpcap_cmd (every scheme), MC_Dumpcap_life / life3 (every scripted process behaviour x every interleaving),
         MC_Dumpcap_scan; negative controls MC_Dumpcap_dev* (devPortZero = the tree as found, finding X16-F1)
binding: the REAL Dumpcap class and the REAL Scanner life cycle on the normal asyncio loop in real time, against a FAKE
         `dumpcap` executable (harness/x16_fake.py) put first on PATH of the worker process: real subprocess, real pipe,
         real gzip file, real TCP connection to a listener on the loopback interface.
         code->spec: every execution validated by Trace_Dumpcap; spec->code: TLC-simulated design behaviours replayed
         into the real class (DRIFT only).
findings on tree 8540207: X16-F1 (DoIP / HSFZ URI without a port: capture filter `tcp port 0`, nothing is recorded);
         note X16-N1 (what happens where the sources are silent: setup() failing after the capture was started leaves the
         process running, stop() waits for ever for a process that ignores SIGTERM, ...).
"""

from __future__ import annotations

import hashlib
import json
import multiprocessing as mp
import os
from concurrent.futures import ThreadPoolExecutor
from typing import Any

from harness import tlc
from harness import x16_cases as cs
from harness.common import Machinery, Report
from harness.x16_filter import Unparsed
from harness.x16_run import run_case, setup_logging

NPROC = max(2, min(10, (os.cpu_count() or 4) - 2))

MC_QUICK = ["cmd", "life", "scan"]
MC_THOROUGH = ["cmd", "life", "life3", "scan", "scan3"]
COVER = {"life", "scan"}
SMALL_JVM = {"JAVA_TOOL_OPTIONS": "-XX:TieredStopAtLevel=1 -XX:ParallelGCThreads=2 -XX:CICompilerCount=1"}
# negative controls: config -> (invariant TLC must name, prefix of a label the counterexample must carry)
NEG = {
    "devPortZero": ("A_Cmd_Inv", "A4/"),
    "devCanBigEndian": ("A_Cmd_Inv", "A4/"),
    "devUnixSpawns": ("A_Cmd_Inv", "A1/"),
    "devSyncAlwaysOk": ("R_Report_Inv", "R"),
    "devTermFirst": ("T_Stop_Inv", "T2/"),
    "devNoProcWait": ("T_Stop_Inv", "T1/"),
    "devNoJoin": ("T_Stop_Inv", "T3/"),
    "devDropAfterTerm": ("G_File_Inv", "G1/"),
    "devDupChunk": ("G_File_Inv", "G2/"),
    "devConnectFirst": ("S_Life_Inv", "S2/"),
    "devNoFinally": ("S_Life_Inv", "S3/"),
    "devSilentFailure": ("S_Scan_Inv", "S"),
}
DESIGN_ACTIONS = ("ScanNotAvailable", "Begin", "StartCheck", "SyncOk", "SyncTimeout", "Connect", "Main", "Teardown", "Go",
                  "StopCall", "CleanupWait", "Terminate", "WaitProc", "WaitComp", "ProcWrite", "ProcDie", "ProcSelfExit",
                  "ProcSignal", "HKill", "Reap", "CompRead", "CompWrite", "CompEof")
TRACE_DROP = ("excs", "names", "argv_raw", "errmsgs", "origin", "progress", "left_running", "nspawn", "ready_after_setup_ns",
              "escaped")


# ------------------------------------------------------------------ model checking
def _mc(rep: Report, tier: str) -> None:
    jobs: list[tuple[str, tuple[str, str] | None]] = [(c, None) for c in (MC_THOROUGH if tier == "thorough" else MC_QUICK)]
    jobs += [(c, want) for c, want in NEG.items()]

    def one(j: tuple[str, tuple[str, str] | None]) -> Any:
        c, want = j
        cover = c in COVER
        return tlc.run_tlc("MC_Dumpcap", f"MC_Dumpcap_{c}.cfg", workers=1 if want else 2, timeout=1200, coverage=cover,
                           heap="1g", env=None if cover else SMALL_JVM)

    with ThreadPoolExecutor(max_workers=6) as ex:
        results = list(ex.map(one, jobs))
    cover: dict[str, int] = {}
    for (c, want), res in zip(jobs, results):
        rep.add_tlc(res, f"MC_Dumpcap_{c}" + (" (negative control)" if want else ""))
        if want is None:
            if not res.ok:
                rep.violate(f"design/{res.violated}", {"where": "design layer Dumpcap", "cfg": c},
                            {"cex": res.cex[-6:], "out": res.out[-1500:]})
        else:
            inv, label = want
            labels = [p[1] for p in res.prints if isinstance(p, list) and len(p) == 2 and p[0] == "L"]
            if res.violated != inv or not any(str(x).startswith(label) for x in labels):
                raise Machinery(f"negative control MC_Dumpcap_{c} did not violate {inv} with a label {label!r}* "
                                f"(got {res.violated}, labels {sorted(set(map(str, labels)))[:4]}): the contract is vacuous there")
        if c in COVER:
            for a, (n, _) in res.coverage.items():
                if a in DESIGN_ACTIONS:
                    cover[a] = cover.get(a, 0) + n
    never = [a for a in DESIGN_ACTIONS if cover.get(a, 0) == 0]
    if never:
        raise Machinery(f"design actions never taken in the coverage runs: {never}")
    rep.extra["design_action_coverage"] = cover
    rep.extra["negative_controls"] = sorted(f"MC_Dumpcap_{c}" for c in NEG)


# ------------------------------------------------------------------ real executions
def _safe_run(case: dict[str, Any]) -> dict[str, Any]:
    try:
        return run_case(case)
    except Unparsed as e:
        return {"machinery": f"capture filter outside the grammar of harness/x16_filter.py: {e}"}


def _run_cases(cases: list[dict[str, Any]]) -> list[dict[str, Any]]:
    if not cases:
        return []
    ctx = mp.get_context("fork")
    with ctx.Pool(NPROC) as pool:
        out = pool.map(_safe_run, cases, chunksize=1)
    for t in out:
        if "machinery" in t:
            raise Machinery(t["machinery"])
    return out


def _slim(t: dict[str, Any]) -> dict[str, Any]:
    x = {k: v for k, v in t.items() if k not in TRACE_DROP}
    x["argv"] = {k: v for k, v in t["argv"].items() if k != "raw"}
    x["tgt"] = {k: v for k, v in t["tgt"].items() if k != "scheme"}
    return x


def _validate(traces: list[dict[str, Any]], rep: Report | None) -> tuple[dict[int, str], dict[int, int], dict[int, int]]:
    jobs = [traces[i:i + 1500] for i in range(0, len(traces), 1500)]

    def one(sub: list[dict[str, Any]]) -> Any:
        return tlc.validate_batch("Trace_Dumpcap", "Trace_Dumpcap.cfg", {"traces": [_slim(t) for t in sub]}, timeout=900,
                                  workers=1, heap="1g", env={"JAVA_TOOL_OPTIONS": "-Xss64m -XX:ParallelGCThreads=2"})

    with ThreadPoolExecutor(max_workers=4) as ex:
        results = list(ex.map(one, jobs))
    verdicts: dict[int, str] = {}
    unspec: dict[int, int] = {}
    sel: dict[int, int] = {}
    for res in results:
        if rep is not None:
            rep.add_tlc(res, "Trace_Dumpcap batch")
        for p in res.prints:
            if isinstance(p, list) and len(p) == 3:
                {"V": verdicts, "U": unspec, "D": sel}.get(p[0], {})[p[1]] = p[2]
    missing = [t["id"] for t in traces if t["id"] not in verdicts]
    if missing:
        raise Machinery(f"TLC produced no verdict for {len(missing)} traces (first id {missing[0]}):\n" + results[-1].out[-2000:])
    return verdicts, unspec, sel


# ------------------------------------------------------------------ spec -> code
def _plain(v: Any) -> Any:
    if isinstance(v, dict) and "$fn" in v:
        return {k: _plain(x) for k, x in v["$fn"]}
    if isinstance(v, dict):
        return {k: _plain(x) for k, x in v.items()}
    if isinstance(v, list):
        return [_plain(x) for x in v]
    return v


def _spec_to_code(rep: Report, tier: str, seed: int) -> list[tuple[dict[str, Any], dict[str, Any]]]:
    nsim = 30 if tier == "quick" else 300
    _res, behs = tlc.simulate_behaviours("MC_Dumpcap", "MC_Dumpcap_sim.cfg", num=nsim, depth=60, seed=seed + 1, timeout=600)
    out: list[tuple[dict[str, Any], dict[str, Any]]] = []
    seen = set()
    for n, b in enumerate(behs):
        if not b or b[-1][1].get("pc") != "Fin":
            continue
        st = _plain(b[-1][1])
        acts = [a for a, _ in b]
        sc = st["sc"]
        writes_before_stop = 0
        for a in acts:
            if a == "StopCall":
                break
            writes_before_stop += a == "ProcWrite"
        selfexit_before_stop = "ProcSelfExit" in acts and ("StopCall" not in acts or acts.index("ProcSelfExit") < acts.index("StopCall"))
        k = max(1, writes_before_stop)
        chunks = [[48, 0]] + [[1000 + 17 * i, 0] for i in range(k - 1)]
        s = cs.script(ready=sc["ready"], on_term=sc["on_term"], then=sc["then"], tail=555, chunks=chunks, exit_code=1, die_code=2)
        when: dict[str, Any] = {"wrote": sum(c[0] for c in chunks)}
        if sc["ready"] == "header" and sc["then"] == "exit":
            s["gate_after"] = k - 1
            when = {"go": True, "exit": True} if selfexit_before_stop else {"wrote": sum(c[0] for c in chunks), "go_at_stop": True}
        case = {"kind": "cls", "uri": cs.URI, "script": s, "cleanup_ms": 30, "sync": "long" if sc["ready"] == "header" else "default",
                "stream_seed": 100 + n, "stop_when": when, "origin": f"tlc-simulate[{n}]"}
        key = json.dumps([s, when], sort_keys=True)
        if key in seen:
            continue
        seen.add(key)
        want = {"start": st["startR"], "sync": st["syncR"], "stop": st["stopR"], "file_is_what_was_written": st["file"] == list(range(1, st["pw"] + 1)),
                "ready": sc["ready"]}
        out.append((case, want))
    rep.extra["simulated_behaviours"] = len(behs)
    rep.extra["spec_to_code_cases"] = len(out)
    if len(out) < 6:
        raise Machinery(f"spec->code: only {len(out)} distinct complete design behaviours out of {nsim} simulated")
    return out


def _projection(t: dict[str, Any]) -> dict[str, Any]:
    return {"start": t["start"], "sync": t["sync"], "stop": t["stop"],
            "file_is_what_was_written": t["got"] == t["want"] == t["prefix"], "ready": t["script"]["ready"]}


def _same(design: dict[str, Any], code: dict[str, Any]) -> bool:
    if design["ready"] == "die":  # whether start() still sees the process alive depends on the machine
        return not (code["start"] == "obj" and code["sync"] == "ok")
    if design["start"] != "obj" or code["start"] != "obj":
        return design["start"] == code["start"]
    return design == code


# ------------------------------------------------------------------ evidence helpers
def _digest(case: dict[str, Any]) -> str:
    c = {k: v for k, v in case.items() if k not in ("origin", "stream_seed")}
    return hashlib.sha1(json.dumps(c, sort_keys=True).encode()).hexdigest()[:16]


def _nontrivial(case: dict[str, Any], t: dict[str, Any]) -> bool:
    sc = case["script"]
    plain = sc["ready"] == "header" and sc["then"] == "idle" and sc["on_term"] == "exit" and not case.get("stop_when") \
        and case.get("path", "fake") == "fake"
    if t["kind"] == "scan":
        return not (plain and case.get("main", {}).get("how", "ok") == "ok")
    return not plain or t["tgt"]["kind"] != "eth" or t["tgt"].get("scheme") in ("doip", "hsfz") or any(a["fam"] == "ip6" for a in t["tgt"]["addrs"])


def _sig(t: dict[str, Any], clause: str) -> dict[str, Any]:
    sig: dict[str, Any] = {"unit": "Scanner" if t["kind"] == "scan" else "Dumpcap", "scheme": t["tgt"].get("scheme", "")}
    if clause.startswith("A"):
        if t["tgt"]["kind"] == "eth":
            sig["port_in_uri"] = bool(t.get("port_in_uri"))
    else:
        sig["script"] = "/".join(t["script"][k] for k in ("ready", "on_term", "then"))
        if t["kind"] == "scan":
            sig["main"] = t["cfg"]["main"]
            sig["path"] = t["path"]
    return sig


def build_cases(tier: str, seed: int) -> list[dict[str, Any]]:
    return cs.cmdline_cases(tier) + cs.life_cases(tier, seed) + cs.scan_cases(tier, seed)


def _port_in_uri(case: dict[str, Any]) -> bool:
    from urllib.parse import urlparse

    if case["kind"] != "cls":
        return True
    try:
        return urlparse(case["uri"]).port is not None
    except ValueError:
        return False


def run(tier: str, seed: int) -> Report:
    setup_logging()  # not quiet_gallia_logging(): the log records of start() / setup() are an observation point
    rep = Report("X16", tier, seed)
    rep.rule = ("executions = complete start/sync/stop cycles of the real Dumpcap class against a scripted fake dumpcap process, "
                "complete runs of the real Scanner life cycle (entry_point) with --dumpcap / --no-dumpcap; evaluations = the "
                "same; distinct = distinct case descriptions (URI, script of the process, moment of stop, options); non-trivial = "
                "anything but a healthy process on a plain IPv4 tcp target that exits on SIGTERM while idle, main() returning normally")
    rep.assumptions = [
        "growth item, not a listed property: statement in growth/X16.json, sources listed in spec/DumpcapContract.tla",
        "`dumpcap` is not installed in the sandbox: a FAKE executable (harness/x16_fake.py, generated into a private temporary "
        "directory that is first on PATH of the worker process only) records its argv, honours -w -, writes a scripted pcapng "
        "stream in scripted chunks and reacts to SIGTERM / SIGINT as scripted; whether the real dumpcap accepts the filter "
        "expression is judged by a parser of the pcap-filter(7) grammar subset in harness/x16_filter.py (anything outside it is a "
        "machinery failure, never a verdict)",
        "real time on the normal asyncio loop: every bound (45 s per call) only decides when the harness stops waiting and "
        "records 'hang'; the only lower bound judged is signal-not-before-the-cleanup-wait (load can only lengthen it)",
        "the port / host the transport really connects to is measured: the transport class' connect() runs against a patched "
        "asyncio.open_connection that records (host, port) and refuses",
        "the CAN link layer is the one the comment in _can_cmd names (can_id little endian in the first four bytes); the sandbox "
        "has no CAN interface, so only the command line is judged for isotp / can-raw targets",
        "Scanner runs use tcp-lines targets on 127.0.0.1 / ::1 / localhost with a real listener; DoIP / HSFZ targets are driven at "
        "the Dumpcap class level only (the command line does not depend on the gateway answering)",
        "environment variable all_proxy is removed (its effect on the filter is not documented: unspecified)",
    ]
    _mc(rep, tier)
    cases = build_cases(tier, seed)
    sims = _spec_to_code(rep, tier, seed)
    proj: dict[int, dict[str, Any]] = {}
    for case, want in sims:
        proj[len(cases)] = want
        cases.append(case)
    traces = _run_cases(cases)
    for i, t in enumerate(traces):
        t["id"] = i
        t["port_in_uri"] = _port_in_uri(cases[i])
    drift = 0
    for i, want in proj.items():
        got = _projection(traces[i])
        if not _same(want, got):
            drift += 1
            rep.drift.append({"origin": cases[i]["origin"], "design": want, "code": got})
    rep.extra["spec_to_code_replayed"] = len(proj)
    rep.extra["spec_to_code_drift"] = drift
    slim_keys = ("port_in_uri",)
    verdicts, unspec, sel = _validate([{k: v for k, v in t.items() if k not in slim_keys} for t in traces], rep)
    rep.traces = len(traces)
    rep.evaluations = len(traces)
    kinds: dict[str, int] = {}
    unselective = 0
    for i, t in enumerate(traces):
        key = t["kind"] + "/" + t["tgt"].get("scheme", "")
        kinds[key] = kinds.get(key, 0) + 1
        if _nontrivial(cases[i], t):
            rep.nontrivial.add(_digest(cases[i]))
        if sel.get(i, 1) == 0:
            unselective += 1
            if unselective <= 5:
                rep.drift.append({"origin": cases[i]["origin"], "design": "the filter rejects traffic that is not the target's",
                                  "code": t["argv"].get("raw")})
        v = verdicts[i]
        if v == "ok" and t["kind"] == "cls" and not t["progress"]:
            raise Machinery(f"the fake dumpcap did not reach the scripted point within the patience of the harness "
                            f"({cases[i]['origin']}) although nothing is wrong with the execution")
        if v != "ok":
            detail = {"case": cases[i], "trace": {k: t[k] for k in t if k not in ("argv", "tgt", "id")},
                      "argv": t.get("argv_raw"), "tgt": t["tgt"]}
            rep.violate(v, _sig(t, v), detail)
    rep.extra["executions_by_kind"] = kinds
    rep.extra["filters_that_do_not_reject_foreign_traffic"] = unselective
    rep.extra["unspecified"] = {
        "Dumpcap cycles at points the documented sources are silent about (a process that ignores SIGTERM: stop() waited until "
        "the harness killed it; targets whose filter is not documented: extended CAN ids, no ids, URI without a port and no "
        "transport default; host names; start() raising)": sum(unspec.get(i, 0) for i, t in enumerate(traces) if t["kind"] == "cls"),
        "Scanner runs (process ignoring SIGTERM, setup() failing after the capture was started -- the process is left running, "
        "no artifacts directory, unix socket target)": sum(unspec.get(i, 0) for i, t in enumerate(traces) if t["kind"] == "scan"),
    }
    rep.extra["observed_where_unspecified"] = {
        "stop() on a process that ignores SIGTERM": sorted({t["stop"] for t in traces if t["kind"] == "cls" and t["start"] == "obj"
                                                            and t["script"]["on_term"] == "ignore" and t["script"]["then"] == "idle"}),
        "capture process still running after a run whose setup() failed": sum(
            1 for t in traces if t["kind"] == "scan" and t["spawned"] and not t["connected"] and t["left_running"]),
    }
    for i in (0, len(traces) // 4, len(traces) // 2, 3 * len(traces) // 4, len(traces) - 1):
        t = traces[i]
        rep.sample({"origin": cases[i]["origin"], "verdict": verdicts[i], "argv": t.get("argv_raw"), "order": t["order"],
                    "got": t["got"], "want": t["want"], "gz": t["gz"]})
    rep.exhaustive = True
    rep.extra["exhaustive_spaces"] = (
        "model: every scripted process behaviour (ready header|never|die x on_term exit|tail|ignore x then idle|exit) x every "
        "interleaving of client, process, compressor and child watcher for up to "
        + ("3" if tier == "thorough" else "2") + " chunks; every target class of MC_Dumpcap.MCTargetsAll; real code: every scheme "
        "x IPv4 / IPv6 literal x port present / absent, every reaction to the signal x every stop moment (at once, while data "
        "flows, idle, after the process left by itself); chunk patterns, identifiers and ports are samples")
    rep.extra["design_layer_not_vacuous"] = "every action of Dumpcap.tla is taken in the coverage runs (TLC -coverage, counts in design_action_coverage)"
    _selftest(rep, traces, cases, verdicts)
    return rep


# ------------------------------------------------------------------ binding self-test
def _selftest(rep: Report, traces: list[dict[str, Any]], cases: list[dict[str, Any]], verdicts: dict[int, str]) -> None:
    def clone(t: dict[str, Any]) -> dict[str, Any]:
        x = json.loads(json.dumps({k: v for k, v in t.items() if k != "port_in_uri"}, default=str))
        return x

    def pick(pred: Any) -> dict[str, Any]:
        for i, t in enumerate(traces):
            if verdicts[i] == "ok" and pred(t):
                return t
        raise LookupError

    muts: list[tuple[str, dict[str, Any], str]] = []
    skipped: list[str] = []

    def part(name: str, fn: Any) -> None:
        try:
            fn()
        except (LookupError, StopIteration):
            if not rep.violations:
                raise Machinery(f"binding self-test: no accepted trace for the group '{name}'") from None
            skipped.append(name)

    def edit(base: dict[str, Any], name: str, want: str, **kw: Any) -> None:
        x = clone(base)
        x.update(kw)
        muts.append((name, x, want))

    def g_file() -> None:
        b = pick(lambda t: t["kind"] == "cls" and t["stop"] == "ok" and t["want"] > 1000 and t["nsig"] > 0 and t["cleanup_ms"] >= 20)
        edit(b, "one byte missing at the end of the file", "G1/", got=b["got"] - 1, prefix=b["prefix"] - 1)
        edit(b, "five bytes too many in the file", "G2/", got=b["got"] + 5)
        edit(b, "a byte in the middle differs", "G1/", prefix=b["prefix"] // 2)
        edit(b, "gzip member without end-of-stream marker", "G0/", gz="broken")
        edit(b, "no file", "G0/", files=0, gz="none", got=0, prefix=0)
        edit(b, "process a zombie when stop() returns", "T1/", alive_at_ret="zombie")
        edit(b, "signal at once", "T2/", term_after_stop_ms=0)
        edit(b, "compressor task still pending", "T3/", pending=1)
        edit(b, "stop() raised", "T0/", stop="exc")
        o = list(b["order"])
        o.remove("ready")
        o.insert(o.index("sync_ret") + 1, "ready")
        edit(b, "sync() returned before the header was written", "R4/", order=o)

    def g_cmd() -> None:
        b = pick(lambda t: t["kind"] == "cls" and t["tgt"].get("scheme") == "doip" and t["spawned"] and t["port_in_uri"])
        x = clone(b)

        def zero(n: dict[str, Any]) -> None:
            if n.get("op") == "port":
                n["lo"] = n["hi"] = 0
            for k in ("l", "r"):
                if k in n:
                    zero(n[k])
        zero(x["argv"]["filt"])
        muts.append(("filter names port 0", x, "A4/"))
        y = clone(b)
        y["argv"]["filt"] = {"op": "and", "l": y["argv"]["filt"], "r": {"op": "host", "dir": "src", "fam": "any", "addr": y["tgt"]["addrs"][0]["a"]}}
        muts.append(("filter accepts one direction only", y, "A4/"))
        c = pick(lambda t: t["kind"] == "cls" and t["tgt"]["kind"] == "can" and t["spawned"] and len(t["tgt"]["ids"]) == 2
                 and all(i <= 0x7FF and (i & 0xFF) != (i >> 8) for i in t["tgt"]["ids"]))
        z = clone(c)

        def swap(n: dict[str, Any]) -> None:
            if n.get("op") == "bytes":
                n["val"] = n["val"][::-1]
            for k in ("l", "r"):
                if k in n:
                    swap(n[k])
        swap(z["argv"]["filt"])
        muts.append(("CAN ids most significant byte first", z, "A4/"))
        edit(c, "capture on another interface", "A2/", argv=dict(clone(c)["argv"], iface="any"))
        u = pick(lambda t: t["kind"] == "cls" and t["tgt"]["kind"] == "unix")
        edit(u, "process spawned for a unix target", "A1/", spawned=1)

    def g_report() -> None:
        n = pick(lambda t: t["kind"] == "cls" and t["script"]["ready"] == "never" and t["start"] == "obj" and t["sync"] == "timeout")
        edit(n, "never-ready process passes sync()", "R3/", sync="ok")
        edit(n, "sync() hangs", "R3/", sync="hang")
        d = pick(lambda t: t["kind"] == "cls" and t["path"] == "none")
        edit(d, "missing executable: object returned", "R1/", start="obj")
        edit(d, "None without a log record", "R5/", reported=0)

    def g_scan() -> None:
        h = pick(lambda t: t["kind"] == "scan" and t["connected"] and t["spawned"] and t["cfg"]["main"] == "conn" and t["script"]["then"] == "idle"
                 and t["script"]["on_term"] != "ignore")
        o = list(h["order"])
        o.remove("connect")
        o.insert(o.index("ready"), "connect")
        edit(h, "connection before the capture is ready", "S2/", order=o)
        edit(h, "process alive after the run", "S3/", alive_at_ret="alive")
        edit(h, "failed main reported as success", "S6/", exit=0)
        edit(h, "file cut short", "G1/", got=h["got"] - 100, prefix=h["prefix"] - 100)
        m = pick(lambda t: t["kind"] == "scan" and t["path"] == "none" and t["cfg"]["dumpcap"] != 0 and t["tgt"]["kind"] == "eth")
        edit(m, "missing dumpcap, exit code 0", "S1/", exit=0)
        d = pick(lambda t: t["kind"] == "scan" and t["script"]["ready"] == "die")
        edit(d, "dead capture not reported", "S4/", exit=0, errlog=0)
        n = pick(lambda t: t["kind"] == "scan" and t["cfg"]["dumpcap"] == 0)
        edit(n, "--no-dumpcap but a process was spawned", "S5/", spawned=1)

    for name, fn in (("file", g_file), ("command line", g_cmd), ("report", g_report), ("scanner", g_scan)):
        part(name, fn)
    # mutants of the harness's own fake / driver: they do something else than they record
    fc = next(c for c in cases if c["kind"] == "cls" and c["origin"].startswith("idle/tail/7777"))
    muts.append(("fake writes other bytes than the stream the harness compares with", run_case(fc, mutant="fake-writes-other-bytes"), "G1/"))
    muts.append(("harness does not call stop()", run_case(fc, mutant="harness-skips-stop"), "T1/"))
    for n, (_, t, _) in enumerate(muts):
        t["id"] = n
    v, _u, _s = _validate([t for _, t, _ in muts], None)
    got = {name: v[n] for n, (name, _, _) in enumerate(muts)}
    wrong = [name for n, (name, _, want) in enumerate(muts) if not v[n].startswith(want)]
    if wrong and rep.violations:
        rep.extra["binding_selftest_not_as_expected_on_a_violating_tree"] = wrong
    elif wrong:
        raise Machinery(f"binding self-test: corrupted traces / fake mutants not judged as expected: {wrong}: {got}")
    rep.extra["binding_selftest"] = got
    if skipped:
        rep.extra["binding_selftest_groups_skipped_because_the_tree_violates_the_contract"] = skipped


def replay(path: str) -> int:
    setup_logging()
    data = json.loads(open(path).read())
    bad = 0
    traces = []
    for n, v in enumerate(data["violations"]):
        case = v["detail"].get("case")
        if case is None:
            print(f"replay: violation {n} ({v['clause']}) is a design-layer counterexample: re-run ./check X16")
            bad += 1
            continue
        t = run_case(case)
        t["id"] = len(traces)
        traces.append(t)
    if traces:
        verdicts, _, _ = _validate(traces, None)
        for t in traces:
            print(f"replay kind={t['kind']} origin={t['origin']} verdict={verdicts[t['id']]}")
            bad += verdicts[t["id"]] != "ok"
    if bad:
        print(f"VIOLATION property=X16 replay={path}")
        return 1
    return 0
