"""X20 (growth) -- the per-field-TYPE contract of gallia's argument parsing layer (vendored pydantic_argparse +
gallia.command.config.Field / GalliaBaseModel); statement: /verif/growth/X20.json.

spec   : spec/ArgFieldsContract.tla (clauses T0 E1 E2 D1 R1 B1 K1 V1 V2 U1 M1 H0-H5 CS1 CS3, sources in its header),
         spec/ArgFields.tla (design: argparse consumes one option occurrence at a time into the namespace, required
         check, pydantic validation per field type, usage error / result, help listing, config registry; 18 deviation
         constants, three of them describe the pinned tree as found)
MC     : MC_ArgFields_design (every field of the synthetic models x every form x no / one / two / three tokens of the
         field's token table + repeated occurrences + unknown option + stray value + help + config sections; exports
         every case with the design's outcome) + 18 negative controls MC_ArgFields_dev*
binding: the REAL parser in-process on synthetic config models built in harness/x20_models.py (a fresh
         gallia.pydantic_argparse.ArgumentParser per case, and gallia.cli.gallia.create_parser on stand-in command
         classes / a command tree inside harness.c18_lib.Sandbox);
         spec -> code: EVERY case TLC enumerated is rendered into an argument vector and executed (both ways in);
         disagreement with the design inside the contract = DRIFT;
         code -> spec: every record (TLC cases + seeded random argument vectors: several fields, order permutations,
         `=` / separate value, repeated options, abbreviations, `--`, negative numbers, positional layouts) is validated
         by Trace_ArgFields (TLC decides).
"""

from __future__ import annotations

import json
import multiprocessing as mp
import os
import tempfile
from concurrent.futures import ThreadPoolExecutor
from typing import Any

from harness import tlc
from harness.common import Machinery, Report, quiet_gallia_logging

NEG = {
    "devNegSetsTrue": "Inv_Parse", "devConstNeedsValue": "Inv_Parse", "devRequiredOptional": "Inv_Parse",
    "devValidationRaises": "Inv_Parse", "devExitOne": "Inv_Parse", "devHiddenOnCli": "Inv_Parse",
    "devUnknownIgnored": "Inv_Parse", "devListFirstOnly": "Inv_Parse", "devHexIntDecimal": "Inv_Parse",
    "devEnumByValueOnly": "Inv_Parse", "devDefaultLost": "Inv_Parse", "devErrorNamesNothing": "Inv_Parse",
    "devHelpListsHidden": "Inv_Help", "devHelpOmitsDefault": "Inv_Help", "devSectionClassWins": "Inv_Config",
    "devAutoLitEnumOnly": "Inv_Parse", "devHelpPercent": "Inv_Help", "devHiddenInRegistry": "Inv_Config",
}
ACTIONS = ["Take", "EndArgs", "Validate", "Report", "Help", "Config"]
NPROC = max(2, min(8, (os.cpu_count() or 4) - 2))
JOPT = {"JAVA_TOOL_OPTIONS": "-XX:TieredStopAtLevel=1 -XX:ParallelGCThreads=2"}
RANDOM = {"quick": 4000, "thorough": 90000}


# ------------------------------------------------------------------ 1. design layer
def _universe_file(d: str) -> str:
    from harness import x20_models as X

    path = os.path.join(d, "universe.json")
    with open(path, "w") as f:
        json.dump(X.universe(), f)
    return path


def _design(rep: Report, ufile: str) -> Any:
    res = tlc.run_tlc("MC_ArgFields", "MC_ArgFields_design.cfg", workers=1, timeout=900, env={"X20_UNIVERSE": ufile})
    rep.add_tlc(res, "MC_ArgFields_design")
    if not res.ok:
        rep.violate(f"design/{res.violated}", {"where": "ArgFields design layer"}, {"cex": res.cex[-8:], "out": res.out[-1500:]})
    return res


def _negatives(rep: Report, ufile: str) -> None:
    def one(c: str) -> Any:
        return tlc.run_tlc("MC_ArgFields", f"MC_ArgFields_{c}.cfg", workers=1, timeout=900, parse_prints=False,
                           env=dict(JOPT, X20_UNIVERSE=ufile))

    with ThreadPoolExecutor(max_workers=6) as ex:
        results = list(ex.map(one, list(NEG)))
    for c, res in zip(NEG, results):
        rep.add_tlc(res, f"MC_ArgFields_{c} (negative control)")
        if res.violated != NEG[c]:
            raise Machinery(f"negative control MC_ArgFields_{c} did not violate {NEG[c]} (got {res.violated}): contract is vacuous")
    rep.extra["negative_controls"] = sorted(NEG)
    rep.extra["as_found_controls"] = ("devAutoLitEnumOnly / devHelpPercent / devHiddenInRegistry reproduce findings "
                                      "X20-autoliteral-*, X20-help-percent, X20-hidden-field-registered in the design")


# ------------------------------------------------------------------ 2. real executions
_BOX: list[Any] = []


def _work(arg: tuple[int, dict[str, Any]]) -> tuple[int, dict[str, Any]]:
    from harness import x20_run as R

    i, job = arg
    try:
        if job["kind"] == "parse":
            if job["via"] == "gallia" and not _BOX:
                _BOX.append(R.Box())
            return i, R.parse_record(job["case"], job["via"], _BOX[0] if job["via"] == "gallia" else None)
        if job["kind"] == "help":
            if job["via"] == "gallia" and not _BOX:
                _BOX.append(R.Box())
            return i, R.help_record(job["m"], job["via"], job["ext"], _BOX[0] if job["via"] == "gallia" else None)
        return i, R.config_record(job["m"])
    except Machinery as e:
        return i, {"machinery": str(e)}


def _init(parent: str) -> None:
    tempfile.tempdir = parent  # the Sandbox directories of the workers live (and die) with the parent's directory


def _run_jobs(jobs: list[dict[str, Any]]) -> list[dict[str, Any]]:
    import shutil

    from harness import x20_run as R  # noqa: F401  (import gallia before forking)

    ctx = mp.get_context("fork")
    out: dict[int, dict[str, Any]] = {}
    parent = tempfile.mkdtemp(prefix="x20w-")
    try:
        with ctx.Pool(NPROC, initializer=_init, initargs=(parent,)) as pool:
            for i, res in pool.imap_unordered(_work, list(enumerate(jobs)), chunksize=64):
                out[i] = res
    finally:
        shutil.rmtree(parent, ignore_errors=True)
    recs = []
    for i in range(len(jobs)):
        if "machinery" in out[i]:
            raise Machinery(out[i]["machinery"])
        r = out[i]
        r["id"] = i
        r["design"] = jobs[i].get("design")
        recs.append(r)
    return recs


def _slim(r: dict[str, Any]) -> dict[str, Any]:
    """the fields Trace_ArgFields reads"""
    k = r["kind"]
    x: dict[str, Any] = {"id": r["id"], "kind": k, "m": r["m"]}
    if k == "parse":
        x.update(items=r["items"], sep=r["sep"], inter=r["inter"], out=r["out"])
    elif k == "help":
        x.update(h=r["h"])
    else:
        x.update(obs=r["obs"])
    return x


CULPRIT: dict[int, str] = {}  # record id -> the field TLC's verdict is about (last validation)


def _validate(recs: list[dict[str, Any]], rep: Report | None, chunk: int = 6000) -> dict[int, str]:
    from harness import x20_models as X

    models = [X.model_descriptor(m) for m in X.FIELDS]
    parts = [recs[o:o + chunk] for o in range(0, len(recs), chunk)]

    def one(sub: list[dict[str, Any]]) -> Any:
        return tlc.validate_batch("Trace_ArgFields", "Trace_ArgFields.cfg", {"models": models, "traces": [_slim(r) for r in sub]},
                                  timeout=1800, workers=1, heap="3g", env={"JAVA_TOOL_OPTIONS": "-Xss64m"})

    with ThreadPoolExecutor(max_workers=4) as ex:
        results = list(ex.map(one, parts))
    verdicts: dict[int, str] = {}
    CULPRIT.clear()
    for res in results:
        if rep is not None:
            rep.add_tlc(res, "Trace_ArgFields batch")
        for p in res.prints:
            if isinstance(p, list) and len(p) == 4 and p[0] == "V":
                verdicts[p[1]] = p[2]
                CULPRIT[p[1]] = p[3]
    missing = [r["id"] for r in recs if r["id"] not in verdicts]
    if missing:
        raise Machinery(f"TLC produced no verdict for {len(missing)} records (first id {missing[0]}):\n" + results[-1].out[-2500:])
    return verdicts


# ------------------------------------------------------------------ facts of a case (no judging)
def _culprit(r: dict[str, Any]) -> Any:
    """the field TLC's verdict on this parse record is about"""
    from harness import x20_models as X

    name = CULPRIT.get(r["id"], "")
    return X.fd_of(r["m"], name) if name else None


def _sig(r: dict[str, Any]) -> dict[str, Any]:
    from harness import x20_models as X

    k = r["kind"]
    if k == "parse":
        fd = _culprit(r)
        if fd is None:
            return {"rec": k, "m": r["m"], "field_kind": "-"}
        sig = {"rec": k, "field_kind": fd.kind + (":" + fd.elem if fd.elem else ""), "nested": bool(fd.path),
               "subcommand": bool(X.PREFIX[r["m"]])}
        if fd.kind == "autolit":
            sig["members"] = {int: "int", bytes: "bytes"}.get(type(fd.members[0]), "enum")
        return sig
    if k == "help":
        return {"rec": k, "percent_sign_in_texts": bool(X.model_descriptor(r["m"])["pct"] or r["ext"]), "exception": r["exc"].split(":")[0]}
    bad = [fd.name for fd, o in zip(X.FIELDS[r["m"]], r["obs"]) if fd.hidden and (o["picked"] != "-" or o["inreg"] != "-")]
    return {"rec": k, "m": r["m"], "hidden_field_registered": bool(bad)}


def _detail(r: dict[str, Any]) -> dict[str, Any]:
    d = {k: v for k, v in r.items() if k not in ("design",)}
    if r["kind"] == "parse":
        d["case"] = {"m": r["m"], "items": r["items"], "sep": r["sep"], "inter": r["inter"]}
    return d


def _key(r: dict[str, Any]) -> str:
    return json.dumps([r["kind"], r["m"], r.get("argv"), r.get("ext")], default=str)


def _nontrivial(r: dict[str, Any]) -> bool:
    from harness import x20_models as X

    if r["kind"] != "parse":
        return True
    return any(not it["f"] or not X.fd_of(r["m"], it["f"]).req or it != X.base_item(X.fd_of(r["m"], it["f"])) for it in r["items"]) \
        or r["out"]["res"] != "ok"


def _why_unspecified(r: dict[str, Any]) -> str:
    """coarse reason for the report only"""
    if r["kind"] != "parse":
        return "-"
    if r["sep"]:
        return "`--` separator"
    if r["inter"]:
        return "positional values between / after options that could take them"
    names = [it["f"] for it in r["items"] if it["f"]]
    if len(set(names)) != len(names):
        return "repeated option"
    if any(it["form"] == "abbr" for it in r["items"]):
        return "abbreviated option"
    if any(t["c"] in ("neg", "nhex", "dashword") for it in r["items"] if it["form"] != "eq" for t in it["toks"]):
        return "value starting with '-' as a separate element"
    if any(it["form"] == "eq" and it["f"] and not it["toks"][0]["x"] for it in r["items"] if it["toks"]):
        return "value class the sources are silent about"
    return "value class / kind the sources are silent about (plain-int hex, enum by name, union, dict, --flag=v, ...)"


# ------------------------------------------------------------------ spec -> code comparison (drift only)
def _drift(rep: Report, recs: list[dict[str, Any]], verdicts: dict[int, str]) -> None:
    from harness import x20_models as X

    n = {"parse": 0, "help": 0, "config": 0}
    for r in recs:
        d = r.get("design")
        if not d:
            continue
        n[r["kind"]] += 1
        if verdicts[r["id"]] not in ("ok", "ok-unspecified"):
            continue  # reported as a violation
        if r["kind"] == "parse":
            o = r["out"]
            same = d["res"] == o["res"] and (d["res"] != "exit" or d["code"] == o["code"])
            diff: Any = None
            if same and d["res"] == "ok":
                real = {x["f"]: x["v"] for x in o["vals"]}
                for x in d["vals"]:
                    fd = X.fd_of(r["m"], x["f"])
                    a = real.get(x["f"], X.NOVAL if fd.req else X.canon(fd.dflt))
                    if a != x["v"]:
                        same, diff = False, {"field": x["f"], "design": x["v"], "code": a}
                        break
            if not same:
                rep.drift.append({"what": "parse", "argv": r["argv"], "via": r["via"], "design": {"res": d["res"], "code": d["code"]},
                                  "code": {"res": o["res"], "code": o["code"]}, "diff": diff})
        elif r["kind"] == "help":
            if d["res"] != r["h"]["res"]:
                rep.drift.append({"what": "help", "m": r["m"], "design": d["res"], "code": r["h"]["res"]})
        else:
            if [dict(x) for x in d["obs"]] != r["obs"]:
                rep.drift.append({"what": "config", "m": r["m"], "design": d["obs"], "code": r["obs"]})
    rep.extra["spec_to_code_replayed"] = n
    rep.extra["spec_to_code_drift"] = len(rep.drift)
    if min(n.values()) == 0:
        raise Machinery(f"spec->code: nothing replayed for {[k for k, v in n.items() if not v]}")


# ------------------------------------------------------------------ run
def _build_jobs(tier: str, seed: int, prints: list[Any]) -> tuple[list[dict[str, Any]], dict[str, Any]]:
    from harness import x20_cases as C

    parse, helps, configs, acts = C.cases_from_prints(prints)
    never = [a for a in ACTIONS if a not in acts]
    if never:
        raise Machinery(f"MC_ArgFields_design: design actions never taken: {never}")
    if len(parse) < 800 or len(helps) < 7 or len(configs) < 5:
        raise Machinery(f"design exported too little: {len(parse)} parse cases, {len(helps)} help jobs, {len(configs)} config jobs")
    jobs: list[dict[str, Any]] = []
    for c in parse:
        jobs.append({"kind": "parse", "via": "direct", "case": c, "design": c["design"]})
    for n, c in enumerate(parse):
        if tier == "thorough" or n % 3 == 0:
            jobs.append({"kind": "parse", "via": "gallia", "case": c, "design": c["design"]})
    for h in helps:
        for via in ("direct", "gallia"):
            jobs.append({"kind": "help", "via": via, "m": h["m"], "ext": h["ext"], "design": h["design"]})
    for c in configs:
        jobs.append({"kind": "config", "m": c["m"], "design": c["design"]})
    rnd = C.random_cases(seed, RANDOM[tier])
    for n, c in enumerate(rnd):
        jobs.append({"kind": "parse", "via": "gallia" if n % 10 == 0 else "direct", "case": c})
    info = {"parse_cases": len(parse), "help_jobs": len(helps), "config_jobs": len(configs), "random_cases": len(rnd)}
    return jobs, info


def run(tier: str, seed: int) -> Report:
    quiet_gallia_logging()
    from harness import x20_models as X

    rep = Report("X20", tier, seed)
    rep.rule = ("executions = one in-process run of the real parser (a fresh ArgumentParser on a synthetic config model, or "
                "gallia's create_parser on a stand-in command) with one argument vector, one --help, or one config-section "
                "probe; distinct = distinct (kind, model, argument vector); non-trivial = everything except the bare base "
                "invocation of a model that is accepted")
    rep.assumptions = [
        "growth item, not a listed property; the statement is /verif/growth/X20.json, the source of every clause is listed in the "
        "header of spec/ArgFieldsContract.tla",
        "the config models are synthetic (harness/x20_models.py: 7 models, 51 fields of 23 kinds) and declared the way gallia's own "
        "config classes are (GalliaBaseModel + gallia.command.config.Field; the argument group uses BaseArgument + the vendored "
        "Field); what was declared is the harness's own table, never read back from pydantic",
        "a value token carries the meaning the harness gave it when rendering it (class, value, int(x, 0) and int(x, 16) readings by "
        "Python's int(), which the AutoInt / HexInt docstrings name as the reference)",
        "in-process: stdout / stderr / SystemExit captured; the gallia path runs inside harness.c18_lib.Sandbox (GALLIA_* removed, "
        "GALLIA_CONFIG -> temporary file)",
        "`--opt=--` is not generated: CPython 3.12.1's argparse hands an EMPTY LIST to a scalar option for it, gallia's "
        "BeforeValidators answer a non-string with TypeError (traceback); recorded as an observation, not demanded",
        "top-level Annotated types (AutoInt, Ranges, ...) combined with the vendored Field on a model that is NOT a GalliaBaseModel "
        "lose short / hidden / const / positional under pydantic >= 2.12 (the C18-S29 repair lives in GalliaBaseModel): gallia "
        "declares no such model, none is generated",
    ]
    tmp = tempfile.mkdtemp(prefix="x20-")
    try:
        ufile = _universe_file(tmp)
        # ---- 1. design layer (exports the cases)
        res = _design(rep, ufile)
        jobs, info = _build_jobs(tier, seed, res.prints)
        rep.extra["exported_by_design"] = info
        rep.extra["design_layer_not_vacuous"] = f"every action of ArgFields is taken ({len(ACTIONS)} actions, from the exported histories)"
        # ---- 2./3. real executions (fork BEFORE any TLC thread exists in this process)
        recs = _run_jobs(jobs)
        # ---- negative controls + code -> spec
        _negatives(rep, ufile)
    finally:
        import shutil

        shutil.rmtree(tmp, ignore_errors=True)
    verdicts = _validate(recs, rep)
    _drift(rep, recs, verdicts)
    rep.traces = rep.evaluations = len(recs)
    by_kind: dict[str, int] = {}
    unspec: dict[str, int] = {}
    combos: set[tuple[str, str, str]] = set()
    outcomes: dict[str, int] = {}
    for r in recs:
        by_kind[f"{r['kind']}/{r.get('via', '-')}"] = by_kind.get(f"{r['kind']}/{r.get('via', '-')}", 0) + 1
        v = verdicts[r["id"]]
        if _nontrivial(r):
            rep.nontrivial.add(_key(r))
        if r["kind"] == "parse":
            outcomes[r["out"]["res"]] = outcomes.get(r["out"]["res"], 0) + 1
            for it in r["items"]:
                if it["f"]:
                    fd = X.fd_of(r["m"], it["f"])
                    for t in it["toks"] or [{"c": "-"}]:
                        combos.add((fd.kind + (":" + fd.elem if fd.elem else ""), it["form"], t["c"]))
        if v == "ok-unspecified":
            w = _why_unspecified(r)
            unspec[w] = unspec.get(w, 0) + 1
        elif v != "ok":
            if v.startswith("machinery/"):
                raise Machinery(f"{v}: {json.dumps(_detail(r), default=str)[:1500]}")
            rep.violate(v, _sig(r), _detail(r))
    rep.extra["records_by_kind"] = by_kind
    rep.extra["parse_outcomes"] = outcomes
    rep.extra["unspecified"] = unspec
    rep.extra["covered"] = {
        "models": len(X.FIELDS), "fields": sum(len(v) for v in X.FIELDS.values()),
        "field_kinds": len({fd.kind + ":" + fd.elem for v in X.FIELDS.values() for fd in v}),
        "kind_x_form_x_token_class_combinations_executed": len(combos),
        "forms": sorted({c[1] for c in combos}), "token_classes": sorted({c[2] for c in combos}),
    }
    rep.extra["observed_where_sources_are_silent"] = (
        "the design records today's behaviour for the cases the sources are silent about (last occurrence of a repeated option "
        "wins, abbreviations accepted, '-3' taken as a value but '-0x10' / '-x' refused, --flag=v refused, plain int takes '010' "
        "and '3.0' but no hex, plain Enum by value only, int | str keeps the text, a plain dict cannot be given); "
        f"spec->code drift against these choices: {len(rep.drift)}")
    rep.extra["not_demanded"] = [
        "which occurrence of a repeated option wins; abbreviations; `--`; a value starting with '-' as a separate element (if "
        "accepted, the value must be the documented one); --flag=value; positional values split around options",
        "hex / fractional / zero-padded text for plain int / float; a plain Enum by name; the member chosen for a union; any "
        "syntax for a plain dict; descending ranges; upper-case hex for a bytes literal",
        "message texts (only: a single invalid value is reported under the argument's own name); the rendering of a default in "
        "the help beyond str / repr / member name / member value / hex; a default produced by default_factory (help shows "
        "'PydanticUndefined' today)",
        "precedence CLI > env > file > default and META.json reloading (C18); command tree / dispatch / usage errors of whole "
        "commands (X17); validity of target URIs (C20)",
    ]
    for r in (recs[0], recs[len(recs) // 5], recs[len(recs) // 2], recs[-1]):
        rep.sample({"kind": r["kind"], "m": r["m"], "via": r.get("via"), "argv": r.get("argv"), "verdict": verdicts[r["id"]],
                    "outcome": r["out"] if r["kind"] == "parse" else (r["h"]["res"] if r["kind"] == "help" else r["obs"][:3])})
    rep.exhaustive = True
    rep.extra["exhaustive_spaces"] = (
        f"every case of the design universe ({info['parse_cases']} argument vectors = every field x every form x no / each single / "
        "each ordered pair (containers) / one triple of the field's token table, repeated occurrences, unknown option, stray value; "
        f"{info['help_jobs']} help jobs; {info['config_jobs']} config-section jobs) executed on the real parser "
        + ("through both ways in" if tier == "thorough" else "directly and every third one through gallia's create_parser")
        + f"; the {info['random_cases']} multi-field argument vectors are a seeded sample")
    _selftest(rep, recs, verdicts)
    return rep


# ------------------------------------------------------------------ binding self-test
def _selftest(rep: Report, recs: list[dict[str, Any]], verdicts: dict[int, str]) -> None:
    from harness import x20_models as X
    from harness import x20_run as R

    def clone(r: dict[str, Any]) -> dict[str, Any]:
        return json.loads(json.dumps(r, default=str))

    def pick(pred: Any) -> dict[str, Any] | None:
        for r in recs:
            if verdicts[r["id"]] == "ok" and pred(r):
                return clone(r)
        return None

    def one_item(r: dict[str, Any], kind: str, form: str = "long") -> bool:
        if r["kind"] != "parse" or r["m"] != "all":
            return False
        its = [it for it in r["items"] if it["f"]]
        return len(its) == 1 and its[0]["form"] == form and X.fd_of("all", its[0]["f"]).kind == kind

    muts: list[tuple[str, dict[str, Any], str]] = []
    skipped: list[str] = []

    def add(name: str, base: dict[str, Any] | None, fn: Any, want: str) -> None:
        if base is None:
            skipped.append(name)
            return
        fn(base)
        muts.append((name, base, want))

    add("flag polarity flipped", pick(lambda r: one_item(r, "bool", "neg") and r["out"]["res"] == "ok" and r["items"][0]["f"] == "btrue"),
        lambda r: r["out"].update(vals=[]), "B1/flag-polarity")
    add("value replaced", pick(lambda r: one_item(r, "autoint") and r["out"]["res"] == "ok" and r["out"]["vals"]),
        lambda r: r["out"]["vals"][0]["v"].update(n=r["out"]["vals"][0]["v"]["n"] + 1), "V1/wrong-value")
    add("list element dropped", pick(lambda r: one_item(r, "list") and r["out"]["res"] == "ok" and len(r["items"][0]["toks"]) == 2
                                     and r["out"]["vals"]),
        lambda r: r["out"]["vals"][0]["v"].update(q=r["out"]["vals"][0]["v"]["q"][:1]), "V1/wrong-value")
    add("default of another field changed", pick(lambda r: one_item(r, "int") and r["out"]["res"] == "ok"),
        lambda r: r["out"]["vals"].append({"f": "ratio", "v": X.canon(2.5)}), "D1/default-not-kept")
    add("invalid value accepted", pick(lambda r: one_item(r, "hexint") and r["out"]["res"] == "exit" and len(r["items"][0]["toks"]) == 1),
        lambda r: r["out"].update(res="ok", code=0, mention=[]), "V1/invalid-value-accepted")
    add("usage error with status 1", pick(lambda r: r["kind"] == "parse" and r["out"]["res"] == "exit"),
        lambda r: r["out"].update(code=1), "E2/")
    add("exception instead of usage error", pick(lambda r: r["kind"] == "parse" and r["out"]["res"] == "exit"),
        lambda r: r["out"].update(res="raise", code=-1), "T0/")
    add("missing required argument accepted", pick(lambda r: r["kind"] == "parse" and r["m"] == "req" and r["out"]["res"] == "exit"
                                                   and sorted(it["f"] for it in r["items"]) == ["decide", "ident"]
                                                   and r["src"] == "tlc"),
        lambda r: r["out"].update(res="ok", code=0, mention=[]), "R1/")
    add("error names no argument", pick(lambda r: one_item(r, "autoint") and r["out"]["res"] == "exit" and r["out"]["mention"]
                                        and [t["c"] for t in r["items"][0]["toks"]] in (["junk"], ["bare"], ["zdec"], ["frac"])),
        lambda r: r["out"].update(mention=[]), "M1/")
    add("const not used", pick(lambda r: r["kind"] == "parse" and r["m"] == "all" and r["out"]["res"] == "ok"
                               and [(it["f"], len(it["toks"])) for it in r["items"]] == [("reset", 0)]),
        lambda r: r["out"].update(vals=[]), "K1/const-not-used")
    add("help: field not listed", pick(lambda r: r["kind"] == "help" and r["m"] == "req"),
        lambda r: r["h"]["entries"][2].update(n=0), "H1/field-not-listed")
    add("help: hidden field listed", pick(lambda r: r["kind"] == "help" and r["m"] == "all" and not r["ext"]),
        lambda r: [e.update(n=1) for e, fd in zip(r["h"]["entries"], X.FIELDS["all"]) if fd.hidden], "H1/hidden")
    add("help: another default shown", pick(lambda r: r["kind"] == "help" and r["m"] == "req"),
        lambda r: r["h"]["entries"][4].update(dflt="7"), "H4/")
    add("help: --no- form missing", pick(lambda r: r["kind"] == "help" and r["m"] == "req"),
        lambda r: r["h"]["entries"][3].update(names=["--decide"]), "H2/")
    add("config: class section used for a field with its own", pick(lambda r: r["kind"] == "config" and r["m"] == "req"),
        lambda r: r["obs"][2].update(picked="field"), "CS1/")
    # one mutant of the harness's own declarations: the REAL parser on a model that differs from the table (default of `plain`)
    saved = X.MODELS["grp"]
    X.MODELS["grp"] = X.MGrpMutant
    try:
        m = R.parse_record({"m": "grp", "items": [], "sep": False, "inter": False}, "direct")
    finally:
        X.MODELS["grp"] = saved
    muts.append(("model declared with another default than the table says", clone(m), "D1/default-not-kept"))
    for n, (_, r, _) in enumerate(muts):
        r["id"] = n
    v = _validate([r for _, r, _ in muts], None)
    got = {name: v[n] for n, (name, _, _) in enumerate(muts)}
    wrong = [name for n, (name, _, want) in enumerate(muts) if not v[n].startswith(want)]
    if wrong:
        raise Machinery(f"binding self-test: corrupted records not rejected as expected: {wrong}: {got}")
    if skipped:
        if not rep.violations:
            raise Machinery(f"binding self-test: no accepted base record for {skipped}")
        got["skipped (no accepted base record on this tree; violations are reported)"] = ", ".join(skipped)
    rep.extra["binding_selftest"] = got


# ------------------------------------------------------------------ replay
def replay(path: str) -> int:
    quiet_gallia_logging()
    from harness import x20_run as R

    data = json.loads(open(path).read())
    recs: list[dict[str, Any]] = []
    bad = 0
    box = R.Box()
    try:
        for n, v in enumerate(data["violations"]):
            d = v["detail"]
            k = d.get("kind")
            if k == "parse":
                r = R.parse_record(d["case"], d.get("via", "direct"), box)
            elif k == "help":
                r = R.help_record(d["m"], d.get("via", "direct"), bool(d.get("ext")), box)
            elif k == "config":
                r = R.config_record(d["m"])
            else:
                print(f"replay: violation {n} ({v['clause']}) is a design-layer counterexample: re-run ./check X20")
                bad += 1
                continue
            r["id"] = len(recs)
            recs.append(r)
    finally:
        box.close()
    if recs:
        verdicts = _validate(recs, None)
        for r in recs:
            vv = verdicts[r["id"]]
            print(f"replay kind={r['kind']} m={r['m']} argv={r.get('argv')} sig={json.dumps(_sig(r), sort_keys=True)} verdict={vv}")
            bad += vv not in ("ok", "ok-unspecified")
    if bad:
        print(f"VIOLATION property=X20 replay={path}")
        return 1
    return 0
