"""C09 — the session scan reports exactly the sessions reachable within the depth limit.

spec   : spec/SessionScanContract.tla (ReachWithin, LeadsTo, G1..G4, Verdict)
         spec/SessionScan.tla (design: the level-wise search of sessions.py; E, depth, skip,
         thorough chosen in Init so that TLC ranges over all graphs of a family)
MC     : MC_SessionScan_{iso3,all3q,live3}.cfg (quick) + {all3,live3t,iso4,iso4t,shapes5}.cfg (thorough);
         devM1..devM4 negative controls (Appendix-B mutants), S16literal = witness of S16
binding: real SessionsScanner.run() over the full virtual-ECU stack (harness/c09_ecu.py) under
         virtual time; code->spec: every scan validated by Trace_SessionScan (TLC, contract layer);
         spec->code: design behaviours exported by TLC are replayed, request sequence / result /
         stacks compared (DRIFT only).
"""

from __future__ import annotations

import itertools
import json
import multiprocessing as mp
import random
import time
from concurrent.futures import ThreadPoolExecutor
from typing import Any

from harness import tlc
from harness.common import Machinery, Report, quiet_gallia_logging

NPROC = 16
TLC_ENV = {"JAVA_TOOL_OPTIONS": "-Xss512m"}
CLAUSES_M = {  # negative control -> contract clauses it is expected to break
    "devM1": {"G1_Result"},
    "devM2": {"G1_Result", "G2_Stacks", "G4_NoAbort"},
    "devM3": {"G1_Result"},
    "devM4": {"G3_Skip"},
}


# ----------------------------------------------------------------------------------------------
# families of environments (test generation only: nothing here judges the property)

def iso_graphs(ids: list[int]) -> list[list[list[int]]]:
    """All graphs on `ids` (ids[0] = default session) with the edge back to the default
    session from every session; the len*(len-1) other edges are free."""
    back = [[s, ids[0]] for s in ids]
    free = [[a, b] for a in ids for b in ids[1:]]
    out = []
    for bits in range(1 << len(free)):
        out.append(back + [e for i, e in enumerate(free) if bits >> i & 1])
    return out


def all_graphs(ids: list[int]) -> list[list[list[int]]]:
    pairs = [[a, b] for a in ids for b in ids]
    return [[e for i, e in enumerate(pairs) if bits >> i & 1] for bits in range(1 << len(pairs))]


def n_walks(ids: list[int], E: list[list[int]], skip: list[int], depth: int) -> int:
    """Number of stacks a thorough scan visits (cost estimate for the generator only)."""
    succ: dict[int, list[int]] = {s: [] for s in ids}
    for f, t in E:
        if t not in skip and f in succ:
            succ[f].append(t)
    level = {ids[0]: 1}
    total = 1
    for _ in range(depth - 1):
        nxt: dict[int, int] = {}
        for s, c in level.items():
            for t in succ.get(s, []):
                nxt[t] = nxt.get(t, 0) + c
        level = nxt
        total += sum(level.values())
    return total


ID_MAPS3 = [[1, 2, 3], [1, 3, 2], [1, 0x7F, 0x40], [1, 0x60, 0x7F], [1, 2, 0x7E]]


def random_case(rnd: random.Random) -> dict[str, Any]:
    n = rnd.choice([4, 4, 5, 5, 6])
    pool = [2, 3, 4, 5, 0x10, 0x40, 0x41, 0x60, 0x7E, 0x7F]
    ids = [1] + rnd.sample(pool, n - 1)
    if rnd.random() < 0.3:
        ids[1:] = sorted(ids[1:])
    depth = rnd.choice([1, 2, 2, 3, 3, 4, 5])
    shape = rnd.choice(["random", "random", "random", "chain", "island", "via"])
    p = rnd.choice([0.08, 0.2, 0.35, 0.6, 0.9])
    E = {(a, b) for a in ids for b in ids[1:] if rnd.random() < p}
    if shape == "chain":  # a chain longer than the depth limit (plus noise)
        order = ids[:]
        rnd.shuffle(order)
        order.remove(1)
        order = [1] + order
        E = {(a, b) for (a, b) in E if rnd.random() < 0.3}
        E |= {(order[i], order[i + 1]) for i in range(len(order) - 1)}
    elif shape == "island":  # an unreachable component
        k = rnd.randint(1, n - 2)
        isl = set(ids[-k:])
        E = {(a, b) for (a, b) in E if (a in isl) == (b in isl)}
        E |= {(a, b) for a in isl for b in isl if rnd.random() < 0.7}
    elif shape == "via":  # sessions only reachable through non-default sessions
        E = {(a, b) for (a, b) in E if a != 1}
        E.add((1, ids[1]))
        E |= {(ids[1], b) for b in ids[2:] if rnd.random() < 0.6}
    E |= {(s, 1) for s in ids}  # ISO 14229-1: default session enterable from everywhere
    outside = rnd.random() < 0.08
    if outside:  # explored, reported as outside the assumption
        for s in rnd.sample(ids, rnd.randint(1, 2)):
            E.discard((s, 1))
    r = rnd.random()
    if r < 0.45:
        skip: list[int] = []
    elif r < 0.75:
        skip = rnd.sample(ids[1:], 1)
    elif r < 0.85:
        skip = rnd.sample(ids[1:], 2)
    elif r < 0.93:
        skip = [1] + rnd.sample(ids[1:], rnd.randint(0, 1))
    else:
        skip = [rnd.choice([x for x in range(2, 0x80) if x not in ids])] + rnd.sample(ids[1:], 1)
    El = sorted([a, b] for a, b in E)
    thorough = rnd.random() < 0.4 and n_walks(ids, El, skip, depth) <= 40
    real = rnd.choice(["A", "A", "B"])
    return {"sessions": sorted(ids), "E": El, "depth": depth, "skip": sorted(skip), "thorough": thorough,
            "real": real, "salt": rnd.randint(0, 99), "sleep": rnd.choice([0, 0, 0, 1]),
            "tp": rnd.random() < 0.8, "hooks": real == "B" and rnd.random() < 0.4, "shape": shape}


def build_cases(tier: str, seed: int) -> tuple[list[dict[str, Any]], dict[str, Any]]:
    rnd = random.Random(seed * 1000003 + 9)
    cases: list[dict[str, Any]] = []
    info: dict[str, Any] = {}

    def add(fam: str, ids: list[int], E: list[list[int]], depth: int, skip: list[int], thorough: bool,
            **kw: Any) -> None:
        cases.append({"fam": fam, "sessions": sorted(ids), "E": sorted(E), "depth": depth,
                      "skip": sorted(skip), "thorough": thorough, **kw})

    g3 = iso_graphs([1, 2, 3])
    if tier == "quick":
        # all 64 three-session graphs x depth {1,2} x thorough on/off, empty skip
        for gi, E in enumerate(g3):
            for depth, th in itertools.product((1, 2), (False, True)):
                add("iso3", [1, 2, 3], E, depth, [], th)
            # ... and with one skipped session / the default session skipped, depth 2
            add("iso3", [1, 2, 3], E, 2, [2], False)
            add("iso3", [1, 2, 3], E, 2, [1], gi % 2 == 0)
        info["iso3"] = "all 64 graphs x depth{1,2} x thorough{0,1} (skip {}) + depth 2 x skip {2},{1}"
        # the same graphs on other session ids and through the NRC realisation B, depth 3
        for gi, E in enumerate(g3):
            ids = ID_MAPS3[1 + gi % 4]
            m = dict(zip([1, 2, 3], ids))
            add("iso3-ids", ids, [[m[a], m[b]] for a, b in E], 3, [], False, real="B" if gi % 2 else "A", salt=gi)
        outside = [E for E in all_graphs([1, 2, 3]) if not all([s, 1] in E for s in (1, 2, 3))]
        for E in rnd.sample(outside, 48):
            add("all3-outside", [1, 2, 3], E, 2, [], False)
        ndraw = 200
    else:
        for E in g3:
            for depth in (1, 2, 3, 4):
                for k in range(4):
                    for skip in itertools.combinations([1, 2, 3], k):
                        for th in (False, True):
                            add("iso3", [1, 2, 3], E, depth, list(skip), th)
        info["iso3"] = "all 64 graphs x depth 1..4 x all 8 skip sets x thorough{0,1} (fully crossed)"
        for gi, E in enumerate(g3):
            for ids in ID_MAPS3[1:]:
                m = dict(zip([1, 2, 3], ids))
                for real in ("A", "B"):
                    add("iso3-ids", ids, [[m[a], m[b]] for a, b in E], 3, [], False, real=real, salt=gi)
        outside = [E for E in all_graphs([1, 2, 3]) if not all([s, 1] in E for s in (1, 2, 3))]
        for E in outside:
            for depth in (1, 3):
                add("all3-outside", [1, 2, 3], E, depth, [], False)
        g4 = iso_graphs([1, 2, 3, 4])
        pick = rnd.sample(range(len(g4)), 768)
        for gi in sorted(pick):
            for depth in (1, 2, 3):
                add("iso4-sample", [1, 2, 3, 4], g4[gi], depth, [], False)
        info["iso4-sample"] = "768 of the 4096 four-session graphs (seeded sample) x depth{1,2,3}, skip {}"
        ndraw = 2000
    # --reset: the ECU is reset before every probe; answered, refused, or performed without an answer
    # (the scanner's "Lost connection to the ECU after performing a reset" path)
    via = [[1, 1], [1, 2], [2, 1], [2, 4], [4, 1]]  # session 4 only reachable through session 2
    reset_graphs = [([1, 2, 4], via), ([1, 2, 3], g3[len(g3) // 2]), ([1, 2, 3], g3[-1])]
    if tier != "quick":
        reset_graphs += [([1, 2, 3], E) for E in g3[::4]]
    for ids, E in reset_graphs:
        for mode in ("pos", "neg", "silent", "pos-delayed"):
            for depth in ((2,) if tier == "quick" else (1, 2, 3)):
                if mode == "pos-delayed":
                    for rd in (0.25, 0.35, 0.45):
                        add("reset", ids, E, depth, [], False, reset=1, reset_mode=mode, tp=False, latency=0.1,
                            reset_delay=rd)
                else:
                    add("reset", ids, E, depth, [], False, reset=1, reset_mode=mode, tp=False)
    info["reset"] = "--reset 1 against ECUs answering / refusing / silently performing the reset"
    # an ECU whose session changes take time: 0x78 first, the final answer 3 s later (within P2* = 5 s)
    for ids, E in reset_graphs:
        for depth in ((2,) if tier == "quick" else (1, 2, 3)):
            for th in (False, True):
                add("slow-ecu", ids, E, depth, [], th, slow=3.0)
    info["slow-ecu"] = ("accepted session changes are announced with ResponsePending and completed 3 s later "
                        "(virtual time; within the ECU's P2* of 5 s)")
    # positive session-change answers with other sessionParameterRecords than gallia's own server sends
    for ids, E in reset_graphs:
        for rec in ("", "0032", "003201f4", "003201f4aabb", "003201f4" + "5a" * 12):
            add("param-record", ids, E, 2, [], False, param_record=rec)
    info["param-record"] = ("the ECU's positive DiagnosticSessionControl answers carry an empty / 2 / 4 / 6 / 16 byte "
                            "sessionParameterRecord (manufacturer specific in ISO 14229-1:2006, timing values plus "
                            "vendor bytes in the field)")
    # a re-scan into a database that already holds the session transitions of an earlier, deeper scan
    for ids, E in reset_graphs:
        for depth, skip in ((1, []), (2, [2]), (1, [ids[1]])):
            for real in ("A", "B"):
                add("prior-db", ids, E, depth, skip, False, prior_db=True, real=real)
    info["prior-db"] = "the database already holds session_transition rows of an earlier scan of the same target"
    # a second scan of the same target into the same REAL database file after the ECU changed (reflash): the rows the
    # second run writes must describe what the second run found (cases run one after the other in one worker, the
    # first of each pair only fills the database)
    if tier == "quick":
        pairs = [(([1, 2, 4], via), ([1, 2, 4], [[1, 1], [1, 4], [4, 1], [4, 2], [2, 1]]))]
    else:
        pairs = [(([1, 2, 4], via), ([1, 2, 4], [[1, 1], [1, 4], [4, 1], [4, 2], [2, 1]])),
                 (([1, 2, 3], g3[-1]), ([1, 2, 3], g3[len(g3) // 2])),
                 (([1, 2, 3], g3[len(g3) // 3]), ([1, 2, 3], g3[-1]))]
    for pi, ((ids1, E1), (ids2, E2)) in enumerate(pairs):
        for depth in (2, 3):
            add("real-db-rescan", ids2, E2, depth, [], False, rescan={"first": {"sessions": ids1, "E": E1}},
                db_tag=f"{pi}-{depth}")
    info["real-db-rescan"] = ("the real DBHandler on one sqlite file: a first scan of the target (other session graph), "
                              "then the judged scan; rows = session_transition rows of the judged run")
    # skip lists given as range expressions (nested / overlapping / repeated ranges denote their union)
    far = [1, 2, 3, 0x60, 0x61]
    Efar = [[1, 1], [1, 2], [1, 3], [1, 0x60], [0x60, 0x61], [2, 1], [3, 1], [0x60, 1], [0x61, 1], [2, 0x61]]
    for text, den in ((["0x04-0x7f", "0x40-0x5f"], list(range(4, 0x80))),
                      (["4-127,64-95"], list(range(4, 0x80))),
                      (["0x60-0x61", "0x60"], [0x60, 0x61]),
                      (["3-0x70,0x10-0x20,5"], list(range(3, 0x71))),
                      (["0x61,0x5f-0x62,0x60-0x61"], list(range(0x5F, 0x63)))):
        for depth in (1, 3):
            add("skip-text", far, Efar, depth, den, False, skip_text=text)
    info["skip-text"] = "skip lists given as range expressions with nested / overlapping ranges"
    for _ in range(ndraw):
        c = random_case(rnd)
        c["fam"] = "draw-" + c.pop("shape")
        cases.append(c)
    info["draws"] = (f"{ndraw} seeded draws: 4-6 sessions (ids from 1..0x7F incl. 0x7F), density 0.08..0.9, shapes "
                     "random/chain/island/via, depth 1..5, skip lists (also with the default session / a non-existent "
                     "session), thorough on/off, ECU realisation A/B, sleep 0/1, tester present on/off, with_hooks")
    return cases, info


# ----------------------------------------------------------------------------------------------
# real executions (worker processes)

def _scan(case: dict[str, Any]) -> dict[str, Any]:
    from harness.c09_ecu import run_scan

    if case.get("rescan"):
        import shutil
        import tempfile

        d = tempfile.mkdtemp(prefix="c09db-")
        try:
            path = f"{d}/scan.sqlite"
            first = dict(case, sessions=case["rescan"]["first"]["sessions"], E=case["rescan"]["first"]["E"], db_path=path)
            first.pop("rescan")
            run_scan(first)                       # fills the database; judged elsewhere (same graph families)
            return run_scan(dict(case, db_path=path))
        finally:
            shutil.rmtree(d, ignore_errors=True)
    return run_scan(case)


def run_cases(cases: list[dict[str, Any]], pool: Any = None) -> list[dict[str, Any]]:
    if not cases:
        return []
    if pool is not None:
        return pool.map(_scan, cases, chunksize=max(1, min(8, len(cases) // (NPROC * 8))))
    with mp.get_context("fork").Pool(min(NPROC, len(cases))) as p:
        return p.map(_scan, cases, chunksize=1)


def to_batch(traces: list[dict[str, Any]], off: int = 0) -> dict[str, Any]:
    return {"traces": [{"id": off + i, "sessions": t["sessions"], "E": t["E"], "depth": t["depth"],
                        "skip": t["skip"], "thorough": t["thorough"], "reqs": t["reqs"], "nother": t["nother"],
                        "result": t["result"], "rows": t["rows"], "end": t["end"]}
                       for i, t in enumerate(traces)]}


def validate(traces: list[dict[str, Any]], rep: Report | None = None) -> dict[int, tuple[str, list[str]]]:
    """TLC batch validation (contract layer); id -> (verdict, notes)."""
    # batches of bounded size (requests dominate the JSON)
    chunks: list[tuple[int, list[dict[str, Any]]]] = []
    cur: list[dict[str, Any]] = []
    size = 0
    start = 0
    for i, t in enumerate(traces):
        cur.append(t)
        size += len(t["reqs"])
        if size > 250_000 or len(cur) >= 1500:
            chunks.append((start, cur))
            cur, size, start = [], 0, i + 1
    if cur:
        chunks.append((start, cur))

    def one(ch: tuple[int, list[dict[str, Any]]]) -> Any:
        return tlc.validate_batch("Trace_SessionScan", "Trace_SessionScan.cfg", to_batch(ch[1], ch[0]),
                                  timeout=1800, env=TLC_ENV, heap="3g")

    with ThreadPoolExecutor(max_workers=4) as ex:
        results = list(ex.map(one, chunks))
    verdicts: dict[int, tuple[str, list[str]]] = {}
    for res in results:
        if rep is not None:
            rep.add_tlc(res, "Trace_SessionScan batch")
        for p in res.prints:
            if isinstance(p, list) and len(p) == 4 and p[0] == "V":
                verdicts[p[1]] = (p[2], [n for n in p[3] if n])
    missing = [i for i in range(len(traces)) if i not in verdicts]
    if missing:
        raise Machinery(f"TLC produced no verdict for {len(missing)} scans (first id {missing[0]}):\n"
                        + results[-1].out[-2000:])
    return verdicts


# ----------------------------------------------------------------------------------------------

def model_check(tier: str, seed: int, rep: Report) -> list[dict[str, Any]]:
    """Design layer vs contract, negative controls, S16 witness, export of design behaviours."""
    jobs: list[tuple[str, dict[str, Any]]] = []
    if tier == "thorough":  # long jobs first
        jobs += [("iso4", {"heap": "8g", "workers": 8}), ("iso4t", {"heap": "8g", "workers": 8}),
                 ("shapes5", {"seed": seed + 2, "heap": "8g"}), ("all3", {}), ("live3t", {})]
    jobs += [
        ("sim4t" if tier == "thorough" else "sim4", {"workers": 1, "seed": seed + 1}),
        ("iso3", {}),
        ("all3q", {}),
        ("live3", {"coverage": True}),
        ("devM1", {}), ("devM2", {}), ("devM3", {}), ("devM4", {}),
        ("S16literal", {}),
    ]

    def one(job: tuple[str, dict[str, Any]]) -> Any:
        name, kw = job
        kw = dict(kw)
        kw.setdefault("workers", 3)
        return tlc.run_tlc("MC_SessionScan", f"MC_SessionScan_{name}.cfg", timeout=3000, **kw)

    with ThreadPoolExecutor(max_workers=5) as ex:
        results = list(ex.map(one, jobs))
    behaviours: list[dict[str, Any]] = []
    for (name, _), res in zip(jobs, results):
        if name in CLAUSES_M:
            rep.add_tlc(res, f"MC_SessionScan_{name} (negative control)")
            if res.violated not in CLAUSES_M[name]:
                raise Machinery(f"negative control {name} did not violate {sorted(CLAUSES_M[name])} "
                                f"(got {res.violated}): contract is vacuous")
            continue
        if name == "S16literal":
            rep.add_tlc(res, "MC_SessionScan_S16literal (literal skip reading: expected to fail)")
            if res.violated != "G3_Literal":
                raise Machinery(f"S16 witness: expected G3_Literal to be violated by the design, got {res.violated}")
            rep.extra["S16_design_witness"] = ("design layer violates the LITERAL reading of 'skipped sessions are never "
                                               "requested' only by re-entering the default session during recovery "
                                               "(skip contains 1); the contract exempts the default session")
            continue
        rep.add_tlc(res, f"MC_SessionScan_{name}")
        if not res.ok:
            rep.violate(f"design/{res.violated}", {"where": "SessionScan design layer", "cfg": name},
                        {"cex": res.cex[-5:], "out": res.out[-1500:]})
        if name == "live3":
            want = {"DepthLoop", "StackLoop", "ProbeLoop", "RecoverStep", "Request", "Report"}
            taken = {a for a, (n, _d) in res.coverage.items() if n > 0}
            if not want <= taken:
                raise Machinery(f"design actions never taken: {sorted(want - taken)}")
            rep.extra["design_actions_taken"] = {a: res.coverage[a][0] for a in sorted(want)}
        if name.startswith("sim4"):
            for p in res.prints:
                if isinstance(p, list) and len(p) == 2 and p[0] == "B":
                    behaviours.append(p[1])
    return behaviours


def replay_design(behaviours: list[dict[str, Any]], n: int, rep: Report, pool: Any = None) -> list[dict[str, Any]]:
    """spec -> code: run the real scanner on the graph/options of exported design behaviours and
    compare request sequence (restricted to the model's sessions), result and stacks."""
    def key(b: dict[str, Any]) -> str:
        return json.dumps([sorted(b["E"]["$set"]), b["depth"], sorted(b["skip"]["$set"]), b["thorough"]])

    behaviours = sorted(behaviours, key=key)
    if len(behaviours) > n:
        step = len(behaviours) / n
        behaviours = [behaviours[int(i * step)] for i in range(n)]
    cases = [{"fam": "tlc-design", "sessions": [1, 2, 3, 4], "E": sorted(b["E"]["$set"]), "depth": b["depth"],
              "skip": sorted(b["skip"]["$set"]), "thorough": bool(b["thorough"])} for b in behaviours]
    traces = run_cases(cases, pool)
    drift = 0
    for b, t in zip(behaviours, traces):
        want_hist = [s for s in b["hist"] if s in (1, 2, 3, 4)]
        got_hist = [r[0] for r in t["reqs"] if r[0] in (1, 2, 3, 4)]
        want_rows = sorted((r["s"], tuple(r["st"])) for r in b["rows"]["$set"])
        got_rows = sorted((r["s"], tuple(r["st"])) for r in t["rows"] if r["s"] in t["result"])
        want_end = "done" if b["pc"] == "Done" else "exit"
        same = (want_hist == got_hist and sorted(b["result"]["$set"]) == sorted(t["result"])
                and want_rows == got_rows and want_end == t["end"])
        if not same:
            drift += 1
            rep.drift.append({"E": t["E"], "depth": t["depth"], "skip": t["skip"], "thorough": t["thorough"],
                              "design": {"hist": want_hist[:60], "result": sorted(b["result"]["$set"]), "end": want_end},
                              "code": {"hist": got_hist[:60], "result": t["result"], "end": t["end"]}})
    rep.extra["spec_to_code_replayed"] = len(behaviours)
    rep.extra["spec_to_code_drift"] = drift
    return traces


def sig_of(t: dict[str, Any], verdict: str) -> dict[str, Any]:
    return {"where": "SessionsScanner", "thorough": bool(t["thorough"]), "skip_nonempty": bool(t["skip"]),
            "realisation": t["case"].get("real", "A"), "end": t["end"]}


def detail_of(t: dict[str, Any]) -> dict[str, Any]:
    return {"case": t["case"], "result": t["result"], "rows": t["rows"][:20], "end": t["end"], "exc": t["exc"],
            "n_requests": len(t["reqs"]), "requested_existing": sorted({r[0] for r in t["reqs"]} & set(t["sessions"]))}


def selftest(traces: list[dict[str, Any]], verdicts: dict[int, tuple[str, list[str]]], rep: Report) -> None:
    """Binding self-test: corrupted copies of an accepted trace and a mutant of the harness's
    own ECU model must be rejected by TLC with the expected clause."""
    base = None
    for i, t in enumerate(traces):
        if (verdicts[i][0] == "ok" and t["end"] == "done" and not t["skip"]
                and any(len(r["st"]) >= 2 and r["s"] in t["result"] for r in t["rows"])
                and len(t["result"]) < len(t["sessions"])):
            base = t
            break
    if base is None:
        raise Machinery("no accepted scan with a multi-step stack and an unreported session for the self-test")
    deep = next(r for r in base["rows"] if len(r["st"]) >= 2 and r["s"] in base["result"])
    missing = next(s for s in base["sessions"] if s not in base["result"])

    def cp() -> dict[str, Any]:
        return json.loads(json.dumps({k: v for k, v in base.items()}))

    t1 = cp(); t1["result"] = [s for s in t1["result"] if s != deep["s"]]
    t2 = cp(); t2["result"] = t2["result"] + [missing]; t2["rows"] = t2["rows"] + [{"s": missing, "st": [1]}]
    t3 = cp()
    for r in t3["rows"]:
        if r["s"] == deep["s"]:
            r["st"] = [1, missing] if [1, missing] not in t3["E"] else [1, 1, missing, missing]
    t4 = cp(); t4["skip"] = [deep["s"]]
    t5 = cp(); t5["end"] = "hang"
    t6 = cp(); t6["rows"] = [r for r in t6["rows"] if r["s"] != deep["s"]]
    t7 = cp(); t7["depth"] = max(1, len(deep["st"]) - 1) if len(deep["st"]) >= 2 else 1
    from harness.c09_ecu import run_scan

    # the lazy-ECU mutant only shows when the scan enters the highest session: try such cases until one is rejected
    lazy_cands = [t for i, t in enumerate(traces)
                  if verdicts[i][0] == "ok" and t["end"] == "done" and max(t["sessions"]) in t["result"]][:8] or [base]
    t8 = None
    for cand in lazy_cands:
        mc = dict(cand["case"]); mc["mutant"] = "lazy"
        t8 = run_scan(mc)
        if validate([t8])[0][0] not in ("ok", "outside-assumption"):
            break
    got = validate([t1, t2, t3, t4, t5, t6, t7, t8])
    want = ["G1/reachable", "G1/reported", "G2/reported-stack", "G3/", "G4/does-not", "G2/session-reported-without", None, None]
    labels = [got[i][0] for i in range(8)]
    for i, w in enumerate(want):
        if labels[i] in ("ok", "outside-assumption") or (w is not None and not labels[i].startswith(w)):
            raise Machinery(f"binding self-test {i + 1}: corrupted trace got verdict {labels[i]!r}, wanted {w!r}*")
    rep.extra["binding_selftest"] = {"corrupted_rejected": labels[:7], "fake_mutant_lazy_ecu": labels[7]}


def run(tier: str, seed: int) -> Report:
    quiet_gallia_logging()
    rep = Report("C09", tier, seed)
    rep.rule = ("executions = real SessionsScanner.run() (setup+main+teardown) against an ECU model realising a session "
                "graph, full stack (ECU client, tcp-lines transport on in-memory streams, TCPUDSServerTransport."
                "handle_client, UDSServer default chain) under virtual time; distinct = distinct (session ids, E, depth, "
                "skip, thorough, ECU realisation); non-trivial = verdict ok inside the assumption AND (a reported stack "
                "has >= 2 sessions OR an existing session is not reported)")
    rep.assumptions = [
        "full stack: real SessionsScanner + real ECU/UDSClient + real TCPLinesTransport over harness.streams wires + real "
        "TCPUDSServerTransport.handle_client + UDSServer default response chain; only GraphServer.supported_services "
        "(realisation A) / the refusal NRC of a session change (realisation B) are the harness's",
        "ISO 14229-1 assumption: the default session is enterable from the default session and from every session "
        "reachable within depth; other graphs are explored and counted as outside-assumption, never as violations",
        "S16 decision: the default session is exempt from 'sessions in the skip option are never requested' (it is the "
        "origin the statement measures reachability from and the only way back to it); executions where only the literal "
        "reading is broken are counted in S16_literal_reading_broken; with the default session in skip its membership in "
        "the result is unspecified",
        "reported stacks are observed at the DBHandler interface (insert_session_transition) through a recording stand-in "
        "(aiosqlite's worker thread does not mix with the virtual-time loop); rows for sessions that are not reported "
        "as found ('identified but not activated') are unspecified by the statement and only counted",
        "termination: a scan is a hang when it exceeds the harness request cap (>= 2.5x the contract's G4 bound family) "
        "or the virtual horizon; G4 request bound = 8*(127+1)*(depth+2)*#walks(<depth) from the statement's vocabulary",
        "refusals change no state (ECU = directed graph); --reset and power-cycling are not covered",
        "virtual time: asyncio timers are exact; the server loop's 10 s inactivity reset reads the same virtual clock "
        "(gallia.services.uds.server.time patched in the harness process), so no wall-clock dependence",
    ]
    # ---- 1. model checking (threads) runs while the real scans run (processes)
    cases, info = build_cases(tier, seed)
    tm: dict[str, float] = {}
    t0 = time.time()
    # worker processes are forked BEFORE any thread exists
    with mp.get_context("fork").Pool(NPROC) as pool:
        with ThreadPoolExecutor(max_workers=1) as bg:
            fut = bg.submit(model_check, tier, seed, rep)
            traces = run_cases(cases, pool)
            tm["real_scans_s"] = round(time.time() - t0, 1)
            behaviours = fut.result()
            tm["model_checking_s"] = round(time.time() - t0, 1)
        # ---- 2. spec -> code
        if not behaviours:
            raise Machinery("TLC exported no design behaviour")
        sim_traces = replay_design(behaviours, 150 if tier == "quick" else 1500, rep, pool)
    traces += sim_traces
    tm["after_replay_s"] = round(time.time() - t0, 1)
    for t, c in zip(traces, cases + [{"fam": "tlc-design"}] * len(sim_traces)):
        t["fam"] = c["fam"]
    # ---- 3. code -> spec: TLC validates every scan against the contract
    verdicts = validate(traces, rep)
    tm["after_validation_s"] = round(time.time() - t0, 1)
    rep.extra["timing"] = tm
    rep.traces = len(traces)
    rep.evaluations = len(traces)
    counts: dict[str, int] = {}
    notes: dict[str, int] = {}
    fam_counts: dict[str, int] = {}
    seen: set[str] = set()
    for i, t in enumerate(traces):
        v, ns = verdicts[i]
        counts[v] = counts.get(v, 0) + 1
        fam_counts[t["fam"]] = fam_counts.get(t["fam"], 0) + 1
        for n in ns:
            notes[n] = notes.get(n, 0) + 1
        if v.startswith("B0"):
            raise Machinery(f"ECU model inconsistent with its graph in case {t['case']}")
        k = json.dumps([t["sessions"], t["E"], t["depth"], t["skip"], t["thorough"], t["case"].get("real", "A")])
        if v == "ok" and k not in seen and (any(len(r["st"]) >= 2 for r in t["rows"] if r["s"] in t["result"])
                                            or set(t["result"]) != set(t["sessions"])):
            rep.nontrivial.add(k)
        seen.add(k)
        if v not in ("ok", "outside-assumption"):
            rep.violate(v, sig_of(t, v), detail_of(t))
    rep.extra["verdicts"] = counts
    rep.extra["families"] = fam_counts
    rep.extra["family_description"] = info
    rep.extra["outside_assumption"] = counts.get("outside-assumption", 0)
    rep.extra["S16_literal_reading_broken"] = notes.get("S16", 0)
    rep.extra["unspecified"] = {
        "rows_for_sessions_not_reported_as_found": notes.get("rowsX", 0),
        "default_session_in_skip (its membership in the result is free)":
            sum(1 for t in traces if 1 in t["skip"]),
        "default_reported_though_skipped": notes.get("default-reported-though-skipped", 0),
    }
    rep.extra["requests_served_by_ecu_model"] = sum(len(t["reqs"]) + t["nother"] for t in traces)
    rep.extra["nrcs_seen"] = sorted({n for t in traces for n in t["nrcs"]})
    rep.extra["ends"] = {e: sum(1 for t in traces if t["end"] == e) for e in {t["end"] for t in traces}}
    oks = [t for i, t in enumerate(traces) if verdicts[i][0] == "ok"]
    for t in oks[:2] + oks[len(oks) // 2: len(oks) // 2 + 2] + oks[-2:]:
        rep.sample({"sessions": t["sessions"], "E": t["E"], "depth": t["depth"], "skip": t["skip"],
                    "thorough": t["thorough"], "result": t["result"], "rows": t["rows"][:6],
                    "requests": len(t["reqs"]), "fam": t["fam"]})
    rep.exhaustive = True
    rep.extra["exhaustive_over"] = ("TLC: every graph of the listed families x options (design layer); real code: "
                                    + info["iso3"] + "; the remaining families are samples")
    # ---- 4. binding self-tests (a failing self-test must not mask violations already found on the tree under test)
    try:
        selftest(traces, verdicts, rep)
    except Machinery as e:
        if not rep.violations:
            raise
        rep.extra["binding_selftest"] = f"not conclusive on a violating tree: {e}"
    return rep


def replay(path: str) -> int:
    quiet_gallia_logging()
    from harness.c09_ecu import run_scan

    data = json.loads(open(path).read())
    bad = 0
    todo = []
    for v in data["violations"]:
        d = v["detail"]
        if "case" not in d:
            print(f"replay: design-layer violation {v['clause']} (re-run ./check C09)")
            bad += 1
            continue
        todo.append({k: x for k, x in d["case"].items() if k != "fam"})
    traces = [run_scan(c) for c in todo]
    verdicts = validate(traces) if traces else {}
    for i, t in enumerate(traces):
        verdict = verdicts[i][0]
        print(f"replay sessions={t['sessions']} E={t['E']} depth={t['depth']} skip={t['skip']} "
              f"thorough={t['thorough']} result={t['result']} end={t['end']} verdict={verdict}")
        bad += verdict not in ("ok", "outside-assumption")
    if bad:
        print(f"VIOLATION property=C09 replay={path}")
        return 1
    return 0
