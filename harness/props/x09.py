"""X09 (growth) — the UDS PDU fuzzer `fuzz uds pdu` sends what it is configured to send, where it announces it,
counts what the ECU really answered and survives the faults it has handlers for; plus the request
construction of the primitives `primitive uds rdbi` / `primitive uds pdu`.

spec   : spec/PduFuzzContract.tla (P1..P6, R0..R3) + spec/PduFuzz.tla (design layer, 7 deviation constants)
MC     : MC_PduFuzz_{a,b,c,d} (+c2,c3 thorough); negative controls MC_PduFuzz_dev{Skip,Tmo,Ill,Len,Carry,Iter,Stop}
binding: the REAL PDUFuzzer / ReadByIdentifierPrimitive / SendPDUPrimitive, run through AsyncScript.run() with a real
         ECU client over the full tcp-lines stack in memory (harness/c10_stack.py, harness/streams.py) against a
         scripted UDSServer subclass served by the real TCPUDSServerTransport.handle_client, virtual time;
         the fuzzer's RNG (module-level `random`, no seed option documented) is seeded in the harness process
         (random.seed(case seed)) immediately before each run;
         code->spec: every execution validated by Trace_PduFuzz (TLC): (truth session, request bytes, answer class)
         at the ECU interleaved with the reported statistics;
         spec->code: TLC-simulated design behaviours concretised (ECU script, refused sessions, configuration) and
         replayed into the real command; answer-class sequence and statistics compared (DRIFT only).
"""

from __future__ import annotations

import hashlib
import json
import multiprocessing as mp
import os
from concurrent.futures import ThreadPoolExecutor
from typing import Any

from harness import tlc
from harness import x09_cases as cs
from harness.c10_stack import setup_logging_once
from harness.common import Machinery, Report
from harness.x09_run import run_case, run_prim

MC_QUICK = ["a", "b", "c", "d"]
MC_THOROUGH = ["c2", "c3"]
NEG = {
    "devSkip": {"P3_Skip_Inv"},
    "devTmo": {"P4_Total_Inv"},
    "devIll": {"P6_Continue_Inv"},
    "devLen": {"P1_Shape_Inv"},
    "devCarry": {"P4_Total_Inv", "P4_Pos_Inv", "P4_Neg_Inv", "P4_Ill_Inv", "P4_Tmo_Inv"},
    "devIter": {"P4_Total_Inv"},
    "devStop": {"P1_Shape_Inv"},
}
COVERAGE_CFG = "b"
NPROC = max(2, min(12, (os.cpu_count() or 4) - 2))
TRACE_KEYS = ("id", "kind", "C", "ev", "done", "refused", "want", "session")


def _one(case: dict[str, Any]) -> dict[str, Any]:
    t = run_prim(case) if case["kind"] == "prim" else run_case(case)
    t.setdefault("kind", "fuzz")
    return t


def _run_cases(cases: list[dict[str, Any]]) -> list[dict[str, Any]]:
    if not cases:
        return []
    ctx = mp.get_context("fork")
    with ctx.Pool(NPROC) as pool:
        return pool.map(_one, cases, chunksize=4)


def _validate(traces: list[dict[str, Any]], rep: Report | None) -> tuple[dict[int, str], dict[int, int]]:
    jobs = [traces[off:off + 600] for off in range(0, len(traces), 600)]

    def one(sub: list[dict[str, Any]]) -> Any:
        batch = {"traces": [{k: t[k] for k in TRACE_KEYS if k in t} for t in sub]}
        return tlc.validate_batch("Trace_PduFuzz", "Trace_PduFuzz.cfg", batch, timeout=1800, workers=1, heap="3g",
                                  env={"JAVA_TOOL_OPTIONS": "-Xss64m"})

    with ThreadPoolExecutor(max_workers=6) as ex:
        results = list(ex.map(one, jobs))
    verdicts: dict[int, str] = {}
    unspec: dict[int, int] = {}
    for res in results:
        if rep is not None:
            rep.add_tlc(res, "Trace_PduFuzz batch")
        for p in res.prints:
            if isinstance(p, list) and len(p) == 3 and p[0] == "V":
                verdicts[p[1]] = p[2]
            elif isinstance(p, list) and len(p) == 3 and p[0] == "U":
                unspec[p[1]] = p[2]
    missing = [t["id"] for t in traces if t["id"] not in verdicts]
    if missing:
        raise Machinery(f"TLC produced no verdict for {len(missing)} traces (first id {missing[0]}):\n"
                        + results[-1].out[-2000:])
    return verdicts, unspec


def _mc(rep: Report, tier: str) -> None:
    jobs: list[tuple[str, set[str] | None, bool]] = []
    for c in MC_QUICK + (MC_THOROUGH if tier == "thorough" else []):
        jobs.append((c, None, c == COVERAGE_CFG))
    for c, want in NEG.items():
        jobs.append((c, want, False))

    def one(j: tuple[str, set[str] | None, bool]) -> Any:
        return tlc.run_tlc("MC_PduFuzz", f"MC_PduFuzz_{j[0]}.cfg", workers=4, timeout=1500, coverage=j[2], heap="3g")

    with ThreadPoolExecutor(max_workers=4) as ex:
        results = list(ex.map(one, jobs))
    for (c, want, coverage), res in zip(jobs, results):
        rep.add_tlc(res, f"MC_PduFuzz_{c}" + (" (negative control)" if want else ""))
        if want is None:
            if not res.ok:
                rep.violate(f"design/{res.violated}", {"where": "PduFuzz design layer", "cfg": c},
                            {"cex": res.cex[-6:], "out": res.out[-1500:]})
        elif res.violated not in want:
            raise Machinery(f"negative control MC_PduFuzz_{c} did not violate {sorted(want)} (got {res.violated}): "
                            "contract is vacuous")
        if coverage:
            acts = {a: n for a, (n, _) in res.coverage.items()
                    if a in ("Start", "Switch", "Iter", "Send", "Stats", "Leave", "Judge")}
            never = [a for a in ("Start", "Switch", "Iter", "Send", "Stats", "Leave", "Judge") if acts.get(a, 0) == 0]
            if never:
                raise Machinery(f"MC_PduFuzz_{c}: design actions never taken: {never}")
            rep.extra["design_action_coverage"] = acts
    rep.extra["negative_controls"] = sorted(NEG)


# ------------------------------------------------------------------ spec -> code
def _set(v: Any) -> list[Any]:
    return list(v["$set"]) if isinstance(v, dict) and "$set" in v else list(v)


def _projection_of_events(ev: list[dict[str, Any]], svc: int) -> list[Any]:
    out: list[Any] = []
    nrc: list[Any] = []
    for e in ev:
        if e["k"] == "nrc":
            nrc.append(["nrc", e["code"], e["n"]])
            continue
        if nrc:
            out += sorted(nrc)
            nrc = []
        if e["k"] == "q":
            if e["p"][0] == svc:
                out.append(["q", e["t"], e["r"], e["nrc"]])
        elif e["k"] in ("start", "end"):
            out.append([e["k"], e["s"]])
        else:
            out.append([e["k"], e["n"]])
    return out + sorted(nrc)


def _case_from_behaviour(st: dict[str, Any], n: int) -> tuple[dict[str, Any], list[Any]] | None:
    if st.get("pc") != "Done":
        return None
    C = st["C"]
    svc = C["svc"]
    script: list[list[Any]] = []
    for e in st["hist"]:
        if e["k"] == "q" and e["p"][0] == svc:
            if e["r"] == "pos":
                script.append(["pos", "fb"] if e["fb"] else ["pos"])
            elif e["r"] == "neg":
                script.append(["neg", e["nrc"]])
            elif e["r"] in ("mis", "mal"):
                script.append([e["r"], 0])
            else:
                script.append([e["r"]])
    ecu = {"script": script, "default": ["pos"], "sessions": [1, 2, 3], "dsc_neg": sorted(_set(st["refuse"]))}
    case = cs.fuzz_case(svc, sorted(_set(C["dids"])), sorted(_set(C["sessions"])), C["min"], C["max"], C["iter"],
                        bytes(C["prefix"]).hex(), ecu, seed=n, style=0, origin="tlc-simulate",
                        extra={"tester_present": False})
    return case, _projection_of_events(st["hist"], svc)


def _spec_to_code(rep: Report, tier: str, seed: int) -> list[tuple[dict[str, Any], list[Any]]]:
    nsim = 30 if tier == "quick" else 300
    _res, behs = tlc.simulate_behaviours("MC_PduFuzz", "MC_PduFuzz_sim.cfg", num=nsim, depth=600, seed=seed + 1,
                                         timeout=1500)
    out = []
    for n, b in enumerate(behs):
        if b:
            x = _case_from_behaviour(b[-1][1], n)
            if x is not None:
                out.append(x)
    rep.extra["simulated_behaviours"] = len(out)
    if len(out) < nsim // 2:
        raise Machinery(f"spec->code: only {len(out)} complete design behaviours out of {nsim} simulated")
    return out


# ------------------------------------------------------------------ run
def _digest(case: dict[str, Any]) -> str:
    return hashlib.sha1(json.dumps([case["kind"], case["ecu"], case["cfg"], case.get("seed")],
                                   sort_keys=True).encode()).hexdigest()[:16]


def _nontrivial(t: dict[str, Any]) -> bool:
    if t["kind"] == "prim":
        return any(e["r"] != "pos" for e in t["ev"])
    svc = t["C"]["svc"]
    return any(e["k"] == "q" and e["p"][0] == svc and e["r"] != "pos" for e in t["ev"])


def _check_log(t: dict[str, Any]) -> None:
    """The result-tagged records are the observation of the statistics; if their wording is not understood any more
    the check cannot observe them: machinery failure, never a verdict."""
    if t["kind"] != "fuzz" or t["done"] != "ok":
        return
    n = {k: sum(1 for e in t["ev"] if e["k"] == k) for k in ("start", "end", "pos", "tmo", "ill")}
    svc = t["C"]["svc"]
    fuzzed = any(e["k"] == "q" and e["p"][0] == svc for e in t["ev"])
    if (fuzzed and n["start"] == 0) or (n["start"] > 0 and 0 in (n["end"], n["pos"], n["tmo"], n["ill"])):
        raise Machinery(f"result-tagged log records not understood ({n}); adapt the patterns in harness/x09_run.py; "
                        f"unparsed: {t.get('other')}")


def _sig(t: dict[str, Any], case: dict[str, Any]) -> dict[str, Any]:
    if t["kind"] == "prim":
        refused = bool(case["ecu"].get("dsc_neg"))
        return {"cmd": f"primitive uds {t['prim']}", "session_refused": refused}
    return {"cmd": "fuzz uds pdu", "service": hex(t["C"]["svc"])}


def build_cases(tier: str, seed: int) -> list[dict[str, Any]]:
    cases: list[dict[str, Any]] = []
    cases += cs.enumerated(tier)
    cases += cs.retry_shapes(tier)
    cases += cs.special()
    cases += cs.seeded(tier, seed)
    cases += cs.prim_cases(tier)
    return cases


def run(tier: str, seed: int) -> Report:
    setup_logging_once()  # instead of quiet_gallia_logging(): result-tagged records must be observable
    rep = Report("X09", tier, seed)
    rep.rule = ("executions = complete runs of the real PDUFuzzer (setup, main, teardown) resp. of the rdbi / pdu "
                "primitives against a scripted in-memory ECU; distinct = distinct (ECU script, option strings, RNG seed); "
                "non-trivial = the ECU gave at least one answer other than a positive response")
    rep.assumptions = [
        "growth item, not a listed property: statement in growth/X09.json, sources listed in spec/PduFuzzContract.tla",
        "full tcp-lines stack in memory: only asyncio.open_connection is replaced; TCPLinesTransport, ECU, UDSClient, "
        "TCPUDSServerTransport.handle_client and a UDSServer subclass are gallia code; virtual-time loop",
        "RNG: the command documents no seed option; random.seed(case seed) is called in the harness process right "
        "before PDUFuzzer.run(); payload bytes are never compared, only their length bounds",
        "the ECU script is indexed by the fuzz requests in the order they reach the ECU (a retry is a new request); a "
        "silent ECU never answers late (no stale answers); a dropped connection is closed by the ECU, serves nothing "
        "any more, and a new connection is accepted (or refused for a while: unspecified)",
        "DiagnosticSessionControl goes through gallia's default response chain (or conditionsNotCorrect for refused "
        "sessions), ECUReset / TesterPresent are always answered; unanswered management requests are not generated",
        "no power supply (power_cycle() returns False), observe_can_ids (raw CAN) not exercisable in the sandbox, "
        "database logging off",
        "negative response codes outside gallia's UDSErrorCodes enum are not generated; busyRepeatRequest / "
        "responsePending blocks are not compared (C04's subject) and counted as unspecified",
        "a positive reply echoing ANOTHER identifier is only generated when the fuzzed request carries at least one "
        "data byte (gallia compares identifiers only for requests it can parse; classification is C03's subject)",
        "statistics are read from the result-tagged records; if they are not understood the check fails as machinery",
    ]
    _mc(rep, tier)
    cases = build_cases(tier, seed)
    sims = _spec_to_code(rep, tier, seed)
    proj: dict[int, list[Any]] = {}
    for case, p in sims:
        proj[len(cases)] = p
        cases.append(case)
    seen: set[str] = set()
    uniq: list[dict[str, Any]] = []
    uproj: dict[int, list[Any]] = {}
    for i, c in enumerate(cases):
        d = _digest(c)
        if d in seen and i not in proj:
            continue
        seen.add(d)
        if i in proj:
            uproj[len(uniq)] = proj[i]
        uniq.append(c)
    traces = _run_cases(uniq)
    for i, t in enumerate(traces):
        t["id"] = i
        _check_log(t)
    drift = 0
    for i, p in uproj.items():
        got = _projection_of_events(traces[i]["ev"], traces[i]["C"]["svc"])
        if got != p:
            drift += 1
            rep.drift.append({"cfg": uniq[i]["cfg"], "script": uniq[i]["ecu"]["script"][:12], "design": p[:30],
                              "code": got[:30]})
    rep.extra["spec_to_code_replayed"] = len(uproj)
    rep.extra["spec_to_code_drift"] = drift
    verdicts, unspec = _validate(traces, rep)
    rep.traces = rep.evaluations = len(traces)
    origins: dict[str, int] = {}
    for i, t in enumerate(traces):
        origins[t["origin"]] = origins.get(t["origin"], 0) + 1
        if _nontrivial(t):
            rep.nontrivial.add(_digest(uniq[i]))
        v = verdicts[i]
        if v != "ok":
            rep.violate(v, _sig(t, uniq[i]), {"case": uniq[i], "done": t["done"], "exc": t.get("exc", ""),
                                              "reports": [e for e in t["ev"] if e["k"] != "q"][:40],
                                              "requests": [[e["t"], bytes(e["p"]).hex(), e["r"]] for e in t["ev"]
                                                           if e["k"] == "q"][:40]})
    rep.extra["origins"] = origins
    rep.extra["unspecified"] = {
        "fuzz: executions / blocks / requests the documented sources are silent about (self-fallback of the ECU, busy / "
        "pending answers, refused connections, min_length > max_length)": sum(
            unspec.get(i, 0) for i, t in enumerate(traces) if t["kind"] == "fuzz"),
        "prim: executions with an unanswered request (retries unspecified)": sum(
            unspec.get(i, 0) for i, t in enumerate(traces) if t["kind"] == "prim"),
    }
    rep.extra["run_exit"] = {k: sum(1 for t in traces if t["done"] == k) for k in sorted({t["done"] for t in traces})}
    for i in (0, len(traces) // 3, 2 * len(traces) // 3, len(traces) - 1):
        t = traces[i]
        rep.sample({"origin": t["origin"], "cfg": uniq[i]["cfg"], "done": t["done"], "verdict": verdicts[i],
                    "events": [(bytes(e["p"]).hex() + ">" + e["r"]) if e["k"] == "q" else e for e in t["ev"]][:14]})
    rep.exhaustive = True
    rep.extra["exhaustive_spaces"] = (
        "every ECU script over the 7 answer classes (pos, neg 0x31, neg 0x33, silent, mismatching, malformed, "
        f"connection drop) of length {3 if tier == 'quick' else 4} (WriteDataByIdentifier, 2 sessions x 2 iterations) and "
        f"{2 if tier == 'quick' else 3} (RoutineControl); every pattern of silent / dropped requests up to length "
        f"{4 if tier == 'quick' else 5} followed by each answering class (quick: every 3rd); thorough: every script of "
        "length 5 over (pos, neg, silent, drop) with a silent ECU afterwards; the primitives' option grid (quick: every "
        "2nd pdu case); everything else seeded samples")
    rep.extra["design_layer_not_vacuous"] = (f"every action of PduFuzz (cfg {COVERAGE_CFG}) is taken "
                                             "(TLC -coverage, counts in design_action_coverage)")
    _selftest(rep, traces, uniq, verdicts)
    return rep


def _selftest(rep: Report, traces: list[dict[str, Any]], cases: list[dict[str, Any]], verdicts: dict[int, str]) -> None:
    def clone(t: dict[str, Any]) -> dict[str, Any]:
        return json.loads(json.dumps(t))

    def is_fuzz(t: dict[str, Any], e: dict[str, Any]) -> bool:
        return e["k"] == "q" and e["p"][0] == t["C"]["svc"]

    base = next((t for i, t in enumerate(traces) if t["kind"] == "fuzz" and verdicts[i] == "ok" and t["done"] == "ok"
                 and any(e["k"] == "tmo" and e["n"] >= 1 for e in t["ev"])
                 and any(e["k"] == "pos" and e["n"] >= 1 for e in t["ev"])
                 and t["C"]["sessions"] != [1]
                 and not any(e["k"] == "q" and (e["fb"] or e["ib"]) for e in t["ev"])), None)
    prim = next((t for i, t in enumerate(traces) if t["kind"] == "prim" and verdicts[i] == "ok" and t["session"] > 1
                 and any(e["p"] == t["want"] for e in t["ev"])), None)
    if base is None or prim is None:
        raise Machinery("no accepted non-trivial trace to run the binding self-test on")
    muts: list[tuple[str, dict[str, Any], str]] = []
    a = clone(base)
    j = next(j for j, e in enumerate(a["ev"]) if e["k"] == "pos" and e["n"] >= 1)
    a["ev"][j]["n"] += 1
    muts.append(("reported positive count + 1", a, "P4/"))
    b = clone(base)
    j = next(j for j, e in enumerate(b["ev"]) if e["k"] == "tmo" and e["n"] >= 1)
    b["ev"][j]["n"] -= 1
    muts.append(("reported timeout count - 1", b, "P4/statistics-do-not-account"))
    c = clone(base)
    j = next(j for j, e in enumerate(c["ev"]) if is_fuzz(c, e) and e["t"] != 1)
    c["ev"][j]["t"] = 1
    muts.append(("fuzz request moved to the default session", c, "P2/"))
    d = clone(base)
    j = next(j for j, e in enumerate(d["ev"]) if is_fuzz(d, e))
    d["ev"][j]["p"] = d["ev"][j]["p"] + [0] * (d["C"]["max"] + 1)
    muts.append(("fuzz payload longer than max_length", d, "P1/"))
    e_ = clone(base)
    j = next(j for j, e in enumerate(e_["ev"]) if is_fuzz(e_, e) and e["r"] == "pos")
    e_["ev"][j]["r"] = "neg"
    e_["ev"][j]["nrc"] = 0x31
    muts.append(("ECU-side answer class changed from positive to negative", e_, "P4/"))
    f = clone(base)
    f["done"] = "exc:TimeoutError"
    muts.append(("run ended by an exception", f, "P6/"))
    g = clone(prim)
    j = next(j for j, e in enumerate(g["ev"]) if e["p"] == g["want"])
    g["ev"][j]["t"] = 1
    muts.append(("primitive request moved to the default session", g, "R2/"))
    h = clone(prim)
    j = next(j for j, e in enumerate(h["ev"]) if e["p"] == h["want"])
    h["ev"][j]["p"] = h["ev"][j]["p"][:-1] + [h["ev"][j]["p"][-1] ^ 1]
    muts.append(("primitive request with one byte changed", h, "R1/"))
    # mutant of the harness's own fake: it answers positively where its record says negative
    fc = next(c for c in cases if c["kind"] == "fuzz" and c["origin"].startswith("enum-2e")
              and any(x[0] == "neg" for x in c["ecu"]["script"][:2]))
    m = run_case(fc, mutant="fake-answers-positive-when-scripted-negative")
    m["kind"] = "fuzz"
    muts.append(("fake ECU answers positively where it records a negative response", m, "P4/"))
    for n, (_, t, _) in enumerate(muts):
        t["id"] = n
    v, _u = _validate([t for _, t, _ in muts], None)
    got = {name: v[n] for n, (name, _, _) in enumerate(muts)}
    wrong = [name for n, (name, _, want) in enumerate(muts) if not v[n].startswith(want)]
    if wrong:
        raise Machinery(f"binding self-test: corrupted traces / fake mutants not rejected as expected: {wrong}: {got}")
    rep.extra["binding_selftest"] = got


def replay(path: str) -> int:
    setup_logging_once()
    data = json.loads(open(path).read())
    bad = 0
    traces = []
    for n, v in enumerate(data["violations"]):
        case = v["detail"].get("case")
        if case is None:
            print(f"replay: violation {n} ({v['clause']}) is a design-layer counterexample: re-run ./check X09")
            bad += 1
            continue
        t = _one(case)
        t["id"] = len(traces)
        traces.append(t)
    if traces:
        verdicts, _ = _validate(traces, None)
        for t in traces:
            print(f"replay kind={t['kind']} origin={t['origin']} done={t['done']} verdict={verdicts[t['id']]}")
            bad += verdicts[t["id"]] != "ok"
    if bad:
        print(f"VIOLATION property=X09 replay={path}")
        return 1
    return 0
