"""C04 — one client request ends with the outcome its reply/fault sequence implies.

spec   : spec/UdsRequest.tla (contract: Implied; design: request_unsafe-shaped machine)
MC     : MC_UdsRequest_r{0,1,2,3}.cfg exhaustive; devS9/devS10 are negative controls
binding: real UDSClient.request() on a scripted transport under virtual time;
         code->spec: every execution validated by Trace_UdsRequest (TLC);
         spec->code: TLC-simulated design behaviours replayed, design outcome compared.
"""

from __future__ import annotations

import asyncio
import json
import random
from typing import Any

from gallia.services.uds.core import service
from gallia.services.uds.core.client import UDSClient, UDSRequestConfig
from gallia.services.uds.core.exception import (
    MalformedResponse,
    MissingResponse,
    RequestResponseMismatch,
)

from harness import tlc, vloop
from harness.common import Machinery, Report, quiet_gallia_logging
from harness.enum import ListChooser, explore
from harness.fakes import ScriptedTransport, ScriptEnv

READ_EVENTS = ["Timeout", "ConnErr", "Empty", "Busy", "Pending", "Mismatch", "Malformed", "NegFinal", "PosFinal"]
WRITE_EVENTS = [None, "WConnErr", "WTimeout"]
TOKENS = set(READ_EVENTS) | {"W", "WConnErr", "WTimeout"}
NRCS = [0x31, 0x33, 0x22, 0x13, 0x12, 0x7F, 0x10, 0x11]

REQ = service.ReadDataByIdentifierRequest(0x1234)


def reply_bytes(cls: str, k: int) -> bytes | None:
    if cls == "PosFinal":
        return bytes([0x62, 0x12, 0x34, k & 0xFF, (k >> 8) & 0xFF])
    if cls == "NegFinal":
        return bytes([0x7F, 0x22, NRCS[k % len(NRCS)]])
    if cls == "Busy":
        return bytes([0x7F, 0x22, 0x21])
    if cls == "Pending":
        return bytes([0x7F, 0x22, 0x78])
    if cls == "Mismatch":
        return [bytes.fromhex("5003001901f4"), bytes.fromhex("7f1031"), bytes.fromhex("62123500")][k % 3]
    if cls == "Malformed":
        return [bytes.fromhex("6212"), bytes.fromhex("62"), bytes.fromhex("7f22")][k % 3]
    return None


class ChoiceEnv(ScriptEnv):
    """Environment driven by a chooser (enumeration) — default choices are
    'write succeeds' and 'read times out'."""

    def __init__(self, chooser: Any) -> None:
        super().__init__()
        self.ch = chooser
        self.k = 0

    warm = False  # the warm-up exchange of a reconfigured client is simply answered

    def on_write(self, data: bytes) -> str | None:
        if self.warm:
            return None
        return WRITE_EVENTS[self.ch.choose(len(WRITE_EVENTS))]

    def on_read(self, timeout: float | None) -> tuple[str, bytes | None]:
        if self.warm:
            return "PosFinal", reply_bytes("PosFinal", 0)
        cls = READ_EVENTS[self.ch.choose(len(READ_EVENTS))]
        self.k += 1
        return cls, reply_bytes(cls, self.k)


class ListEnv(ScriptEnv):
    """Environment driven by an explicit event script; afterwards: silence."""

    def __init__(self, script: list[str]) -> None:
        super().__init__()
        self.script = list(script)
        self.pos = 0
        self.k = 0

    warm = False

    def on_write(self, data: bytes) -> str | None:
        if self.warm:
            return None
        if self.pos < len(self.script) and self.script[self.pos] in ("WConnErr", "WTimeout"):
            self.pos += 1
            return self.script[self.pos - 1]
        return None

    def on_read(self, timeout: float | None) -> tuple[str, bytes | None]:
        if self.warm:
            return "PosFinal", reply_bytes("PosFinal", 0)
        # write faults in read position are skipped (cannot happen in generated scripts)
        while self.pos < len(self.script) and self.script[self.pos] in ("WConnErr", "WTimeout"):
            self.pos += 1
        cls = self.script[self.pos] if self.pos < len(self.script) else "Timeout"
        self.pos += 1
        self.k += 1
        return cls, reply_bytes(cls, self.k)


P2_STAR_MS = 5000


def limits(timeout_s: float) -> dict[str, int]:
    ms = int(round(timeout_s * 1000))
    # silence after a pending: a reply within the EFFECTIVE request timeout is "received in time" (the statement:
    # "silence limit (currently max(timeout, 20 s))"), so the whole caller timeout must be tolerated
    # ... and at least P2*_server (ISO 14229-2 default 5000 ms): after a responsePending the ECU may take that long for
    # its next message, whatever the tester's own timeout is (the code: max(timeout, 20 s)); a final reply inside that
    # window is "received in time"
    return {"pendTol": 10, "pendEnd": 1000, "silTol": max(ms, P2_STAR_MS), "silEnd": 10 * max(ms, 20000)}


def execute(env: ScriptEnv, *, client_retry: int, override_retry: int | None,
            client_timeout: float, override_timeout: float | None,
            reconfigured_from: tuple[int, float] | None = None, via: str = "typed",
            slow: tuple[float, float] | None = None) -> dict[str, Any]:
    """Run one real UDSClient.request() against env; return the trace record.
    reconfigured_from = (max_retry, timeout): the client was constructed with these values, served one
    config-less request, and was then reconfigured by attribute assignment (as `scan uds services` does with
    `ecu.max_retry = 0`) to client_retry / client_timeout before the judged request."""
    R = override_retry if override_retry is not None else client_retry
    tmo = override_timeout if override_timeout is not None else client_timeout
    out: dict[str, Any] = {}

    if slow is not None:
        env.write_delay, env.reply_delay = slow[0] * tmo, slow[1] * tmo

    async def go() -> None:
        tr = ScriptedTransport(env)
        if reconfigured_from is not None:
            cl = UDSClient(tr, timeout=reconfigured_from[1], max_retry=reconfigured_from[0])
            env.warm = True  # type: ignore[attr-defined]
            try:
                await cl.request(REQ)
            finally:
                env.warm = False  # type: ignore[attr-defined]
                env.log.clear()
            cl.max_retry = client_retry
            cl.timeout = client_timeout
        else:
            cl = UDSClient(tr, timeout=client_timeout, max_retry=client_retry)
        cfg = None
        if override_retry is not None or override_timeout is not None:
            cfg = UDSRequestConfig(timeout=override_timeout, max_retry=override_retry)
        try:
            resp = await (cl.send_raw(REQ.pdu, cfg) if via == "raw" else cl.request(REQ, cfg))
            out["resp"] = resp
        except BaseException as e:  # noqa: BLE001
            out["exc"] = e

    horizon = 50 * (R + 1) * 130 * max(tmo, 20.0)
    hang = False
    try:
        vloop.run(go(), horizon=horizon)
    except (TimeoutError, vloop.BlockedForever):
        hang = True
    seq = []
    datas = []
    for r in env.log:
        if r["e"] in TOKENS:
            tok = {"e": r["e"]}
            if r["e"] == "Timeout":
                tok["d"] = r["d"]
            seq.append(tok)
            datas.append(r.get("data") if r["e"] != "W" else None)
    ms = env.log[-1]["t"] if env.log else 0
    if hang or ("resp" not in out and "exc" not in out):
        outcome: dict[str, Any] = {"t": "Hang"}
    elif "resp" in out:
        hexd = out["resp"].pdu.hex()
        ks = [i + 1 for i, d in enumerate(datas) if d == hexd]
        outcome = {"t": "Reply", "k": ks[-1] if ks else 0}
    else:
        e = out["exc"]
        if isinstance(e, MissingResponse):
            cause = "conn" if isinstance(e.__cause__, ConnectionError) else "none"
            outcome = {"t": "Missing", "cause": cause}
        elif isinstance(e, RequestResponseMismatch):
            outcome = {"t": "Illegal", "kind": "Mismatch", "k": len(seq)}
        elif isinstance(e, MalformedResponse):
            outcome = {"t": "Illegal", "kind": "Malformed", "k": len(seq)}
        elif isinstance(e, (OSError, TimeoutError, asyncio.CancelledError)):
            outcome = {"t": "Raw", "exc": type(e).__name__}
        elif isinstance(e, Exception):
            outcome = {"t": "Stuck"}
        else:
            outcome = {"t": "Raw", "exc": type(e).__name__}
    reconnects = sum(1 for r in env.log if r["e"] == "RC")
    env.dispose()
    return {"R": R, "lim": limits(tmo), "seq": seq, "outcome": outcome, "ms": ms,
            "reconnects": reconnects, "timeout_ms": int(tmo * 1000),
            "cfg": {"client_retry": client_retry, "override_retry": override_retry,
                    "client_timeout": client_timeout, "override_timeout": override_timeout,
                    "reconfigured_from": list(reconfigured_from) if reconfigured_from else None,
                    "via": via, "slow": list(slow) if slow else None}}


def script_of(trace: dict[str, Any]) -> list[str]:
    return [t["e"] for t in trace["seq"] if t["e"] != "W"]


def validate(traces: list[dict[str, Any]]) -> dict[int, str]:
    """TLC batch validation; returns id -> verdict."""
    batch = {"traces": [{"id": i, "R": t["R"], "lim": t["lim"], "seq": t["seq"], "outcome": t["outcome"],
                         "ms": t["ms"]} for i, t in enumerate(traces)]}
    verdicts: dict[int, str] = {}
    CH = 4000
    res_all = []
    for off in range(0, len(traces), CH):
        sub = {"traces": batch["traces"][off:off + CH]}
        res = tlc.validate_batch("Trace_UdsRequest", "Trace_UdsRequest.cfg", sub, timeout=1800,
                                 env={"JAVA_TOOL_OPTIONS": "-Xss512m"})
        res_all.append(res)
        for p in res.prints:
            if isinstance(p, list) and len(p) == 3 and p[0] == "V":
                verdicts[p[1]] = p[2]
    missing = [i for i in range(len(traces)) if i not in verdicts]
    if missing:
        raise Machinery(f"TLC produced no verdict for {len(missing)} traces (first id {missing[0]}):\n"
                        + res_all[-1].out[-2000:])
    validate.last = res_all  # type: ignore[attr-defined]
    return verdicts


def long_scripts() -> list[tuple[list[str], int, float | None]]:
    out: list[tuple[list[str], int, float | None]] = []
    for n in (1, 5, 117, 118, 119, 120, 121):
        for tail in (["PosFinal"], ["NegFinal"], [], ["Busy"], ["ConnErr"], ["Malformed"]):
            for R in (0, 1):
                out.append((["Pending"] * n + tail, R, None))
    for n in (1, 38, 39, 40, 41):
        for tail in (["PosFinal"], ["Pending", "PosFinal"], []):
            for R in (0, 1):
                out.append((["Pending"] + ["Timeout"] * n + tail, R, None))
    # silence limit depends on the request timeout (max(timeout, 20 s))
    for n in (58, 59, 60, 61):
        out.append((["Pending"] + ["Timeout"] * n + ["PosFinal"], 0, 30.0))
    # pendings interleaved with silence: only consecutive timeouts count
    out.append((["Pending"] + (["Timeout"] * 39 + ["Pending"]) * 3 + ["PosFinal"], 0, None))
    # retry after exhausted silence, then success
    out.append((["Pending"] + ["Timeout"] * 40 + ["PosFinal"], 1, None))
    out.append((["Pending"] + ["Timeout"] * 40 + ["Pending"] * 3 + ["NegFinal"], 2, None))
    return out


def limit_structured_scripts(tier: str) -> list[tuple[list[str], int]]:
    """Scripts built from long runs around the pending / silence limits, over several attempts:
    attempt = Pending^a . Timeout^b . Pending^c . terminator ; the terminators that make the client
    retry (silence up to the limit, connection error, empty read) chain a further attempt."""
    a_s = [1, 70] + ([119] if tier == "thorough" else [])
    b_s = [0, 1, 39] + ([20] if tier == "thorough" else [])
    terms_retry = [["Timeout"] * 40, ["ConnErr"], ["Empty"]]
    terms_final = [["PosFinal"], ["NegFinal"], ["Busy"]]
    attempts_retry: list[list[str]] = []
    attempts_final: list[list[str]] = []
    for a in a_s:
        for b in b_s:
            for c in (0, 1):
                body = ["Pending"] * a + ["Timeout"] * b + ["Pending"] * c
                if b == 0 and c == 1:
                    continue
                for t in terms_retry:
                    attempts_retry.append(body + t)
                for t in terms_final:
                    attempts_final.append(body + t)
    out: list[tuple[list[str], int]] = []
    for first in attempts_retry:
        for second in attempts_final:
            out.append((first + second, 1))
    if tier == "thorough":
        for i, first in enumerate(attempts_retry):
            for j, second in enumerate(attempts_retry):
                if (i + j) % 3:
                    continue
                for third in attempts_final[:: 4]:
                    out.append((first + second + third, 2))
    return out


def run(tier: str, seed: int) -> Report:
    quiet_gallia_logging()
    rep = Report("C04", tier, seed)
    rep.rule = ("executions = real UDSClient.request() runs against a scripted transport under virtual time; "
                "enumerated: every choice vector (write: ok/ConnErr/Timeout; read: 9 event classes) up to the "
                "stated depth x max_retry 0..3 (client-level and per-request override) x timeout overrides, plus "
                "long pending/silence scripts around the 120/40 limits, plus TLC-simulated design behaviours; "
                "distinct = distinct (R, timeout, call/event sequence); non-trivial = at least one event besides a "
                "single final reply")
    rep.assumptions = [
        "reply classes are produced by construction (bytes chosen so that parse_pdu classifies them as intended); "
        "C03 checks that classification independently",
        "virtual-time loop: asyncio timers fire exactly; FIFO ready queue",
        "limits are intervals from the statement: >=10 and <1000 pendings, silence between the caller timeout "
        "and 10*max(timeout,20s)",
    ]
    # ---- 1. model checking of the design layer against the contract
    mcs = ["r0", "r1", "r2"] + (["r3"] if tier == "thorough" else [])
    for c in mcs:
        res = tlc.run_tlc("MC_UdsRequest", f"MC_UdsRequest_{c}.cfg", timeout=1800)
        rep.add_tlc(res, f"MC_UdsRequest_{c}")
        if not res.ok:
            rep.violate(f"design/{res.violated}", {"where": "UdsRequest design layer", "cfg": c},
                        {"cex": res.cex[-5:], "out": res.out[-1500:]})
    for c in ("devS9", "devS10"):
        res = tlc.run_tlc("MC_UdsRequest", f"MC_UdsRequest_{c}.cfg", timeout=600)
        rep.add_tlc(res, f"MC_UdsRequest_{c} (negative control)")
        if res.violated not in ("K4_OutcomeImplied", "K4_Verdict"):
            raise Machinery(f"negative control {c} did not violate K4 (got {res.violated}): contract is vacuous")
    # ---- 2. enumerate real executions
    traces: list[dict[str, Any]] = []
    seen: set[str] = set()

    def add(t: dict[str, Any], origin: str) -> None:
        key = json.dumps([t["R"], t["timeout_ms"], t["seq"], t["cfg"].get("via"), t["cfg"].get("slow")])
        if key in seen:
            return
        seen.add(key)
        t["origin"] = origin
        traces.append(t)

    depth = 5 if tier == "quick" else 7
    for R in (0, 1, 2, 3):
        d = depth if R <= 1 else (depth if tier == "quick" else depth - 1)

        def runit(ch: Any, R: int = R) -> dict[str, Any]:
            return execute(ChoiceEnv(ch), client_retry=R, override_retry=None, client_timeout=2.0,
                           override_timeout=None)

        for _vec, t in explore(runit, d):
            add(t, f"enum-depth{d}")
    # per-request overrides: config.max_retry overrides the client's; config.timeout overrides
    for cr, orr in ((0, 2), (3, 0), (1, 1), (2, 0)):
        for ot in (None, 0.3, 30.0):

            def runit2(ch: Any, cr: int = cr, orr: int = orr, ot: float | None = ot) -> dict[str, Any]:
                return execute(ChoiceEnv(ch), client_retry=cr, override_retry=orr, client_timeout=2.0,
                               override_timeout=ot)

            for _vec, t in explore(runit2, 3 if tier == "quick" else 4):
                add(t, "enum-override")
    # a client that was reconfigured by attribute assignment after it had served a request (the scanners do
    # `ecu.max_retry = 0`): the judged request must follow the CURRENT values
    for r0, t0, r1, t1 in ((3, 2.0, 0, 2.0), (0, 2.0, 2, 2.0), (2, 5.0, 1, 0.5), (1, 0.5, 1, 5.0)):

        def runit3(ch: Any, r0: int = r0, t0: float = t0, r1: int = r1, t1: float = t1) -> dict[str, Any]:
            return execute(ChoiceEnv(ch), client_retry=r1, override_retry=None, client_timeout=t1,
                           override_timeout=None, reconfigured_from=(r0, t0))

        for _vec, t in explore(runit3, 3 if tier == "quick" else 4):
            add(t, "enum-reconfigured")
    # the same request handed over as bytes (send_raw): same wire events, same implied outcome
    for R in (0, 1):

        def runit4(ch: Any, R: int = R) -> dict[str, Any]:
            return execute(ChoiceEnv(ch), client_retry=R, override_retry=None, client_timeout=2.0,
                           override_timeout=None, via="raw")

        for _vec, t in explore(runit4, 3 if tier == "quick" else 5):
            add(t, "enum-raw")
    # a transport on which sending and answering each take most of (but less than) the request timeout
    for R in (0, 2):
        for slow in ((0.6, 0.6), (0.9, 0.0), (0.0, 0.9)):

            def runit5(ch: Any, R: int = R, slow: tuple[float, float] = slow) -> dict[str, Any]:
                return execute(ChoiceEnv(ch), client_retry=R, override_retry=None, client_timeout=0.4,
                               override_timeout=None, slow=slow)

            for _vec, t in explore(runit5, 3 if tier == "quick" else 4):
                add(t, "enum-slow-transport")
    # ---- 3. long scripts across the limits
    for script, R, ot in long_scripts():
        add(execute(ListEnv(script), client_retry=R, override_retry=None, client_timeout=2.0,
                    override_timeout=ot), "long")
    # clients with a short timeout (0.1 / 0.2 / 0.3 s, client-level and per request): the wait after a responsePending
    # is governed by P2*_server, not by the tester's own timeout - a final reply 2..4.9 s after the pending is in time
    for ct, ot in ((0.1, None), (0.2, None), (2.0, 0.1), (0.3, None), (0.1, 0.25)):
        eff = ot if ot is not None else ct
        for silent_s in (0.35, 2.0, 4.2, 4.9):
            n = int(silent_s / min(eff, 0.5) + 0.5)
            for tail in (["PosFinal"], ["Pending", "NegFinal"]):
                for R in (0, 1):
                    add(execute(ListEnv(["Pending"] + ["Timeout"] * n + tail), client_retry=R, override_retry=None,
                                client_timeout=ct, override_timeout=ot), "short-timeout-pending")
    for script, R in limit_structured_scripts(tier):
        add(execute(ListEnv(script), client_retry=R, override_retry=None, client_timeout=2.0,
                    override_timeout=None), "limit-structured")
    rnd = random.Random(seed)
    nrand = 300 if tier == "quick" else 5000
    for _ in range(nrand):
        n = rnd.randint(1, 40)
        script = rnd.choices(READ_EVENTS + ["WConnErr", "WTimeout"],
                             weights=[6, 2, 2, 3, 12, 1, 1, 1, 1, 1, 1], k=n)
        add(execute(ListEnv(script), client_retry=rnd.randint(0, 3), override_retry=None, client_timeout=2.0,
                    override_timeout=None), "random")
    # ---- 4. spec -> code: TLC-simulated design behaviours (real constants) replayed
    nsim = 150 if tier == "quick" else 1500
    sres, behs = tlc.simulate_behaviours("MC_UdsRequest", "MC_UdsRequest_real.cfg", num=nsim, depth=400,
                                         seed=seed + 1, timeout=900)
    rep.extra["simulated_behaviours"] = len(behs)
    drift = 0
    for b in behs:
        if not b:
            continue
        st = b[-1][1]
        hist = st.get("hist")
        if not isinstance(hist, list) or st.get("pc") != "Done":
            continue
        script = [tok["e"] for tok in hist if tok["e"] != "W"]
        t = execute(ListEnv(script), client_retry=2, override_retry=None, client_timeout=2.0, override_timeout=None)
        want = st["outcome"]
        got = t["outcome"]
        same = want.get("t") == got.get("t") and (want.get("k") == got.get("k")) and \
            [x["e"] for x in t["seq"]] == [x["e"] for x in hist]
        if not same:
            drift += 1
            rep.drift.append({"script": script[:40], "design": want, "code": got})
        add(t, "tlc-simulate")
    rep.extra["spec_to_code_replayed"] = len(behs)
    rep.extra["spec_to_code_drift"] = drift
    # ---- 5. code -> spec: TLC validates every execution
    verdicts = validate(traces)
    for res in validate.last:  # type: ignore[attr-defined]
        rep.add_tlc(res, "Trace_UdsRequest batch")
    rep.traces = len(traces)
    rep.evaluations = len(traces)
    for i, t in enumerate(traces):
        sc = script_of(t)
        if not (len(sc) == 1 and sc[0] in ("PosFinal", "NegFinal")):
            rep.nontrivial.add(i)
        if verdicts[i] != "ok":
            last = t["seq"][-1]["e"] if t["seq"] else ""
            in_pending = "Pending" in sc
            rep.violate(verdicts[i], {"outcome": t["outcome"]["t"], "last_event": last, "after_pending": in_pending},
                        {"cfg": t["cfg"], "script": sc if len(sc) < 60 else sc[:20] + ["..."] + sc[-20:],
                         "n_events": len(sc), "outcome": t["outcome"], "origin": t["origin"]})
    for t in traces[:2] + traces[len(traces) // 2: len(traces) // 2 + 2]:
        rep.sample({"R": t["R"], "script": script_of(t)[:12], "outcome": t["outcome"], "ms": t["ms"]})
    rep.exhaustive = True
    rep.extra["enumeration_depth"] = depth
    rep.extra["origins"] = {o: sum(1 for t in traces if t["origin"] == o) for o in {t["origin"] for t in traces}}
    # ---- 6. binding self-tests: a corrupted trace must be rejected
    ok_traces = [t for i, t in enumerate(traces) if verdicts[i] == "ok" and t["outcome"]["t"] == "Reply"
                 and len(t["seq"]) >= 4]
    if ok_traces:
        t = json.loads(json.dumps(ok_traces[0]))
        t1 = json.loads(json.dumps(t)); t1["outcome"] = {"t": "Missing", "cause": "none"}
        t2 = json.loads(json.dumps(t)); t2["seq"].insert(2, {"e": "W"})
        t3 = json.loads(json.dumps(t)); t3["outcome"]["k"] -= 1
        v = validate([t1, t2, t3])
        if any(v[i] == "ok" for i in range(3)):
            raise Machinery(f"binding self-test: corrupted traces accepted: {v}")
        rep.extra["binding_selftest"] = {"corrupted_rejected": [v[0], v[1], v[2]]}
    else:
        raise Machinery("no accepted multi-event trace to run the binding self-test on")
    return rep


def replay(path: str) -> int:
    data = json.loads(open(path).read())
    bad = 0
    for v in data["violations"]:
        d = v["detail"]
        sc = [s for s in d["script"] if s != "..."]
        c = d["cfg"]
        t = execute(ListEnv(sc), client_retry=c["client_retry"], override_retry=c["override_retry"],
                    client_timeout=c["client_timeout"], override_timeout=c["override_timeout"],
                    reconfigured_from=tuple(c["reconfigured_from"]) if c.get("reconfigured_from") else None,
                    via=c.get("via", "typed"), slow=tuple(c["slow"]) if c.get("slow") else None)
        verdict = validate([t])[0]
        print(f"replay script={sc[:12]} R={t['R']} outcome={t['outcome']} verdict={verdict}")
        bad += verdict != "ok"
    if bad:
        print(f"VIOLATION property=C04 replay={path}")
        return 1
    return 0
