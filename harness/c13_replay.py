"""spec -> code for C13: the transitions TLC prints for the design layer
(MC_VEcu_export*.cfg) are replayed into a real RandomUDSServer whose `services`
is the concretised MC model and whose behaviour switches are the switch set of
the transition."""

from __future__ import annotations

import re
from collections import deque
from typing import Any

from gallia.services.uds.core.constants import UDSIsoServices

import gallia.services.uds.server as srv
from harness import tlc
from harness.c13_ecu import RULES, SID_SA, Corpus, Probe, parsable
from harness.common import Machinery

_RE_T = re.compile(r'^<<"T", \{([^}]*)\}, (-?\d+), (-?\d+), (-?\d+), (\d+), <<(\d+), (-?\d+)>>, (\d+), '
                   r'(-?\d+), (-?\d+), (-?\d+)>>$')


class Export:
    def __init__(self, out: str) -> None:
        self.reqs: dict[int, dict[str, Any]] = {}
        self.model: dict[int, dict[int, list[int] | None]] = {}
        # B -> state -> req index -> set of outcomes (k, x, vis, s2, l2, ls2)
        self.trans: dict[frozenset[str], dict[tuple[int, int, int], dict[int, set[tuple[int, ...]]]]] = {}
        self.n = 0
        for ln in out.split("\n"):
            if not ln.startswith("<<"):
                continue
            if ln.startswith('<<"T"'):
                mt = _RE_T.match(ln)
                if not mt:
                    raise Machinery(f"cannot parse exported transition: {ln[:120]}")
                B = frozenset(RULES[int(x)] for x in mt.group(1).split(",") if x.strip())
                s, l, ls, i, k, x, vis, s2, l2, ls2 = (int(mt.group(j)) for j in range(2, 12))
                self.trans.setdefault(B, {}).setdefault((s, l, ls), {}).setdefault(i, set()).add((k, x, vis, s2, l2, ls2))
                self.n += 1
            elif ln.startswith('<<"Q"'):
                v = tlc.parse_value(ln)
                self.reqs[int(v[1])] = {"b": bytes(v[2]), "p": bool(v[3]), "key": v[4]}
            elif ln.startswith('<<"M"'):
                v = tlc.parse_value(ln)
                self.model.setdefault(int(v[1]), {})[int(v[2])] = sorted(v[4]["$set"]) if v[3] else None
        if not self.reqs or not self.model or not self.trans:
            raise Machinery("export run printed no requests / model / transitions")
        for i, r in self.reqs.items():
            if r["key"] == "na" and parsable(r["b"]) != r["p"]:
                raise Machinery(f"MC request {i} ({r['b'].hex()}) is marked parsable={r['p']} but gallia's codec "
                                f"says {parsable(r['b'])}: the concretisation of the MC model is wrong")


def concretise(model: dict[int, dict[int, list[int] | None]]) -> dict[int, dict[Any, list[int] | None]]:
    return {sess: {UDSIsoServices(sid): (None if subs is None else list(subs)) for sid, subs in svcs.items()}
            for sess, svcs in model.items()}


def _code(pk: str, pb: list[int], pn: int, raised: str) -> tuple[int, int]:
    if raised:
        return (3, 0)
    if pk == "none":
        return (0, 0)
    if pn == 3 and pb[0] == 0x7F:
        return (1, pb[2])
    return (2, pb[1] if pn >= 2 else -1)


async def replay_export(exp: Export, corpus: Corpus, *, stride: int = 1) -> dict[str, Any]:
    """Returns counters and the list of design disagreements (each with the corpus trace id and
    step index so that the caller can tell drift from contract violations)."""
    server = srv.RandomUDSServer(0)
    server.services = concretise(exp.model)
    probe = Probe(server)
    mi = corpus.model_index(exp.model)
    disagreements: list[dict[str, Any]] = []
    stats = {"transitions": 0, "replayed": 0, "states": 0, "unreached": 0, "skipped_no_seed": 0}

    def pdu_of(i: int) -> bytes | None:
        r = exp.reqs[i]
        if r["key"] == "na":
            return r["b"]
        ls = probe.last_seed()
        seed = ls[1] if ls is not None else b""
        if r["key"] == "right":
            if ls is None:
                return r["b"]  # no seed outstanding: the answer does not depend on the key
            if not seed:
                return None  # an empty seed cannot be answered (a key has at least one byte)
            return r["b"][:2] + seed
        return r["b"][:2] + (bytes([seed[0] ^ 0xFF]) + seed[1:] if seed else b"\x5a")

    def code_state() -> tuple[int, int, int]:
        s, l = probe.state()
        ls = probe.last_seed()
        return (s, l, 0 if ls is None else ls[0])

    for bi, (B, states) in enumerate(sorted(exp.trans.items(), key=lambda kv: sorted(kv[0]))):
        # shortest request paths from the initial state, over edges whose successor does not
        # depend on the service handler's choice
        init = (1, -1, 0)
        paths: dict[tuple[int, int, int], list[int]] = {init: []}
        dq = deque([init])
        while dq:
            st = dq.popleft()
            for i, outs in sorted(states.get(st, {}).items()):
                nxt = {o[3:] for o in outs}
                if len(nxt) != 1 or any(o[0] == 3 for o in outs):
                    continue
                t = next(iter(nxt))
                if t not in paths:
                    paths[t] = paths[st] + [i]
                    dq.append(t)
        for si, (st, by_req) in enumerate(sorted(states.items())):
            stats["transitions"] += sum(len(v) for v in by_req.values())
            if (bi + si) % stride:
                continue
            if st not in paths:
                stats["unreached"] += 1
                continue
            probe.fresh(B)
            steps: list[dict[str, Any]] = []
            ok = True
            for i in paths[st]:
                pdu = pdu_of(i)
                if pdu is None:  # empty seed: ask again (same state), then answer
                    for _ in range(8):
                        steps.append(await probe.exchange(bytes([SID_SA, code_state()[2]])))
                        pdu = pdu_of(i)
                        if pdu is not None:
                            break
                if pdu is None:
                    ok = False
                    break
                steps.append(await probe.exchange(pdu))
            if ok and st[2] % 2 == 1 and not (probe.last_seed() or (0, b""))[1]:
                for _ in range(8):
                    steps.append(await probe.exchange(bytes([SID_SA, st[2]])))
                    if (probe.last_seed() or (0, b""))[1]:
                        break
            if not ok or code_state() != st:
                ptid = len(corpus.traces) if steps else None
                if steps:
                    corpus.add(m=mi, B=B, mode="E", steps=steps, meta={"origin": "spec->code path", "mc": True})
                if ok:
                    disagreements.append({"B": sorted(B), "state": st, "kind": "path", "path": paths[st],
                                          "code_state": code_state(), "trace": ptid, "step": None})
                else:
                    stats["skipped_no_seed"] += 1
                continue
            stats["states"] += 1
            if steps:
                corpus.add(m=mi, B=B, mode="E", steps=steps, meta={"origin": "spec->code path", "mc": True})
            snap = (server.state.session, server.state.security_access_level, server.state.last_sa_response)
            group: list[dict[str, Any]] = []
            gtid = len(corpus.traces)
            for i, outs in sorted(by_req.items()):
                server.state.session, server.state.security_access_level, server.state.last_sa_response = snap
                pdu = pdu_of(i)
                if pdu is None:
                    stats["skipped_no_seed"] += 1
                    continue
                step = await probe.exchange(pdu)
                k, x = _code(step["pk"], step["pb"], step["pn"], step["x"])
                vis = 0 if step["vk"] == "none" else (1 if step["vn"] == 3 and step["vb"][0] == 0x7F else 2)
                got = (k, x, vis) + code_state()
                stats["replayed"] += 1
                group.append(step)
                if got not in outs:
                    disagreements.append({"B": sorted(B), "state": st, "kind": "step", "req": pdu.hex(),
                                          "design": sorted(outs), "code": got, "trace": gtid, "step": len(group)})
            if group:
                corpus.add(m=mi, B=B, mode="E", steps=group, init=(st[0], st[1]), indep=True,
                           meta={"origin": "spec->code", "mc": True, "state": st})
    return {"stats": stats, "disagreements": disagreements}
