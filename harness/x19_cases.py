"""X19 case families (pure data, JSON-able => replayable).  No gallia import here."""

from __future__ import annotations

import itertools
import random
from typing import Any

NAMES = {2: "critical", 3: "error", 4: "warning", 5: "notice", 6: "info", 7: "debug", 8: "trace"}
ALL_NAMES = {0: "emergency", 1: "alert", **NAMES}
MODES = ("always", "auto", "never")


def setup(node: str, lvl: int, mode: str = "never", tty: bool = False, nocolor: bool = False, vol: bool = False,
          cols: int = 80, env: str | None = None, envp: int = -1, explicit_name: bool = False) -> dict[str, Any]:
    return {"a": "setup", "node": node, "lvl": lvl, "mode": mode, "tty": tty, "nocolor": nocolor, "vol": vol,
            "cols": cols, "env": env, "envp": envp, "explicit_name": explicit_name}


def add(f: int, lvl: int) -> dict[str, Any]:
    return {"a": "add", "f": f, "lvl": lvl}


def rm(f: int) -> dict[str, Any]:
    return {"a": "rm", "f": f}


def log(src: str, prio: int, shape: str = "plain", long: bool = False, via: str = "method") -> dict[str, Any]:
    return {"a": "log", "src": src, "prio": 5 if shape == "result" else prio, "shape": shape, "long": long, "via": via}


def run(origin: str, ev: list[dict[str, Any]]) -> dict[str, Any]:
    return {"kind": "run", "origin": origin, "ev": ev}


# ------------------------------------------------------------------ tables
def tables() -> list[dict[str, Any]]:
    out: list[dict[str, Any]] = [{"kind": "levels"}]
    for p, name in ALL_NAMES.items():
        for s in {name, name.upper(), name.capitalize(), name[:2].upper() + name[2:]}:
            out.append({"kind": "fromstr", "s": s, "cls": "name", "want": p})
        out.append({"kind": "fromstr", "s": str(p), "cls": "num", "want": p})
    for s in ["", "verbose", "9", "10", "-1", "1.5", "debugging", "info!", "none", "99"]:
        out.append({"kind": "fromstr", "s": s, "cls": "invalid", "want": -1})
    for s in [" debug", "debug ", "07", "٣", "0x3", "+3", "²", "warn", "fatal", "8 ", "err"]:
        out.append({"kind": "fromstr", "s": s, "cls": "odd", "want": -1})
    for n in [-2, -1, 0, 1, 2, 3, 4, 5, 6, 10, 100]:
        out.append({"kind": "verb", "n": n})
    for has_tl, tl in ((True, True), (True, False), (False, False)):
        for verbose in (None, 0, 1, 2, 3, 7):
            out.append({"kind": "filelevel", "has_tl": has_tl, "tl": tl, "verbose": verbose})
    return out


# ------------------------------------------------------------------ palettes
def palette_events(node: str, mode: str, tty: bool, nocolor: bool, vol: bool, cols: int = 100) -> list[dict[str, Any]]:
    ev = [setup(node, 8, mode, tty, nocolor, vol, cols), add(1, 7)]
    for i, p in enumerate(range(8, 1, -1)):
        ev.append(log("child" if i % 2 else "gallia", p, "plain", via="log" if i % 3 == 0 else "method"))
    ev += [log("child", 4, "tags"), log("child", 5, "multi"), log("gallia", 3, "exc"), log("child", 5, "result"),
           log("child", 6, "plain", long=True), log("child", 3, "plain", long=True), log("child", 6, "tags"),
           log("gallia", 7, "exc"), log("child", 8, "multi")]
    return ev


def palettes() -> list[dict[str, Any]]:
    out = []
    for node, mode, tty, nocolor, vol in itertools.product(("root", "gallia"), MODES, (False, True), (False, True),
                                                             (False, True)):
        out.append(run("palette", palette_events(node, mode, tty, nocolor, vol)))
    return out


# ------------------------------------------------------------------ thresholds (exhaustive)
def thresholds() -> list[dict[str, Any]]:
    out = []
    for node, vol in itertools.product(("root", "gallia"), (False, True)):
        for cl in range(2, 9):
            for fl in range(2, 9):
                ev = [setup(node, cl, "never", False, False, vol, 120), add(1, fl)]
                for i, p in enumerate(range(8, 1, -1)):
                    ev.append(log("child" if (i + cl) % 2 else "gallia", p, via="log" if (i + fl) % 2 else "method"))
                ev += [rm(1), log("child", 2), log("gallia", 8)]
                out.append(run("threshold", ev))
    return out


# ------------------------------------------------------------------ GALLIA_LOGLEVEL
def env_levels() -> list[dict[str, Any]]:
    vals: list[tuple[str | None, int]] = [(None, -1)]
    for p, name in NAMES.items():
        vals.append((name, p))
    vals += [("DEBUG", 7), ("Warning", 4)]
    vals += [(str(p), p) for p in range(0, 9)]
    vals += [("verbose", -2), ("9", -2), ("", -2)]
    out = []
    for env, envp in vals:
        for node in ("gallia", "root"):
            ev = [setup(node, -1, "never", False, False, False, 120, env=env, envp=envp), add(1, 8)]
            ev += [log("child", p) for p in range(8, 1, -1)]
            out.append(run("env", ev))
    # an explicit level wins over the variable
    for env, envp in (("trace", 8), ("critical", 2), ("0", 0), ("verbose", -2)):
        ev = [setup("gallia", 4, "never", False, False, False, 120, env=env, envp=envp)]
        ev += [log("child", p) for p in range(8, 1, -1)]
        out.append(run("env-explicit", ev))
    return out


# ------------------------------------------------------------------ lifecycles (exhaustive up to a length)
SYMS = ("Sg", "Sr", "A1", "A2", "R1", "R2", "Lg", "Lc", "Lo")
_SLV = (6, 8, 4, 7)
_ALV = {1: (7, 5), 2: (8, 3)}
_LPR = (6, 7, 3, 8, 5, 2, 4)


def lifecycle_from(word: tuple[str, ...], vol: bool = False) -> dict[str, Any] | None:
    ev: list[dict[str, Any]] = []
    open_: set[int] = set()
    ns = na = nl = 0
    for s in word:
        if s[0] == "S":
            ev.append(setup("gallia" if s == "Sg" else "root", _SLV[ns % len(_SLV)], "never", False, False, vol, 120,
                            explicit_name=ns % 2 == 1))
            ns += 1
        elif s[0] == "A":
            f = int(s[1])
            if f in open_:
                return None
            open_.add(f)
            ev.append(add(f, _ALV[f][na % 2]))
            na += 1
        elif s[0] == "R":
            f = int(s[1])
            if f not in open_:
                return None
            open_.discard(f)
            ev.append(rm(f))
        else:
            src = {"g": "gallia", "c": "child", "o": "other"}[s[1]]
            ev.append(log(src, _LPR[nl % len(_LPR)], ("plain", "tags", "plain", "exc")[nl % 4]))
            nl += 1
    return run("lifecycle", ev)


def lifecycles(length: int) -> list[dict[str, Any]]:
    out = []
    for first in ("Sg", "Sr"):
        for word in itertools.product(SYMS, repeat=length):
            if not any(s[0] == "L" for s in word):
                continue
            c = lifecycle_from((first, *word))
            if c is not None:
                out.append(c)
    return out


# ------------------------------------------------------------------ seeded sessions
def random_session(rnd: random.Random) -> dict[str, Any]:
    tty, nocolor = rnd.random() < 0.5, rnd.random() < 0.3
    cols = rnd.choice([60, 80, 100, 120, 200])
    ev: list[dict[str, Any]] = []
    open_: set[int] = set()

    def a_setup() -> dict[str, Any]:
        lvl, env, envp = rnd.randint(2, 8), None, -1
        if rnd.random() < 0.15:
            p = rnd.randint(2, 8)
            lvl, env, envp = -1, rnd.choice([NAMES[p], NAMES[p].upper(), str(p)]), p
        elif rnd.random() < 0.1:
            p = rnd.randint(2, 8)
            env, envp = NAMES[p], p
        return setup(rnd.choice(["gallia", "gallia", "root"]), lvl, rnd.choice(MODES), tty, nocolor,
                     rnd.random() < 0.5, cols, env=env, envp=envp, explicit_name=rnd.random() < 0.5)

    def a_log() -> dict[str, Any]:
        shape = rnd.choices(["plain", "tags", "multi", "exc", "result"], [50, 20, 10, 10, 10])[0]
        return log(rnd.choices(["child", "gallia", "other"], [5, 3, 2])[0], rnd.randint(2, 8), shape,
                   long=rnd.random() < 0.15, via=rnd.choice(["method", "log"]))

    if rnd.random() < 0.1:      # the "undefined state" before setup_logging
        ev += [a_log() for _ in range(rnd.randint(1, 2))]
    ev.append(a_setup())
    for _ in range(rnd.randint(5, 22)):
        k = rnd.random()
        if k < 0.58:
            ev.append(a_log())
        elif k < 0.68:
            ev.append(a_setup())
        elif k < 0.84:
            f = rnd.choice([1, 2])
            if f in open_:
                open_.discard(f)
                ev.append(rm(f))
            else:
                open_.add(f)
                ev.append(add(f, rnd.randint(2, 8)))
        else:
            ev.append(a_log())
    return run("random", ev)


def randoms(seed: int, n: int) -> list[dict[str, Any]]:
    rnd = random.Random(f"x19-{seed}")
    return [random_session(rnd) for _ in range(n)]


# ------------------------------------------------------------------ hr
HR_RECS = [{"prio": p, "shape": "plain"} for p in range(8, 1, -1)] + [
    {"prio": 4, "shape": "tags"}, {"prio": 6, "shape": "multi"}, {"prio": 3, "shape": "exc"},
    {"prio": 7, "shape": "tags"}, {"prio": 5, "shape": "plain", "tags_null": True}]


def hr_case(mode: str, tty: bool, etty: bool, nocolor: bool, prefix: str, source: str,
            extra: list[dict[str, Any]] | None = None) -> dict[str, Any]:
    recs = [dict(r, pylevel=(source == "synth")) for r in HR_RECS + (extra or [])]
    return {"kind": "hr", "origin": "hr", "mode": mode, "tty": tty, "etty": etty, "nocolor": nocolor,
            "prefix": prefix, "source": "writer" if source == "writer" else "synth", "variant": source, "recs": recs}


def hrs() -> list[dict[str, Any]]:
    out = []
    for mode, tty, etty, nocolor, prefix, source in itertools.product(
            MODES, (False, True), (False, True), (False, True), ("all", "none", "mixed"),
            ("synth", "synth-nolevel", "writer")):
        out.append(hr_case(mode, tty, etty, nocolor, prefix, source))
    # records of the two RFC 3164 severities gallia itself never writes (foreign penlog producers)
    for mode, prefix in itertools.product(MODES, ("all", "none")):
        c = hr_case(mode, True, True, False, prefix, "synth-nolevel",
                    extra=[{"prio": 1, "shape": "plain"}, {"prio": 0, "shape": "tags"}])
        c["origin"] = "hr-foreign-severity"
        out.append(c)
    return out


# ------------------------------------------------------------------ pairs
def pairs() -> list[dict[str, Any]]:
    out = []

    def pal(node: str, mode: str, tty: bool, nocolor: bool, vol: bool) -> dict[str, Any]:
        return dict(run("pair-side", palette_events(node, mode, tty, nocolor, vol)), cn=424242)

    for node, vol in itertools.product(("root", "gallia"), (False, True)):
        out.append({"kind": "pair", "what": "always_tty", "A": pal(node, "always", True, False, vol),
                    "B": pal(node, "always", False, False, vol)})
    for node in ("root", "gallia"):
        out.append({"kind": "pair", "what": "always_nocolor", "A": pal(node, "always", True, False, False),
                    "B": pal(node, "always", True, True, False)})
        out.append({"kind": "pair", "what": "strip", "strip": True, "A": pal(node, "always", True, False, False),
                    "B": pal(node, "never", True, False, False)})
        out.append({"kind": "pair", "what": "strip", "strip": True, "A": pal(node, "auto", True, False, False),
                    "B": pal(node, "never", False, False, False)})
    for mode, tty, source in itertools.product(MODES, (False, True), ("synth", "writer")):
        a = dict(hr_case(mode, tty, True, False, "all", source), cn=77)
        b = dict(hr_case(mode, tty, False, False, "all", source), cn=77)
        out.append({"kind": "pair", "what": "hr_stderr", "A": a, "B": b})
    for mode, source in itertools.product(("never", "always"), ("synth", "writer")):
        a = dict(hr_case(mode, True, True, False, "all", source), cn=78)
        b = dict(hr_case(mode, True, True, False, "none", source), cn=78)
        out.append({"kind": "pair", "what": "hr_prefix", "A": a, "B": b})
    for source in ("synth", "writer"):
        a = dict(hr_case("always", True, True, False, "all", source), cn=79)
        b = dict(hr_case("never", True, True, False, "all", source), cn=79)
        out.append({"kind": "pair", "what": "strip", "strip": True, "A": a, "B": b})
    return out


def build(tier: str, seed: int) -> list[dict[str, Any]]:
    cases = tables() + palettes() + thresholds() + env_levels() + hrs() + pairs()
    cases += lifecycles(3 if tier == "quick" else 5)
    cases += randoms(seed, 400 if tier == "quick" else 6000)
    for i, c in enumerate(cases):
        c.setdefault("cn", i)
    return cases
