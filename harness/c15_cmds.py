"""C15 test commands: one subclass each of AsyncScript, Scanner and UDSScanner whose
setup/main/teardown inject the failure named by the case (spec/MC_RunLifecycle.tla).

The classes live in an importable module on purpose: META.json / run_meta store
`command = "<module>.<class>"` and the property demands that the run can be
re-created from that (gallia/commands/script/rerun.py does importlib + getattr).

Side channel (not part of gallia): PHASES collects the phases the command actually
entered; every phase entry also logs a marker record through gallia's logger so
that the harness can demand it back from log.json.zst.
"""

from __future__ import annotations

import asyncio
import json
import os
import sys
from typing import Any

from gallia.command.base import AsyncScript, AsyncScriptConfig, Scanner, ScannerConfig
from gallia.command.config import Field
from gallia.command.uds import UDSScanner, UDSScannerConfig
from gallia.log import get_logger
from gallia.services.uds.core.exception import UDSException
from gallia.services.uds.core.service import TesterPresentRequest

logger = get_logger("gallia.verif.c15")

MARKER = "C15-MARKER "
PHASES: list[str] = []
SIGINT_NEVER_ARRIVED = 97


def _spec(cmd: Any) -> dict[str, Any]:
    raw = cmd.config.inject
    return json.loads(raw) if raw else {}


def enter(cmd: Any, phase: str) -> None:
    PHASES.append(phase)
    logger.warning(f"{MARKER}{phase}")  # well above any plausible file log level


async def inject(cmd: Any, point: str, where: str = "pre") -> None:
    """Raise / exit / wait for SIGINT if the case puts its failure here."""
    sp = _spec(cmd)
    if not sp:
        return
    if point == "Main" and sp["point"] == "DbClose" and sp["how"] == "DbFails":
        # make the final UPDATE of run_meta fail (the test command's own doing)
        h = cmd.db_handler
        if h is not None and h.connection is not None:
            await h.connection.execute(
                "CREATE TRIGGER c15_block BEFORE UPDATE ON run_meta "
                "BEGIN SELECT RAISE(ABORT, 'injected by C15'); END")
            await h.connection.commit()
        return
    if sp["point"] != point or sp.get("where", "pre") != where:
        return
    how = sp["how"]
    if how == "SysExit":
        sys.exit(int(sp["n"]))
    if how == "ExpConn":
        raise ConnectionError("injected by C15")
    if how == "ExpUds":
        raise UDSException(TesterPresentRequest(suppress_response=False), "injected by C15")
    if how == "Unexpected":
        if sp.get("flavour") == "chained":
            # an unexpected exception raised while an expected one is being handled / chained to it explicitly:
            # still an unexpected exception
            try:
                raise ConnectionError("handled by the command itself")
            except ConnectionError as e:
                if int(sp.get("n", 0)) % 2:
                    raise RuntimeError("injected by C15") from e
                raise RuntimeError("injected by C15 (while handling)")  # noqa: B904
        raise RuntimeError("injected by C15")
    if how == "KbdInt":
        raise KeyboardInterrupt
    if how == "CtrlC":
        # tell the parent we are at the phase, then wait for the real SIGINT
        fd = os.open(sp["sync"], os.O_WRONLY)
        os.write(fd, b"ready\n")
        os.close(fd)
        # The SIGINT normally ends this wait.  Code that shields the phase from the interrupt lets it run to
        # its end: then the phase simply completes and the run is judged on what it leaves behind.
        await asyncio.sleep(3)
        return


class ScriptCfg(AsyncScriptConfig):
    inject: str = Field("", description="C15 failure injection (JSON)")


class ScannerCfg(ScannerConfig):
    inject: str = Field("", description="C15 failure injection (JSON)")


class UDSScannerCfg(UDSScannerConfig):
    inject: str = Field("", description="C15 failure injection (JSON)")


class InnerScript(AsyncScript):
    """A second command run from within main() of the judged one (what `gallia script rerun` does): it has its own
    artifacts directory and its own compressed log while the outer command's log is still open."""

    CONFIG_TYPE = AsyncScriptConfig

    async def main(self) -> None:
        for i in range(25):
            logger.info(f"inner command line {i}")
            await asyncio.sleep(0)


async def run_nested(cmd: Any) -> None:
    sp = _spec(cmd)
    if sp.get("nested"):
        from pathlib import Path

        for i in range(10):
            logger.info(f"outer command line {i} before the inner command")
        inner = InnerScript(AsyncScriptConfig(artifacts_base=Path(sp["nested"]), hooks=False))
        rc = await inner.entry_point()
        logger.info(f"inner command ended with {rc}")


class C15Script(AsyncScript):
    CONFIG_TYPE = ScriptCfg

    async def setup(self) -> None:
        enter(self, "setup")
        await inject(self, "Setup")

    async def main(self) -> None:
        enter(self, "main")
        await run_nested(self)
        await inject(self, "Main")

    async def teardown(self) -> None:
        enter(self, "teardown")
        await inject(self, "Teardown")


class _ScannerPhases:
    """setup/teardown wrap the base class' part: `where` = pre | post."""

    async def setup(self) -> None:
        enter(self, "setup")
        await inject(self, "Setup", "pre")
        await super().setup()  # type: ignore[misc]
        await inject(self, "Setup", "post")

    async def teardown(self) -> None:
        enter(self, "teardown")
        sp = _spec(self)
        if (sp.get("flavour") == "inner-double" and sp.get("point") == "Teardown" and hasattr(self, "ecu")
                and sp.get("how") in ("ExpConn", "ExpUds")):
            # the ECU is gone when the run ends: BOTH the final read of the properties and closing the transport
            # fail inside the base class's teardown (two expected errors, still an expected error)
            async def lost_props(*_a: Any, **_k: Any) -> Any:
                if sp["how"] == "ExpUds":
                    raise UDSException(TesterPresentRequest(suppress_response=False), "injected by C15")
                raise ConnectionResetError("injected by C15: connection lost")

            async def lost_close(*_a: Any, **_k: Any) -> None:
                raise ConnectionResetError("injected by C15: connection lost")

            self.ecu.properties = lost_props  # type: ignore[attr-defined,method-assign]
            self.ecu.transport.close = lost_close  # type: ignore[attr-defined,method-assign]
            await super().teardown()  # type: ignore[misc]
            return
        await inject(self, "Teardown", "pre")
        await super().teardown()  # type: ignore[misc]
        await inject(self, "Teardown", "post")


class C15Scanner(_ScannerPhases, Scanner):
    CONFIG_TYPE = ScannerCfg

    async def main(self) -> None:
        enter(self, "main")
        await inject(self, "Main")


class C15UDSScanner(_ScannerPhases, UDSScanner):
    CONFIG_TYPE = UDSScannerCfg

    async def main(self) -> None:
        enter(self, "main")
        for _ in range(int(_spec(self).get("pings", 1))):
            await self.ecu.ping()
        await inject(self, "Main")


CLASSES = {"Script": C15Script, "Scanner": C15Scanner, "UDSScanner": C15UDSScanner}
