"""C20, URI half: concretisation of the abstract cases TLC enumerates
(spec/TargetUri.tla) and drivers for the real code path

  TargetURI.from_parts -> str -> TargetURI -> scheme / hostname / port / qs_flat /
  location -> DoIPConfig | HSFZConfig | ISOTPConfig(**qs_flat)
  net.split_host_port(net.join_host_port(h, p)),  net.split_host_port("h:p")

Nothing is judged here; the recorded cases go to TLC (Trace_TargetUri).
"""

from __future__ import annotations

import random
from typing import Any

from gallia.net import join_host_port, split_host_port
from gallia.transports.base import TargetURI
from gallia.transports.doip import DoIPConfig
from gallia.transports.hsfz import HSFZConfig
from gallia.transports.isotp import ISOTPConfig

from harness.c20_ranges import digits_of
from harness.common import Machinery

NOPORT = -1

# concrete hosts per class of the design layer (MC_TargetUri.MCHostClasses)
HOSTS: dict[str, list[str]] = {
    "dns": ["ecu1", "localhost", "can0", "vcan0", "a-b.example.org", "ECU.Local", "x"],
    "v4": ["10.0.0.9", "127.0.0.1", "192.168.10.255", "0.0.0.0"],
    "v6full": ["fe80:0:0:0:0:0:0:1", "2001:0db8:0000:0000:0000:ff00:0042:8329", "FE80:0:0:0:0:0:0:AB",
               "0:0:0:0:0:0:0:0"],
    "v6c": ["fe80::1", "::1", "::", "2001:db8::ff00:42:8329", "1::", "fec2::10", "2001:DB8::A"],
    "v6z": ["fe80::1%e0", "fe80::1%eth0"],
}

CONFIGS = {"doip": DoIPConfig, "hsfz": HSFZConfig, "isotp": ISOTPConfig}

# Settings in the order of TargetUri!Fields(tr); class = how the discovery
# scanners write the setting: "addr" in hex (discover/hsfz.py `{src_addr:#02x}`,
# discover/uds/isotp.py `hex(ID)`, discover/doip.py `{..:#x}`), "dec" in decimal
# (ack_timeout, padding, protocol_version), "bool" as true/false.
FIELDS: dict[str, list[tuple[str, str]]] = {
    "doip": [("src_addr", "addr"), ("target_addr", "addr"), ("activation_type", "addr"), ("protocol_version", "dec")],
    "hsfz": [("src_addr", "addr"), ("dst_addr", "addr"), ("ack_timeout", "dec")],
    "isotp": [("src_addr", "addr"), ("dst_addr", "addr"), ("is_extended", "bool"), ("is_fd", "bool"),
              ("frame_txtime", "dec"), ("ext_address", "addr"), ("rx_ext_address", "addr"),
              ("tx_padding", "dec"), ("rx_padding", "dec"), ("tx_dl", "dec")],
}
ADDR_VALUES = [0, 1, 0x10, 0xF4, 0xE00, 0x7FF, 0xFFFF, 0x18DA00F1, 0x7DF, 0xAB]
DEC_VALUES = [0, 1, 3, 10, 64, 170, 1000, 65535]


def check_field_tables() -> None:
    """a setting added to a Config class must not silently escape the check"""
    for tr, cls in CONFIGS.items():
        have = set(cls.model_fields)
        want = {n for n, _ in FIELDS[tr]}
        if have != want:
            raise Machinery(f"{cls.__name__} settings {sorted(have)} differ from the harness table {sorted(want)}: "
                            "extend FIELDS in harness/c20_uri.py and Fields(tr) in spec/TargetUri.tla")


def required(tr: str) -> set[str]:
    return {n for n, f in CONFIGS[tr].model_fields.items() if f.is_required()}


def codes(s: str | None) -> list[int]:
    return [] if s is None else [ord(c) if ord(c) < (1 << 20) else 0 for c in s]


def port_out(p: Any) -> int:
    if p is None:
        return NOPORT
    if type(p) is int and 0 <= p < (1 << 30):
        return p
    return -2  # not a port at all


_RADIX = {"dec": 10, "hex": 16, "oct": 8, "bin": 2}
_MIX = (10, 16, 8, 2)
_PFX = {10: "", 16: "0x", 8: "0o", 2: "0b"}
_DIG = "0123456789abcdef"


def radix_for(nota: str, i: int, cls: str) -> int:
    if nota == "scanner":
        return 16 if cls == "addr" else 10
    if nota == "mixed":
        return _MIX[i % 4]
    return _RADIX[nota]


def make_settings(tr: str, idx: list[int], nota: str, rnd: random.Random) -> tuple[list[dict[str, Any]], dict[str, Any]]:
    """-> (settings as the contract reads them, args for from_parts)"""
    settings = []
    args: dict[str, Any] = {}
    for i in idx:  # 1-based index into FIELDS[tr], as in the spec
        name, cls = FIELDS[tr][i - 1]
        if cls == "bool":
            b = rnd.random() < 0.5
            settings.append({"k": name, "kind": "bool", "r": 0, "ds": [], "b": b, "must": True})
            args[name] = "true" if b else "false"
            continue
        v = rnd.choice(ADDR_VALUES if cls == "addr" else DEC_VALUES)
        if rnd.random() < 0.3:
            v = rnd.randint(0, 0xFFFF if cls == "dec" else 0x1FFFFFFF)
        r = radix_for(nota, i, cls)
        ds = digits_of(v, r)
        if r == 16 and nota == "scanner" and len(ds) < 2 and rnd.random() < 0.5:
            ds = [0] + ds  # the `#04x` style of some scanners
        text = _PFX[r] + "".join(_DIG[d] for d in ds)
        settings.append({"k": name, "kind": "int", "r": r, "ds": ds, "b": False,
                         "must": cls == "addr" or r == 10})
        # discover/hsfz.py hands ack_timeout over as an int object
        args[name] = v if (nota == "scanner" and cls == "dec" and rnd.random() < 0.5) else text
    return settings, args


def run_uri(tr: str, host: str, port: int, settings: list[dict[str, Any]], args: dict[str, Any],
            from_parts: Any = None) -> dict[str, Any]:
    """one recorded execution of the URI round trip"""
    fp = from_parts or TargetURI.from_parts
    case: dict[str, Any] = {
        "kind": "uri", "scheme": tr, "host": codes(host), "port": port,
        "params": [{"k": k, "s": str(v)} for k, v in args.items()],
        "settings": settings, "complete": required(tr) <= set(args), "cfg": {"t": "err"},
        "text": {"host": host, "args": {k: v for k, v in args.items()}},
    }
    try:
        raw = str(fp(tr, host, None if port == NOPORT else port, dict(args)))
    except Exception as e:  # noqa: BLE001
        case["got"] = {"t": "err", "stage": "build"}
        case["text"]["exc"] = repr(e)[:120]
        return case
    case["text"]["uri"] = raw
    try:
        u = TargetURI(raw)
        loc = TargetURI(u.location)
        qf = u.qs_flat
        got = {"t": "ok", "scheme": str(u.scheme.value), "host": codes(u.hostname), "port": port_out(u.port),
               "params": [{"k": k, "s": v} for k, v in qf.items()],
               "lhost": codes(loc.hostname), "lport": port_out(loc.port)}
    except Exception as e:  # noqa: BLE001
        case["got"] = {"t": "err", "stage": "parse"}
        case["text"]["exc"] = repr(e)[:120]
        return case
    case["got"] = got
    try:
        c = CONFIGS[tr](**qf)
        vals = []
        for n in type(c).model_fields:
            v = getattr(c, n)
            if isinstance(v, bool):
                vals.append({"k": n, "v": 1 if v else 0})
            elif isinstance(v, int) and 0 <= int(v) < (1 << 31):
                vals.append({"k": n, "v": int(v)})
        case["cfg"] = {"t": "ok", "vals": vals}
    except Exception as e:  # noqa: BLE001
        case["cfg"] = {"t": "err"}
        case["text"]["cfg_exc"] = type(e).__name__
    return case


def written(host: str, port: int) -> str:
    """the text a user writes for host and port (independent of join_host_port)"""
    if port == NOPORT:
        return host
    return f"[{host}]:{port}" if ":" in host else f"{host}:{port}"


def run_hp(mode: str, host: str, port: int, dflt: int, join: Any = None, split: Any = None) -> dict[str, Any]:
    j = join or join_host_port
    s = split or split_host_port
    d = None if dflt == NOPORT else dflt
    try:
        if mode == "hp":
            text = j(host, port)
        elif mode == "splitb":      # an IPv6 host is written in brackets also when no port follows: "[::1]"
            text = f"[{host}]" if (":" in host and port == NOPORT) else written(host, port)
        elif mode == "netloc":      # the netloc of a target URI built from the parts (what dumpcap's filter splits)
            from gallia.transports import TargetURI
            text = TargetURI.from_parts("doip", host, None if port == NOPORT else port, {}).netloc
        else:
            text = written(host, port)
        h, p = s(text, d) if d is not None else s(text)
        got = {"t": "ok", "host": codes(h if isinstance(h, str) else None), "port": port_out(p)}
    except Exception:  # noqa: BLE001
        got = {"t": "err"}
    return {"kind": "split" if mode in ("splitb", "netloc") else mode, "host": codes(host), "port": port, "dflt": dflt,
            "got": got, "text": {"host": host, "spelling": mode}}


def run_hpx(mode: str, host: str, ports: list[int], dflt: int, join: Any = None, split: Any = None) -> dict[str, Any]:
    """many ports for one host, column form"""
    hosts: list[list[int]] = []
    index: dict[str, int] = {}
    hi, gp, ge = [], [], []
    for p in ports:
        c = run_hp(mode, host, p, dflt, join, split)
        g = c["got"]
        if g["t"] != "ok":
            hi.append(1); gp.append(0); ge.append(1)
            continue
        key = ",".join(map(str, g["host"]))
        if key not in index:
            hosts.append(g["host"])
            index[key] = len(hosts)
        hi.append(index[key]); gp.append(g["port"]); ge.append(0)
    if not hosts:
        hosts.append([])
    return {"kind": "hpx", "mode": mode, "host": codes(host), "dflt": dflt, "ports": ports,
            "hosts": hosts, "hi": hi, "gp": gp, "ge": ge, "text": {"host": host}}


def host_class(host: str) -> str:
    for k, v in HOSTS.items():
        if host in v:
            return k
    return "v6" if ":" in host else "name"


def port_class(p: int) -> str:
    return "none" if p == NOPORT else "zero" if p == 0 else "nonzero"


# ----------------------------------------------------------------------------
# the exact argument shapes the discovery scanners emit


def scanner_shapes(rnd: random.Random, n: int) -> list[tuple[str, str, int, list[dict[str, Any]], dict[str, Any]]]:
    out = []
    allhosts = [h for hs in HOSTS.values() for h in hs]
    for _ in range(n):
        # commands/discover/hsfz.py: probe()
        src, dst, ack = rnd.choice([0xF4, 0xF5, 1]), rnd.randint(0, 0xFF), rnd.choice([1.0, 2.0, 0.5])
        host, port = rnd.choice(allhosts), rnd.choice([6801, 1, 65535, 0])
        args = {"src_addr": f"{src:#02x}", "dst_addr": f"{dst:#02x}", "ack_timeout": int(ack) * 1000}
        st = [_int_setting("src_addr", 16, args["src_addr"][2:]), _int_setting("dst_addr", 16, args["dst_addr"][2:]),
              _int_setting("ack_timeout", 10, str(args["ack_timeout"]))]
        out.append(("hsfz", host, port, st, args))
        # commands/discover/uds/isotp.py: main()
        ID, addr, tester = rnd.randint(0, 0x7FF), rnd.randint(0, 0x7FF), rnd.choice([0x6F1, 0x7E0])
        a: dict[str, Any] = {"is_fd": str(rnd.random() < 0.5).lower(), "is_extended": str(rnd.random() < 0.5).lower()}
        if rnd.random() < 0.5:
            a["ext_address"] = hex(ID & 0xFF)
            a["rx_ext_address"] = hex(tester & 0xFF)
            a["src_addr"] = hex(tester)
            a["dst_addr"] = hex(addr)
        else:
            a["src_addr"] = hex(ID)
            a["dst_addr"] = hex(addr)
        if rnd.random() < 0.5:
            pad = rnd.choice([0xAA, 0x55, 0])
            a["tx_padding"] = f"{pad}"
            a["rx_padding"] = f"{pad}"
        st = []
        for k, v in a.items():
            if v in ("true", "false"):
                st.append({"k": k, "kind": "bool", "r": 0, "ds": [], "b": v == "true", "must": True})
            elif v.startswith("0x"):
                st.append(_int_setting(k, 16, v[2:]))
            else:
                st.append(_int_setting(k, 10, v))
        out.append(("isotp", rnd.choice(["can0", "vcan0", "slcan1"]), NOPORT, st, a))
        # commands/discover/doip.py writes the same keys into an f-string; through from_parts here
        pv, rat, sa, ta = rnd.choice([2, 3]), rnd.choice([0, 1, 0xE0]), rnd.choice([0xE00, 0xEF0]), rnd.randint(0, 0xFFFF)
        a = {"protocol_version": pv, "activation_type": f"{rat:#x}", "src_addr": f"{sa:#x}", "target_addr": f"{ta:#x}"}
        st = [_int_setting("protocol_version", 10, str(pv)), _int_setting("activation_type", 16, f"{rat:x}"),
              _int_setting("src_addr", 16, f"{sa:x}"), _int_setting("target_addr", 16, f"{ta:x}")]
        out.append(("doip", rnd.choice(allhosts), rnd.choice([13400, NOPORT, 0]), st, a))
    return out


def _int_setting(k: str, r: int, body: str) -> dict[str, Any]:
    return {"k": k, "kind": "int", "r": r, "ds": [int(c, 16) for c in body], "b": False, "must": True}


# ----------------------------------------------------------------------------
# mutants (binding self-test)


def mutant_join_no_brackets(host: str, port: int) -> str:
    return f"{host}:{port}"


def mutant_split_first_colon(hostport: str, default_port: int | None = None) -> tuple[str, int | None]:
    h, _, p = hostport.partition(":")
    return h, int(p) if p else default_port
