"""X20: renders abstract cases (spec/ArgFieldsContract.tla vocabulary) into argument vectors, runs the REAL gallia
argument parser on the harness's synthetic config models and records what happened.  Nothing here judges the property.

Two ways into the real code:
  via "direct"  gallia.pydantic_argparse.ArgumentParser(model=<synthetic model>, extra_defaults=...) -- a fresh parser
                per case, exactly what gallia builds per invocation
  via "gallia"  gallia.cli.gallia.create_parser(<command class | command tree>) in the clean environment of
                harness.c18_lib.Sandbox (GALLIA_CONFIG -> a temporary gallia.toml): the dynamic per-command sub-models,
                the sub-parser tree and the config-file defaults are gallia's own
"""

from __future__ import annotations

import contextlib
import io
import os
import re
import sys
from typing import Any

import gallia.command  # noqa: F401
from gallia.cli import gallia as gcli
from gallia.command.base import BaseCommand
from gallia.command.config import GalliaBaseModel
from gallia.config import Config
from gallia.pydantic_argparse import ArgumentParser

from harness import c18_lib as L
from harness import x20_models as X
from harness.common import Machinery

UNKNOWN_OPTION = "--x20-no-such-option"


# --------------------------------------------------------------------------- stand-in commands for the gallia path
class _Cmd(BaseCommand):
    SHORT_HELP = "x20 synthetic command"

    def run(self) -> int:  # never executed
        return 0


class CmdAll(_Cmd):
    CONFIG_TYPE = X.MAll


class CmdReq(_Cmd):
    CONFIG_TYPE = X.MReq


class CmdGrp(_Cmd):
    CONFIG_TYPE = X.MGrp


class CmdPct(_Cmd):
    CONFIG_TYPE = X.MPct


class CmdAlpha(_Cmd):
    CONFIG_TYPE = X.SubAlpha


class CmdBeta(_Cmd):
    CONFIG_TYPE = X.SubBeta
    SHORT_HELP = "the beta command (slower by 50%)"


TARGETS: dict[str, Any] = {"all": CmdAll, "req": CmdReq, "grp": CmdGrp, "pct": CmdPct,
                           "alpha": {"alpha": CmdAlpha, "beta": CmdBeta}, "beta": {"alpha": CmdAlpha, "beta": CmdBeta},
                           "top": {"alpha": CmdAlpha, "beta": CmdBeta}}
CONFIG_CLASS: dict[str, type[GalliaBaseModel]] = {"all": X.MAll, "req": X.MReq, "grp": X.MGrp, "pct": X.MPct,
                                                  "alpha": X.SubAlpha, "beta": X.SubBeta}


# --------------------------------------------------------------------------- rendering
def render_item(m: str, it: dict[str, Any]) -> list[str]:
    xs = [t["x"] for t in it["toks"]]
    form = it["form"]
    if it["f"] == "":
        if form == "unknown":
            return [UNKNOWN_OPTION, *xs]
        if form == "stray":
            return xs
        if form == "sep":
            return ["--"]
        raise Machinery(f"x20: item form {form}")
    fd = X.fd_of(m, it["f"])
    if form == "pos":
        return xs
    if form == "long":
        return [fd.long, *xs]
    if form == "eq":
        return [fd.long + "=" + xs[0], *xs[1:]]
    if form == "short":
        return ["-" + fd.short, *xs]
    if form == "shortj":
        return ["-" + fd.short + xs[0], *xs[1:]]
    if form == "neg":
        return [fd.neg, *xs]
    if form == "abbr":
        a = X.abbreviation(fd)
        if not a:
            raise Machinery(f"x20: no abbreviation for {m}.{fd.name}")
        return [a, *xs]
    raise Machinery(f"x20: item form {form}")


def render(m: str, items: list[dict[str, Any]]) -> list[str]:
    argv = list(X.PREFIX[m])
    for it in items:
        argv += render_item(m, it)
    return argv


# --------------------------------------------------------------------------- running
class Box(L.Sandbox):
    """harness.c18_lib.Sandbox plus a variant of parse() that also keeps stdout and the exit status"""

    def run(self, target: Any, argv: list[str], toml: str = "") -> dict[str, Any]:
        saved = dict(os.environ)
        saved_argv = sys.argv
        err, out = io.StringIO(), io.StringIO()
        try:
            for k in list(os.environ):
                if k.startswith("GALLIA_"):
                    del os.environ[k]
            with open(self.toml, "w") as f:
                f.write(toml)
            os.environ["GALLIA_CONFIG"] = self.toml
            sys.argv = ["gallia"]
            return _guard(lambda: gcli.create_parser(target).parse_typed_args(list(argv))[1], out, err)
        finally:
            sys.argv = saved_argv
            os.environ.clear()
            os.environ.update(saved)


def _guard(fn: Any, out: io.StringIO, err: io.StringIO) -> dict[str, Any]:
    try:
        with contextlib.redirect_stderr(err), contextlib.redirect_stdout(out):
            cfg = fn()
        return {"res": "ok", "code": 0, "cfg": cfg, "out": out.getvalue(), "err": err.getvalue(), "exc": ""}
    except SystemExit as e:
        c = e.code
        code = 0 if c is None else (c if isinstance(c, int) else 1)
        return {"res": "exit", "code": code, "cfg": None, "out": out.getvalue(), "err": err.getvalue(), "exc": ""}
    except BaseException as e:  # noqa: BLE001
        return {"res": "raise", "code": -1, "cfg": None, "out": out.getvalue(), "err": err.getvalue(),
                "exc": f"{type(e).__name__}: {e}"[:300]}


def run_direct(m: str, argv: list[str], extra: dict[str, Any] | None = None) -> dict[str, Any]:
    model = X.MODELS[m]
    ed: dict[type, dict[str, tuple[str, Any]]] = {}
    if extra:
        ed[CONFIG_CLASS[m]] = dict(extra)
    return _guard(lambda: ArgumentParser(model=model, extra_defaults=ed).parse_typed_args(list(argv))[1],
                  io.StringIO(), io.StringIO())


def _value_of(cfg: Any, fd: X.FD) -> Any:
    o = cfg
    for step in fd.path:
        o = getattr(o, step)
    return getattr(o, fd.name)


def _mentions(m: str, text: str) -> list[str]:
    msg = L.error_message(text)
    out = []
    for fd in X.FIELDS[m]:
        if fd.pos:
            hit = re.search(r"(?<![\w-])" + re.escape(fd.name) + r"(?![\w-])", msg, re.I) is not None
        else:  # any recognisable way of naming the argument: its option strings, its attribute name, the dashed name
            ways = [*fd.names(), fd.name, fd.name.replace("_", "-")]
            hit = any(re.search(r"(?<![\w-])" + re.escape(n) + r"(?![\w-])", msg) for n in ways)
        if hit:
            out.append(fd.name)
    return out


def outcome(m: str, r: dict[str, Any]) -> dict[str, Any]:
    """projection of one run onto the contract's vocabulary"""
    o: dict[str, Any] = {"res": r["res"], "code": r["code"], "vals": [], "mention": []}
    if r["res"] == "ok":
        for fd in X.FIELDS[m]:
            v = X.canon(_value_of(r["cfg"], fd))
            if fd.req or v != X.canon(fd.dflt):
                o["vals"].append({"f": fd.name, "v": v})
    elif r["res"] == "exit":
        o["mention"] = _mentions(m, r["err"])
    return o


def parse_record(case: dict[str, Any], via: str, box: Box | None = None) -> dict[str, Any]:
    m = case["m"]
    argv = render(m, case["items"])
    r = run_direct(m, argv) if via == "direct" else box.run(TARGETS[m], argv)  # type: ignore[union-attr]
    return {"kind": "parse", "m": m, "items": case["items"], "sep": bool(case.get("sep")), "inter": bool(case.get("inter")),
            "out": outcome(m, r), "argv": argv, "via": via, "exc": r["exc"], "err": L.error_message(r["err"])[-400:],
            "design": case.get("design"), "src": case.get("src", "")}


# --------------------------------------------------------------------------- help
_ENTRY = re.compile(r"^  (\S.*)$")
_HEAD = re.compile(r"^(\S.*):$")
_OPT = re.compile(r"(?<![\w-])(--?[A-Za-z][\w-]*)")


def help_entries(text: str) -> list[dict[str, Any]]:
    """the listing part of an argparse help text: [{heading, invocation, text}]"""
    out: list[dict[str, Any]] = []
    heading = ""
    cur: dict[str, Any] | None = None
    for ln in text.split("\n"):
        h = _HEAD.match(ln)
        if h and not ln.startswith("usage:"):
            heading = h.group(1)
            cur = None
            continue
        e = _ENTRY.match(ln)
        if e and heading:
            parts = re.split(r"\s{2,}", e.group(1).strip(), maxsplit=1)
            cur = {"heading": heading, "invocation": parts[0], "text": parts[1] if len(parts) > 1 else ""}
            out.append(cur)
        elif cur is not None and ln.startswith("    ") and ln.strip():
            cur["text"] = (cur["text"] + " " + ln.strip()).strip()
        elif not ln.strip():
            cur = None
    return out


def help_record(m: str, via: str, ext: bool, box: Box | None = None) -> dict[str, Any]:
    argv = [*X.PREFIX[m], "--help"]
    if via == "direct":
        r = run_direct(m, argv, {"target": X.EXT_TARGET} if ext else None)
    else:
        toml = f'[x20.all]\ntarget = "{X.EXT_TARGET[1]}"\n' if ext else ""
        r = box.run(TARGETS[m], argv, toml)  # type: ignore[union-attr]
    ents = help_entries(r["out"]) if r["res"] == "exit" else []
    entries = []
    for fd in X.FIELDS[m]:
        if fd.pos:
            mine = [e for e in ents if e["invocation"].split()[0].lower() == fd.name.lower()]
        else:
            mine = [e for e in ents if fd.long in _OPT.findall(e["invocation"])]
        e0 = mine[0] if mine else {"heading": "", "invocation": "", "text": ""}
        txt = " ".join(e0["text"].split())
        d = re.search(r"[(\[]defaults?(?: to|:|=)?\s*(.*)[)\]]$", txt, re.I)  # "(default: X)" today; the wording is not the subject
        dflt = d.group(1) if d else ""
        if d and ext and "; " in dflt:
            dflt = dflt.split("; ", 1)[0]
        entries.append({"n": len(mine), "names": _OPT.findall(e0["invocation"]), "desc": bool(fd.desc) and fd.desc in txt,
                        "hasdflt": d is not None, "dflt": dflt, "heading": e0["heading"],
                        "mv": bool(fd.mv) and fd.mv in e0["invocation"]})
    return {"kind": "help", "m": m, "h": {"res": r["res"], "code": r["code"], "entries": entries}, "argv": argv, "via": via,
            "ext": ext, "exc": r["exc"], "text": r["out"][-1500:] if r["res"] != "exit" or r["code"] else ""}


# --------------------------------------------------------------------------- config sections
def config_record(m: str) -> dict[str, Any]:
    """which key of a configuration file reaches which field (attributes_from_config), which key is registered for
    `gallia --template` (GalliaBaseModel.registry()), and -- for hidden fields -- whether a file value arrives in the
    parsed model"""
    cls = CONFIG_CLASS[m]
    fds = X.FIELDS[m]
    tree: dict[str, Any] = {}
    cand: dict[str, dict[int, str]] = {}
    keys: dict[str, dict[str, str]] = {}

    def put(key: str, value: int) -> None:
        node = tree
        parts = key.split(".")
        for p in parts[:-1]:
            node = node.setdefault(p, {})
        node[parts[-1]] = value

    n = 1000
    for fd in fds:
        cand[fd.name] = {}
        keys[fd.name] = {}
        for label, sec in (("field", fd.fsec), ("class", fd.csec)):
            if sec == "-":
                continue
            key = f"{sec}.{fd.name}" if sec else fd.name
            n += 1
            put(key, n)
            cand[fd.name][n] = label
            keys[fd.name][key] = label
    got = cls.attributes_from_config(Config(tree))
    reg = GalliaBaseModel.registry()
    obs = []
    for fd in fds:
        picked = "-"
        if fd.name in got:
            picked = cand[fd.name].get(got[fd.name][1], "other")
        inreg = "-"
        for key, label in keys[fd.name].items():
            if key in reg:
                inreg = label if inreg == "-" else "other"
        applied = "-"
        if fd.hidden and fd.name in got:
            r = run_direct(m, [*X.PREFIX[m]], {fd.name: got[fd.name]})
            if r["res"] == "ok" and X.canon(_value_of(r["cfg"], fd)) != X.canon(fd.dflt):
                applied = picked
        obs.append({"picked": applied if fd.hidden else picked, "inreg": inreg})
    return {"kind": "config", "m": m, "obs": obs, "offered": sorted(got), "via": "direct"}
