"""X11 case families (pure data; see harness/x11_flows.py for the drivers and the ECU model keys)."""

from __future__ import annotations

import itertools
import random
from typing import Any

from harness.x11_flows import BOOK_SYMBOLS

GRAPHS: dict[str, dict[str, list[int]]] = {
    "all": {str(s): [1, 2, 3, 4] for s in (1, 2, 3, 4)},
    "chain": {"1": [1, 2], "2": [1, 2, 3], "3": [1, 3, 4], "4": [1, 4]},
    "none": {str(s): [1] for s in (1, 2, 3, 4)},
    "star": {"1": [1, 2, 3, 4], "2": [1, 2], "3": [1, 3], "4": [1, 4]},
}


def _row(target: str, run: str, dest: int, steps: list[int]) -> dict[str, Any]:
    return {"target": target, "run": run, "dest": dest, "steps": steps}


def db_variants(level: int) -> dict[str, list[dict[str, Any]]]:
    """Rows as the session scan writes them: insert_session_transition(session, stack) with the stack of sessions to
    enter BEFORE `session` ("Found session: X via stack: [...]")."""
    od = 2 + (level - 1) % 3  # another destination
    return {
        "none": [],
        "st1": [_row("self", "cur", level, [1])],
        "st12": [_row("self", "cur", level, [1, 2])],
        "st123": [_row("self", "cur", level, [1, 2, 3])],
        "stale": [_row("self", "cur", level, [1, 4])],
        "empty": [_row("self", "cur", level, [])],
        "two": [_row("self", "old", level, [1]), _row("self", "cur", level, [1, 2])],
        "oldrun": [_row("self", "old", level, [1, 2])],
        "othertarget": [_row("other", "cur", level, [1, 2])],
        "otherdest": [_row("self", "cur", od, [1, 2]), _row("other", "cur", level, [1])],
    }


def set_cases(tier: str) -> list[dict[str, Any]]:
    out: list[dict[str, Any]] = []
    n = 0
    for gname, g in GRAPHS.items():
        for level in (2, 3, 4):
            dbv = db_variants(level)
            for s0 in (1, 2, 3):
                for skip in (False, True):
                    for usedb in (True, False):
                        for hasdb in (True, False):
                            names = list(dbv) if hasdb and (usedb or tier == "thorough") else ["none", "st12"] if hasdb else ["none"]
                            for dn in names:
                                n += 1
                                if tier == "quick" and not (usedb and hasdb) and n % 2:
                                    continue
                                out.append({"flow": "set", "level": level, "skip": skip, "usedb": usedb, "hasdb": hasdb,
                                            "s0": s0, "sec0": 5 if n % 3 else -1, "cfgobj": bool(n % 2),
                                            "ecu": {"sess": s0, "edges": g, "nrc": (0x22, 0x7E, 0x12, 0x33)[n % 4]},
                                            "db": dbv[dn], "origin": f"set/{gname}/{dn}"})
    return out


def leave_cases(tier: str) -> list[dict[str, Any]]:
    out: list[dict[str, Any]] = []
    variants = [(2, 5, False), (3, -1, True)] if tier == "thorough" else [(2, 5, False)]
    n = 0
    for supply in (False, True):
        for sleep in (None, 0.3, 2.0):
            for reset in ("pos", "neg", "silent"):
                for down in (0, 1300, 12000):
                    for drop in (False, True):
                        for dsc1 in ("pos", "neg", "silent"):
                            for level, sec0, skip in variants:
                                n += 1
                                if tier == "quick" and sleep == 2.0 and not supply:
                                    continue
                                out.append({"flow": "leave", "level": level, "sec0": sec0, "skip": skip, "supply": supply,
                                            "sleep": sleep, "ecu": {"reset": reset, "down": down, "drop": drop, "dsc1": dsc1},
                                            "origin": "leave/product"})
    if tier == "thorough":  # silences around the 10 s limit of wait_for_ecu, other sleep values
        for supply in (False, True):
            for sleep in (None, 0.0, 0.7):
                for reset in ("pos", "neg"):
                    for down in (400, 700, 9400, 9600, 10000, 10400, 25000):
                        for drop in (False, True):
                            for dsc1 in ("pos", "neg", "silent"):
                                out.append({"flow": "leave", "level": 2, "sec0": 5, "skip": False, "supply": supply,
                                            "sleep": sleep, "ecu": {"reset": reset, "down": down, "drop": drop, "dsc1": dsc1},
                                            "origin": "leave/edge"})
    if tier == "quick":  # the second argument variant on a third of the product
        for c in list(out)[::3]:
            out.append({**c, "level": 3, "sec0": -1, "skip": True})
    return out


def _lens(p: int) -> list[int]:
    if p <= 0:
        return [0, 1, 5]
    s = {0, 1}
    for k in (1, 2, 3):
        for d in (-1, 0, 1):
            s.add(k * p + d)
    return sorted(x for x in s if 0 <= x <= 13000)


def xfer_cases(tier: str) -> list[dict[str, Any]]:
    out: list[dict[str, Any]] = []

    def add(mnbl: int, n: int, origin: str, maxbl: int | None = None, **fault: Any) -> None:
        out.append({"flow": "xfer", "n": n, "maxbl": maxbl, "ecu": {"mnbl": mnbl, **fault}, "origin": origin})

    sizes = [0, 1, 2, 3, 4, 5, 6, 9, 10, 17, 64, 130, 255, 256, 1000, 4095, 4096, 70000]
    if tier == "quick":
        sizes = [0, 1, 2, 3, 4, 5, 9, 17, 130, 256, 4095, 70000]
    for mnbl in sizes:
        p = min(mnbl, 0xFFF) - 2
        for n in _lens(p):
            add(mnbl, n, "xfer/lengths")
        if p > 0:
            n = 2 * p + 1
            for fault in ({"neg_at": 1}, {"neg_at": 2}, {"neg_at": 3}, {"silent_at": 2}, {"rte": "neg"}, {"rte": "silent"},
                          {"neg_at": 2, "nrc": 0x73}, {"neg_at": 3, "nrc": 0x72}):
                add(mnbl, n, "xfer/faults", **fault)
    for mnbl, maxbls in ((10, (8, 3, 10, 2, 11, 1)), (255, (8, 255, 254)), (4096, (5, 0xFFF, 0x1000)), (3, (3, 2))):
        for mb in maxbls:
            for n in _lens(min(mnbl, mb) - 2)[:8]:
                add(mnbl, n, "xfer/max_block_length", maxbl=mb)
    # more than 255 blocks: the counter wraps 0xFF -> 0x00
    for mnbl, ns in ((3, (254, 255, 256, 257, 258, 510, 511, 512, 513, 600)), (4, (509, 510, 511, 512, 513, 514, 515, 1025)),
                     (5, (765, 766, 768, 769, 770))):
        for n in ns if tier == "thorough" else ns[1::2]:
            add(mnbl, n, "xfer/wrap")
    add(3, 300, "xfer/wrap", neg_at=256)
    add(3, 300, "xfer/wrap", neg_at=257)
    add(3, 300, "xfer/wrap", silent_at=255)
    add(4, 600, "xfer/wrap", rte="neg")
    return out


def refresh_cases(tier: str) -> list[dict[str, Any]]:
    out = []
    for reset in (False, True, None):
        for s0 in (1, 3):
            for sec0 in (-1, 5):
                for rs in (["pos", 1], ["pos", 2], ["pos", 3], ["neg", 0x31], ["neg", 0x22], ["neg", 0x11], ["silent"]):
                    out.append({"flow": "refresh", "reset": reset, "s0": s0, "sec0": sec0, "rs": rs, "origin": "refresh/product"})
    return out


def book_cases(tier: str, seed: int) -> list[dict[str, Any]]:
    syms = list(BOOK_SYMBOLS)
    out = [{"flow": "book", "seq": list(s), "origin": "book/exhaustive"}
           for k in ((1, 2) if tier == "quick" else (1, 2, 3)) for s in itertools.product(syms, repeat=k)]
    rng = random.Random(seed * 7919 + 11)
    for _ in range(500 if tier == "quick" else 4000):
        out.append({"flow": "book", "seq": [rng.choice(syms) for _ in range(rng.randint(3, 8))], "origin": "book/seeded"})
    return out
