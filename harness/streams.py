"""In-memory TCP connections for the stream transports (DoIP, HSFZ, tcp-lines,
unix-lines, the virtual ECU's server loop).

A `Wire` is one fake connection: a *real* asyncio.StreamReader that the harness
feeds by hand (any segmentation) and a recording writer.  `patched_connections`
replaces asyncio.open_connection / open_unix_connection *in the harness
process* so that Transport.connect(target_uri) of the real code is exercised.
"""

from __future__ import annotations

import asyncio
import contextlib
from collections.abc import Callable, Iterator
from typing import Any

from harness.vloop import now_ms


class FakeWriter:
    def __init__(self, wire: "Wire") -> None:
        self.wire = wire
        self._closed = False
        self.transport = self  # some code pokes writer.transport

    # --- asyncio.StreamWriter surface used by gallia
    def write(self, data: bytes) -> None:
        if getattr(self, "_eof_sent", False) and not self._closed:
            raise RuntimeError("Cannot call write() after write_eof()")
        if self._closed:
            return
        self.wire.out.append((now_ms(), bytes(data)))
        if self.wire.on_out is not None:
            self.wire.on_out(bytes(data))

    def writelines(self, lines: Any) -> None:
        for ln in lines:
            self.write(ln)

    async def drain(self) -> None:
        # like asyncio.StreamWriter.drain(): the reader's exception first (set by connection_lost(exc) after a
        # reset), then one yield while closing, then ConnectionResetError('Connection lost') once
        # connection_lost() has been delivered (also after a local close())
        if self.wire.broken:
            raise ConnectionResetError("fake: connection reset by peer")
        await asyncio.sleep(0)
        if self.wire.lost:
            raise ConnectionResetError("Connection lost")

    def can_write_eof(self) -> bool:
        return True

    def write_eof(self) -> None:
        # half-close (shutdown(SHUT_WR)): the peer sees end-of-stream behind what was written, reading goes on
        if self._closed or getattr(self, "_eof_sent", False):
            return
        self._eof_sent = True
        self.wire.client_closed_at = now_ms()
        if self.wire.on_client_close is not None:
            self.wire.on_client_close()

    def close(self) -> None:
        if not self._closed:
            self._closed = True
            if not getattr(self, "_eof_sent", False):
                self.wire.client_closed_at = now_ms()
                if self.wire.on_client_close is not None:
                    self.wire.on_client_close()
            # like the selector transport: connection_lost() is delivered by call_soon
            try:
                asyncio.get_running_loop().call_soon(self.wire._mark_lost)
            except RuntimeError:
                self.wire.lost = True

    async def wait_closed(self) -> None:
        """Waits for connection_lost(): suspends unless the connection is already lost (after a reset
        it is; after a peer FIN or a local close() it is not yet)."""
        while not self.wire.lost:
            await asyncio.sleep(0)
        if self.wire.broken:
            # connection_lost(exc) after a reset: StreamWriter.wait_closed() re-raises the exception
            raise ConnectionResetError("fake: connection reset by peer")

    def is_closing(self) -> bool:
        return self._closed

    def get_extra_info(self, name: str, default: Any = None) -> Any:
        return default

    def abort(self) -> None:
        self.close()


class Wire:
    """One fake connection as seen from the client (gallia) side."""

    def __init__(self) -> None:
        self.reader = asyncio.StreamReader(limit=2**20)
        self.writer = FakeWriter(self)
        self.out: list[tuple[int, bytes]] = []  # (virtual ms, bytes written by the client)
        self.fed: list[tuple[int, bytes]] = []  # (virtual ms, bytes fed to the client)
        self.broken = False
        self.lost = False  # connection_lost() delivered to the client's protocol
        self.eof_sent = False
        self.client_closed_at: int | None = None
        self.on_out: Callable[[bytes], None] | None = None
        self.on_client_close: Callable[[], None] | None = None

    # --- peer side
    def feed(self, data: bytes) -> bool:
        """Deliver bytes to the client; False if the connection is already gone
        (peer sent EOF/reset, or the client closed its side)."""
        if self.eof_sent or self.broken or not data or self.writer.is_closing() or self.reader.at_eof() \
                or getattr(self.reader, "_eof", False):
            return False
        self.fed.append((now_ms(), bytes(data)))
        self.reader.feed_data(data)
        return True

    def feed_split(self, data: bytes, cuts: list[int]) -> None:
        """Feed `data` in segments cut at the given offsets; between segments the
        loop runs until idle (asyncio.sleep(0) x a few) — use feed_split_async."""
        raise NotImplementedError

    async def feed_split_async(self, data: bytes, cuts: list[int], yields: int = 3) -> None:
        prev = 0
        for c in sorted(set(cuts)) + [len(data)]:
            if c <= prev or c > len(data):
                continue
            self.feed(data[prev:c])
            prev = c
            for _ in range(yields):
                await asyncio.sleep(0)

    def eof(self) -> None:
        """Peer closes its side.  Like the selector transport (one recv per loop iteration) the EOF
        is seen in a later loop iteration than data fed before it."""
        if self.eof_sent or self.broken:
            return
        self.eof_sent = True
        asyncio.get_running_loop().call_soon(self._do_eof)

    def _do_eof(self) -> None:
        if not self.broken and not getattr(self.reader, "_eof", False):
            self.reader.feed_eof()

    def reset(self) -> None:
        """Connection reset by peer: asyncio reports it through connection_lost(), which is scheduled
        with call_soon -- a reader woken by earlier data waits again before the exception arrives."""
        if self.broken:
            return
        self.broken = True
        self.eof_sent = True
        asyncio.get_running_loop().call_soon(self._do_reset)

    def _mark_lost(self) -> None:
        self.lost = True

    def _do_reset(self) -> None:
        self.lost = True
        if self.reader.exception() is None:
            self.reader.set_exception(ConnectionResetError("fake: connection reset by peer"))

    @property
    def out_bytes(self) -> bytes:
        return b"".join(b for _, b in self.out)


class Listener:
    """Fake listening peer: hands out Wires to open_connection callers."""

    def __init__(self) -> None:
        self.accepting = True
        self.wires: list[Wire] = []
        self.refused = 0
        self.on_accept: Callable[[Wire], None] | None = None

    async def open(self, *a: Any, **kw: Any) -> tuple[asyncio.StreamReader, FakeWriter]:
        await asyncio.sleep(0)
        if not self.accepting:
            self.refused += 1
            raise ConnectionRefusedError("fake: connection refused")
        w = Wire()
        self.wires.append(w)
        if self.on_accept is not None:
            self.on_accept(w)
        return w.reader, w.writer


@contextlib.contextmanager
def patched_connections(listener: Listener) -> Iterator[Listener]:
    orig = asyncio.open_connection
    orig_u = getattr(asyncio, "open_unix_connection", None)
    asyncio.open_connection = listener.open  # type: ignore[assignment]
    if orig_u is not None:
        asyncio.open_unix_connection = listener.open  # type: ignore[assignment]
    try:
        yield listener
    finally:
        asyncio.open_connection = orig  # type: ignore[assignment]
        if orig_u is not None:
            asyncio.open_unix_connection = orig_u  # type: ignore[assignment]


def call_at_ms(ms: int, fn: Callable[..., Any], *args: Any) -> asyncio.TimerHandle:
    loop = asyncio.get_running_loop()
    return loop.call_at(ms / 1000.0, fn, *args)


async def settle(n: int = 5) -> None:
    """Let every ready callback run (no virtual time passes)."""
    for _ in range(n):
        await asyncio.sleep(0)
