"""X16: the FAKE `dumpcap` executable (the real tool is not installed in the sandbox).

`install(dir, script, stream)` writes three files into a fresh private directory:

    dumpcap      the executable (python, started with -S -E -s: no site packages, a few ms to start)
    script.json  what this instance does (see below)
    stream.bin   the complete byte stream it may write (a pcapng section header + interface description
                 + enhanced packet blocks with pseudo-random payload, made by `make_stream`)

and the harness puts `dir` first on PATH of ITS OWN process for the duration of one case.  The fake keeps a
journal `events.log` next to itself (one line per event, CLOCK_MONOTONIC nanoseconds first):

    argv <json list>         the command line it was started with
    ready                    the first bytes (the pcapng header) are being written to the output (time taken before the write)
    wrote <total>            total number of bytes successfully written to the output so far
    sig <name> <reaction>    a SIGTERM / SIGINT arrived; reaction = exit | tail | ignore
    exit <code> <total>      the last thing it does

Fidelity to dumpcap(1): the capture goes to stdout only with `-w -` (to the named file with `-w FILE`, to a
temporary file without -w); `-i`, `-f`, `-q` are accepted; "Capturing on '<iface>'" / "File: <name>" go to
stderr; SIGTERM and SIGINT stop the capture.  A syntactically impossible command line (empty interface name,
unknown option, option without its value) ends with exit code 1 like the real tool.

script.json
    ready      "header": write the header at once | "never": never write anything | "die": exit with `die_code` at once
    start_ms   pause before anything is written (a slow start)
    chunks     [[nbytes, pause_ms_after], ...] written after start_ms; the first chunk contains the header
    then       "idle": wait for a signal | "exit": leave by itself with `exit_code`
    on_term    "exit": leave at once | "tail": write `tail` more bytes, then leave | "ignore": carry on
    tail       number of bytes flushed after the signal (on_term = tail)
    gate_after index of the chunk after which the fake waits until the file `go` appears next to it (the harness
               creates it at the scripted moment: "the capture ends by itself WHILE main() runs" must not depend
               on how fast the machine is)
    life_s     the fake leaves by itself after this many seconds whatever happens (nothing is left behind)

Signals are taken synchronously (blocked + sigtimedwait): every journal line is consistent with what was
really written, there is no window between a write and its journal line in which a handler could leave.
"""

from __future__ import annotations

import hashlib
import json
import os
import stat
import struct
from pathlib import Path
from typing import Any

PYTHON = "/venv/bin/python"

FAKE_SRC = r'''#!%(python)s -SEs
import json, os, signal, sys, time
here = os.path.dirname(os.path.abspath(sys.argv[0]))
jfd = os.open(os.path.join(here, "events.log"), os.O_WRONLY | os.O_CREAT | os.O_APPEND, 0o644)
def log(*a, ts=None):
    os.write(jfd, (" ".join([str(ts if ts is not None else time.monotonic_ns())] + [str(x) for x in a]) + "\n").encode())
SIGS = {signal.SIGTERM, signal.SIGINT}
signal.pthread_sigmask(signal.SIG_BLOCK, SIGS)
log("pid", os.getpid())
log("argv", json.dumps(sys.argv[1:]))
sc = json.load(open(os.path.join(here, "script.json")))
stream = open(os.path.join(here, "stream.bin"), "rb").read()
deadline = time.monotonic() + float(sc.get("life_s", 120))
# ---- command line like dumpcap(1)
args = sys.argv[1:]
iface = None; wfile = None; k = 0; bad = False
while k < len(args):
    a = args[k]
    if a in ("-i", "-w", "-f", "-s", "-B", "-c", "-a", "-b", "-y"):
        if k + 1 >= len(args):
            bad = True; break
        v = args[k + 1]; k += 2
        if a == "-i": iface = v
        elif a == "-w": wfile = v
    elif a in ("-q", "-p", "-n", "-P", "-I", "-t"):
        k += 1
    else:
        bad = True; break
if iface is None:
    iface = "eth0"  # dumpcap(1): without -i the first non-loopback interface
if bad or iface == "":
    sys.stderr.write("dumpcap: bad command line\n")
    log("exit", 1, 0); os._exit(1)
if sc["ready"] == "die":
    sys.stderr.write("dumpcap: The capture session could not be initiated\n")
    log("exit", sc.get("die_code", 2), 0); os._exit(int(sc.get("die_code", 2)))
if wfile == "-":
    out = 1
else:
    out = os.open(wfile if wfile else os.path.join(here, "capture.pcapng"), os.O_WRONLY | os.O_CREAT | os.O_TRUNC, 0o644)
sys.stderr.write("Capturing on '%%s'\nFile: %%s\n" %% (iface, wfile or "capture.pcapng")); sys.stderr.flush()
total = 0
ignoring = False
def leave(code):
    log("exit", code, total); os._exit(code)
def put(n):
    global total
    data = stream[total:total + n]
    while data:
        t0 = time.monotonic_ns()  # "ready" carries the time BEFORE the first write: nobody can have seen the header earlier
        try:
            w = os.write(out, data)
        except BrokenPipeError:
            log("epipe", total); leave(1)
        first = total == 0
        total += w; data = data[w:]
        if first: log("ready", ts=t0)
        log("wrote", total)
def pause(ms):
    """wait ms (None: until the life time is over); returns True when the capture has to stop"""
    end = deadline if ms is None else min(deadline, time.monotonic() + ms / 1000.0)
    while True:
        left = end - time.monotonic()
        if left <= 0:
            if end >= deadline: leave(3)
            return False
        si = signal.sigtimedwait(SIGS, left)
        if si is None:
            continue
        name = signal.Signals(si.si_signo).name
        log("sig", name, sc["on_term"])
        if sc["on_term"] == "ignore":
            continue
        if sc["on_term"] == "tail":
            put(int(sc.get("tail", 0)))
        leave(0)
if sc["ready"] == "never":
    pause(None)
pause(int(sc.get("start_ms", 0)))
gate = sc.get("gate_after")
for k, (n, ms) in enumerate(sc["chunks"]):
    put(int(n))
    pause(int(ms))
    if gate is not None and k == int(gate):
        log("gate")
        while not os.path.exists(os.path.join(here, "go")):
            pause(20)
if sc["then"] == "exit":
    leave(int(sc.get("exit_code", 0)))
log("idle")
pause(None)
'''


def make_stream(seed: int, nbytes: int) -> bytes:
    """A pcapng stream of at least `nbytes` bytes: SHB, IDB, then enhanced packet blocks whose payload is a
    hash chain of the seed (deterministic, incompressible enough, no repetition a duplicated chunk could hide in)."""
    shb = struct.pack("<IIIHHqI", 0x0A0D0D0A, 28, 0x1A2B3C4D, 1, 0, -1, 28)
    idb = struct.pack("<IIHHII", 1, 20, 1, 0, 0x40000, 20)
    out = bytearray(shb + idb)
    ctr = 0
    h = hashlib.sha256(f"x16-{seed}".encode()).digest()
    while len(out) < nbytes:
        ln = 40 + (h[0] % 200) * 4
        pay = bytearray()
        while len(pay) < ln:
            h = hashlib.sha256(h + ctr.to_bytes(4, "little")).digest()
            ctr += 1
            pay += h
        pay = pay[:ln]
        tot = 32 + ln
        out += struct.pack("<IIIIIII", 6, tot, 0, 0, ctr, ln, ln) + pay + struct.pack("<I", tot)
    return bytes(out)


def install(d: Path, script: dict[str, Any], stream: bytes, *, executable: bool = True) -> Path:
    d.mkdir(parents=True, exist_ok=True)
    (d / "script.json").write_text(json.dumps(script))
    (d / "stream.bin").write_bytes(stream)
    exe = d / "dumpcap"
    exe.write_text(FAKE_SRC % {"python": PYTHON})
    mode = stat.S_IRUSR | stat.S_IWUSR | (stat.S_IXUSR if executable else 0)
    os.chmod(exe, mode)
    return exe


def journal(d: Path) -> list[tuple[int, list[str]]]:
    p = d / "events.log"
    if not p.exists():
        return []
    out = []
    for ln in p.read_text().splitlines():
        parts = ln.split(" ", 2)
        if len(parts) < 2:
            continue
        try:
            ts = int(parts[0])
        except ValueError:
            continue
        out.append((ts, parts[1:]))
    return out


def planned_total(script: dict[str, Any]) -> int:
    return sum(int(n) for n, _ in script.get("chunks", [])) + int(script.get("tail", 0))
