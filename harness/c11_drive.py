"""C11 helper: drives the REAL ECU + DBHandler through the REAL run lifecycle
(`UDSScanner.entry_point`: _db_insert_run_meta -> setup -> main -> teardown ->
_db_finish_run_meta) on the normal asyncio loop (aiosqlite uses a worker
thread), against a scripted transport that never waits: a scripted timeout
raises TimeoutError immediately.

A *history* is a JSON-able list of steps executed by the scanner's main():
  {"op": "req", "spec": {"cls", "kw"}, "script": [...], "ana": bool, "retry": int|None}
  {"op": "toggle", "on": bool}              scanner.implicit_logging = on
  {"op": "raise"}                           main() raises RuntimeError
  {"op": "par", "lanes": [[req / ep steps], ...]} lanes run as concurrent tasks
  {"op": "ep", "name": ..., "args": {...}, "tags": [...]|None, "retry": int|None, "emptycfg": bool,
   "faults": {"n": script}}                  ONE call of a convenience entry point of the ECU client (transmit_data,
                                            set_session, leave_session, ping, read_dtc, ..., the typed one-shot helpers)
                                            which issues its exchanges itself; only in scanner-level jobs (see below);
                                            the peer answers by request bytes, except that the n-th exchange of the call
                                            is answered by faults[n]
  {"op": "transitions", "dest": s, "steps": [...]}   the scanner stores a session transition for this target (what
                                            `scan uds sessions` does), used by set_session's database fall-back
script events of one call, consumed by the transport:
  ["D", hex] reply bytes   ["T"] read times out   ["C"] read raises ConnectionResetError
  ["E"] read returns b""   ["WC"] the next write raises BrokenPipeError
  ["H"] the read never returns (only in a step with "cut": true, whose call the scanner wraps in
        asyncio.wait_for(..., 0.02) the way ECU.wait_for_ecu wraps its pings: the call is cancelled while
        the request is on the wire and the run goes on; recorded as out = "cut")
  (exhausted script: read times out)
Abort: `cancel_at=k` cancels the task running entry_point at the k-th await point
of the transport / of main (every write and read has a point before and after
its effect; main has one between steps); `late=True` requests the cancellation
at the last close() of the teardown so that it lands inside DBHandler.disconnect.

Scanner-level jobs (`"scan": {...}` next to "hist"): the command itself is varied, not only its main():
  "ctor":  None | False | True   the scanner subclass assigns `self.implicit_logging` in its CONSTRUCTOR (as
                                 `scan uds dump-seeds` does), i.e. before a database handler or an ECU object exists;
                                 UDSScanner.setup() has to carry the setting over to the ECU object it creates
  "ping":  bool                  --ping / --no-ping (wait_for_ecu in setup; every ping is an exchange)
  "reset": None | level          --ecu-reset (ecu_reset / set_session / ecu_reset again in setup)
  "props": "off"|"plain"|"oem"   --no-properties | properties of the default ECU class (no traffic) | an OEM ECU
                                 class whose properties() reads DID 0xF190 (setup AND teardown exchange something)
  "ecu":   {"reset": "ok"|"neg"|"neg_then_ok", "silent_pings": k}   how the scripted peer answers setup's requests
The exchanges setup()/teardown() make themselves are recorded like those of main(): the ECU class handed out by
`load_ecu` (stubbed for these jobs only) is an ECU subclass whose public request() notes call / outcome and asks a
responder (by request bytes, not by position: a set-up that asks more or in another order is answered all the same)
for the reply.  "implicit logging on/off" of an exchange is what the COMMAND asked for (`scanner.implicit_logging`),
not the flag of the ECU object: whether the one reaches the other is part of what is checked.

Entry-point calls ("ep" steps): the caller hands ONE request config to a convenience call that makes several
exchanges.  "as requested" (B2, log_mode) is then what the CALLER asked for, for the exchanges that ARE the operation
(EP_OPERATION below: the data blocks and the exit of transmit_data, the DiagnosticSessionControl to the requested
level of set_session, the one exchange of a one-shot helper); for auxiliary exchanges (resets, pings, session
read-backs, intermediate sessions of a database transition, hooks of subclasses) the statement is silent about whose
config applies, and the tag is, as everywhere else, the one of the config that reached the client's request().

Nothing here judges the property: the module records events, reads the rows
back with sqlite3 and lays both out as the record of DbLogContract.tla.
"""

from __future__ import annotations

import asyncio
import contextvars
import functools
import inspect
import json
import logging
import shutil
import sqlite3
import tempfile
import time
from binascii import unhexlify
from dataclasses import dataclass
from pathlib import Path
from typing import Any, Self

import gallia.command  # noqa: F401  (resolves the command <-> plugin import cycle)
import gallia.command.uds as _uds_cmd
import gallia.plugins.plugin as _plugin
from gallia.command.uds import UDSScanner, UDSScannerConfig
from gallia.services.uds.core import service
from gallia.services.uds.core.client import UDSRequestConfig
from gallia.services.uds.ecu import ECU, ECUProperties
from gallia.transports.base import BaseTransport, TargetURI

from harness import c11_kinds as K
from harness.common import Machinery

_ENVS: dict[str, "Env"] = {}
_CURRENT: list["Env"] = []
# the entry-point call ("ep" step) on whose behalf the current task (and the tasks it spawns) exchanges
_EP: contextvars.ContextVar[dict[str, Any] | None] = contextvars.ContextVar("c11_ep", default=None)

# Which exchanges of a multi-exchange entry point ARE the operation the caller's config was given for (by request
# bytes, not by position: an implementation that orders or repeats them differently is judged all the same).
EP_OPERATION: dict[str, Any] = {
    "transmit_data": lambda args, pdu: pdu[:1] in (b"\x36", b"\x37"),
    "set_session": lambda args, pdu: len(pdu) >= 2 and pdu[0] == 0x10 and (pdu[1] & 0x7F) == int(args["level"]),
}
# entry points all of whose exchanges are auxiliary as far as the caller's config goes (no config parameter, or a
# config that the docstring does not promise to any particular exchange)
EP_AUXILIARY = {"leave_session", "check_and_set_session", "refresh_state", "wait_for_ecu", "properties"}


def ep_role(name: str, args: dict[str, Any], pdu: bytes, transitions: dict[int, list[int]] | None = None) -> str:
    if name in EP_AUXILIARY:
        return "auxiliary"
    if name == "set_session" and int(args["level"]) in (transitions or {}).get(int(args["level"]), []):
        # the transition stored for the level passes through the level itself: a DiagnosticSessionControl to it may
        # be the operation or one of the intermediate steps -- not decidable from the bytes
        return "auxiliary"
    if name in EP_OPERATION:
        return "operation" if EP_OPERATION[name](args, pdu) else "auxiliary"
    return "operation"   # one-shot helpers: the exchange is the call


class _Capture(logging.Handler):
    def emit(self, record: logging.LogRecord) -> None:
        try:
            msg = record.getMessage()
        except Exception:  # noqa: BLE001
            return
        if _CURRENT and "Could not log messages to database" in msg:
            _CURRENT[-1].rec(e="Warn", msg=msg[:300])


_installed = False


def install_logging_capture() -> None:
    """gallia reports a lost row only as a warning: capture exactly that message,
    keep everything else silent (no handler prints)."""
    global _installed
    logging.disable(logging.INFO)  # quiet_gallia_logging() may have been called again since
    if _installed:
        return
    _installed = True
    lg = logging.getLogger("gallia")
    lg.addHandler(_Capture(level=logging.WARNING))
    lg.propagate = False
    lg.setLevel(logging.WARNING)
    logging.disable(logging.INFO)


def _task() -> str:
    t = asyncio.current_task()
    return t.get_name() if t is not None else "?"


class Env:
    _n = 0

    def __init__(self, cancel_at: int | None = None, late: bool = False, key: str | None = None) -> None:
        Env._n += 1
        self.key = key or f"c11://env{Env._n}"
        _ENVS[self.key] = self
        self.log: list[dict[str, Any]] = []
        self.points = 0
        self.main_points = 0
        self.cancel_at = cancel_at
        self.late = late
        self.run_task: asyncio.Task[Any] | None = None
        self.active: dict[str, dict[str, Any]] = {}
        self.ecu: Any = None
        self.scan_run: int | None = None
        self.in_main = False
        self.closes = 0
        self.stall = False   # the database writer's INSERTs into scan_result are held back while main() runs
        self.gate: asyncio.Event | None = None
        # scanner-level jobs
        self.scanner: Any = None     # the command object: its `implicit_logging` is what was asked for
        self.scan: dict[str, Any] | None = None
        self.phase = "setup"         # setup -> main -> teardown (coverage label of an exchange)
        self.auto_n = 0              # exchanges made outside main()'s history (ids 100001, 100002, ...)
        self.silent_pings = 0
        self.dsc_seen = False
        self.peer_session = 1        # the scripted peer's own session (models with "stateful")
        self.transitions: dict[int, list[int]] = {}   # session transitions the scanner stored for the target
        self.ep_log: list[dict[str, Any]] = []   # entry-point calls: name, tags, exchanges made, how they ended

    def impl(self) -> bool:
        """implicit logging as the command asked for it (falls back to the ECU object's flag)"""
        if self.scanner is not None:
            return bool(self.scanner.implicit_logging)
        return bool(self.ecu.implicit_logging)

    def dispose(self) -> None:
        _ENVS.pop(self.key, None)

    def rec(self, **kw: Any) -> None:
        kw["task"] = _task_safe()
        self.log.append(kw)

    def state(self) -> list[int]:
        st = self.ecu.state
        lvl = st.security_access_level
        return [int(st.session), -1 if lvl is None else int(lvl)]

    async def point(self, where: str) -> None:
        self.points += 1
        if self.in_main:
            self.main_points = self.points
        if self.cancel_at is not None and self.points == self.cancel_at and not self.late:
            self.rec(e="Abort", k=self.points, where=where)
            assert self.run_task is not None
            self.run_task.cancel()
        await asyncio.sleep(0)


def _task_safe() -> str:
    try:
        return _task()
    except RuntimeError:
        return "?"


class C11Transport(BaseTransport, scheme="c11"):
    def __init__(self, target: TargetURI) -> None:
        super().__init__(target)
        self.env = _ENVS[target.raw]

    @classmethod
    async def connect(cls, target: str | TargetURI, timeout: float | None = None) -> Self:
        t = target if isinstance(target, TargetURI) else TargetURI(target)
        tr = cls(t)
        tr.env.rec(e="Connect")
        return tr

    async def close(self) -> None:
        env = self.env
        self.is_closed = True
        env.rec(e="Close")
        if not env.in_main:
            env.closes += 1
            if env.late and env.closes == 2:
                # request the cancellation now; it is delivered at the next suspension
                # of the run task, i.e. inside DBHandler.disconnect()
                env.rec(e="Abort", k=-1, where="late")
                assert env.run_task is not None
                asyncio.get_running_loop().call_soon(env.run_task.cancel)
                return
        await env.point("close")

    def _call(self) -> dict[str, Any] | None:
        return self.env.active.get(_task())

    async def write(self, data: bytes, timeout: float | None = None, tags: list[str] | None = None) -> int:
        env = self.env
        await env.point("write-pre")
        call = self._call()
        fault = None
        if call is not None and call["pos"] < len(call["script"]) and call["script"][call["pos"]][0] == "WC":
            call["pos"] += 1
            fault = "WC"
        env.rec(e="W", data=bytes(data).hex(), st=env.state(), i=None if call is None else call["i"], fault=fault)
        if fault:
            raise BrokenPipeError("scripted: write failed")
        await env.point("write-post")
        return len(data)

    async def read(self, timeout: float | None = None, tags: list[str] | None = None) -> bytes:
        env = self.env
        await env.point("read-pre")
        call = self._call()
        ev: list[Any] = ["T"]
        if call is not None:
            while call["pos"] < len(call["script"]) and call["script"][call["pos"]][0] == "WC":
                call["pos"] += 1
            if call["pos"] < len(call["script"]):
                ev = call["script"][call["pos"]]
                call["pos"] += 1
        kind = ev[0]
        data = bytes.fromhex(ev[1]) if kind == "D" else None
        env.rec(e="R", k=kind, data=None if data is None else data.hex(), i=None if call is None else call["i"])
        if kind == "H":
            assert call is not None
            call["hung"] = True
            await asyncio.Event().wait()  # until the caller's own timeout cancels the call
        await env.point("read-post")
        if kind == "T":
            raise TimeoutError("scripted: read timed out")
        if kind == "C":
            raise ConnectionResetError("scripted: connection reset")
        if kind == "E":
            return b""
        assert data is not None
        env.rec(e="RR", data=data.hex(), i=None if call is None else call["i"])  # the client HAS the reply now
        return data


_plugin.load_transport = lambda target: C11Transport  # stub in our own process (DESIGN 2.2)


class HistScanner(UDSScanner):
    """A scanner whose main() executes a history."""

    env: Env
    hist: list[dict[str, Any]]

    async def _call(self, step: dict[str, Any], i: int) -> None:
        env = self.env
        spec = step["spec"]
        pdu_hex: str | None
        try:
            req = K.build(spec)
            pdu_hex = req.pdu.hex()
        except Exception:  # noqa: BLE001
            req = K.build(spec)  # construction itself works for all kinds; .pdu may raise (S3)
            pdu_hex = None
        tags = ["ANALYZE"] if step.get("ana") else None
        cfg = None
        if tags is not None or step.get("retry") is not None:
            cfg = UDSRequestConfig(tags=tags, max_retry=step.get("retry"))
        call = {"i": i, "script": step.get("script", []), "pos": 0}
        env.active[_task()] = call
        env.rec(e="Call", i=i, req=pdu_hex, impl=env.impl(), ana=bool(step.get("ana")),
                st=env.state(), cls=spec["cls"], phase=env.phase)
        out, exc = "ret", None
        try:
            if step.get("cut"):
                await asyncio.wait_for(self.ecu.request(req, cfg), 0.02)
            else:
                await self.ecu.request(req, cfg)
        except asyncio.CancelledError:
            out = "cancel"
            raise
        except Exception as e:  # noqa: BLE001
            out, exc = "exc", repr(e)[:200]
            if call.get("hung") and isinstance(e, TimeoutError):
                out = "cut"
        except BaseException:
            out = "cancel"
            raise
        finally:
            env.active.pop(_task(), None)
            env.rec(e="Ret", i=i, out=out, exc=exc, impl=env.impl())

    async def _call_ep(self, step: dict[str, Any], i: int) -> None:
        """One call of a convenience entry point of the ECU client.  The exchanges it makes are noted one by one by
        the ECU subclass handed out by load_ecu (scanner-level jobs); here only: who asked for what."""
        env = self.env
        if env.scan is None:
            raise Machinery("an entry-point step needs a scanner-level job (the observing ECU subclass)")
        name = step["name"]
        args = {k: K._dec(v) for k, v in step.get("args", {}).items()}
        tags = step.get("tags")
        fn = getattr(self.ecu, name)
        kw = dict(args)
        takes_config = "config" in inspect.signature(fn).parameters
        if takes_config and (tags is not None or step.get("retry") is not None or step.get("emptycfg")):
            kw["config"] = UDSRequestConfig(tags=None if tags is None else list(tags), max_retry=step.get("retry"))
        ctx = {"i": i, "name": name, "args": args, "ana": bool(takes_config and tags and "ANALYZE" in tags), "n": 0,
               "faults": step.get("faults") or {}}
        entry = {"i": i, "name": name, "tags": tags, "out": "cancel", "exc": None, "exchanges": 0}
        env.ep_log.append(entry)
        tok = _EP.set(ctx)
        try:
            await fn(**kw)
            entry["out"] = "ret"
        except asyncio.CancelledError:
            raise
        except Exception as e:  # noqa: BLE001  (a refused block, a timeout, ...: the run goes on)
            entry["out"], entry["exc"] = "exc", repr(e)[:200]
        finally:
            entry["exchanges"] = ctx["n"]
            _EP.reset(tok)

    async def _step(self, step: dict[str, Any], i: int) -> None:
        if step["op"] == "ep":
            await self._call_ep(step, i)
        else:
            await self._call(step, i)

    async def main(self) -> None:
        env = self.env
        env.ecu = self.ecu
        assert self.db_handler is not None
        env.scan_run = self.db_handler.scan_run
        self.ecu.retry_wait = 0.0005  # the back-off duration is irrelevant to C11
        if env.stall and self.db_handler.connection is not None:
            # a slow disk / another process holding the database: the writer task cannot insert for a while
            env.gate = asyncio.Event()
            if env.stall == "busy-last":
                env.gate.set()  # nothing is held back; only the last insert meets a locked database
            conn = self.db_handler.connection
            real_execute = conn.execute

            seen = {"n": 0}

            async def held_execute(sql: str, *a: Any, **kw: Any) -> Any:
                if "scan_result" in sql and "INSERT" in sql.upper():
                    if env.gate is not None and not env.gate.is_set():
                        await env.gate.wait()
                    seen["n"] += 1
                    if env.stall == "busy-last" and len(self.hist) <= seen["n"] < len(self.hist) + 4:
                        # the database is write-locked by another process when the run ends: the insert of the LAST
                        # message waits (busy timeout) and fails a few times while the handler is already being closed
                        import aiosqlite

                        env.rec(e="DbBusy", n=seen["n"])
                        await asyncio.sleep(0.02)
                        raise aiosqlite.OperationalError("database is locked")
                    if env.stall == "busy" and seen["n"] in (3, 8, 9):
                        # another process holds the database for a moment: sqlite's transient "database is
                        # locked" (the writer retries; the request must still end up as exactly one row)
                        import aiosqlite

                        env.rec(e="DbBusy", n=seen["n"])
                        raise aiosqlite.OperationalError("database is locked")
                return await real_execute(sql, *a, **kw)

            conn.execute = held_execute  # type: ignore[method-assign]
        env.in_main = True
        env.phase = "main"
        n = 0
        try:
            for step in self.hist:
                await env.point("idle")
                op = step["op"]
                if op in ("req", "ep"):
                    n += 1
                    await self._step(step, n)
                elif op == "transitions":
                    # what `scan uds sessions` stores for the target; set_session() falls back to it
                    await self.db_handler.insert_session_transition(int(step["dest"]), list(step["steps"]))
                    env.transitions.setdefault(int(step["dest"]), list(step["steps"]))
                elif op == "toggle":
                    self.implicit_logging = bool(step["on"])  # UDSScanner property -> ecu.implicit_logging
                    env.rec(e="Toggle", on=bool(step["on"]))
                elif op == "raise":
                    env.rec(e="Abort", k=0, where="raise")
                    raise RuntimeError("scripted: scanner failed")
                elif op == "par":

                    async def lane(steps: list[dict[str, Any]], off: int) -> None:
                        for j, st in enumerate(steps):
                            await self._step(st, off + j + 1)

                    offs = []
                    for ln in step["lanes"]:
                        offs.append(n)
                        n += len(ln)
                    await asyncio.gather(*(lane(ln, off) for ln, off in zip(step["lanes"], offs)))
            await env.point("idle")
        finally:
            env.in_main = False
            env.phase = "teardown"
            env.rec(e="MainEnd")


class CtorScanner(HistScanner):
    """A scanner that chooses its implicit logging in the constructor (before setup() creates the ECU object)."""

    CTOR_IMPL: bool | None = None

    def __init__(self, config: UDSScannerConfig) -> None:
        super().__init__(config)
        if self.CTOR_IMPL is not None:
            self.implicit_logging = self.CTOR_IMPL


VIN = b"WVWZZZ1JZXW000001"


@dataclass
class _Props(ECUProperties):
    vin: str = ""


def respond(env: Env, pdu: bytes) -> list[list[str]]:
    """The scripted peer's answer to a request made outside main()'s history, chosen by the request bytes."""
    model = (env.scan or {}).get("ecu", {})
    sid = pdu[0]
    if pdu == b"\x3e\x00":
        if env.silent_pings > 0:
            env.silent_pings -= 1
            return [["T"]]
        return [["D", "7e00"]]
    if sid == 0x11 and len(pdu) == 2:
        beh = model.get("reset", "ok")
        if beh == "ok" or (beh == "neg_then_ok" and env.dsc_seen):
            env.dsc_seen = False
            env.peer_session = 1
            return [["D", bytes([0x51, pdu[1] & 0x7F]).hex()]]
        return [["D", "7f117f" if beh == "neg_then_ok" else "7f1122"]]
    if sid == 0x10 and len(pdu) == 2:
        lvl = pdu[1] & 0x7F
        # "gated": {level: session it can only be entered from} (JSON: keys are strings); "refused": [levels]
        gate = (model.get("gated") or {}).get(str(lvl))
        if gate is not None and env.peer_session != int(gate):
            return [["D", "7f1022"]]
        if lvl in (model.get("refused") or []):
            return [["D", "7f1012"]]
        env.dsc_seen = True
        env.peer_session = lvl
        return [["D", bytes([0x50, lvl, 0x00, 0x32, 0x01, 0xF4]).hex()]]
    if pdu == b"\x22\xf1\x90":
        return [["D", (b"\x62\xf1\x90" + VIN).hex()]]
    if pdu == b"\x22\xf1\x86":
        return [["D", bytes([0x62, 0xF1, 0x86, env.peer_session if model.get("stateful") else 1]).hex()]]
    if sid == 0x36 and len(pdu) >= 2:
        return [["D", bytes([0x76, pdu[1]]).hex()]]
    if sid == 0x37:
        return [["D", "77"]]
    if model.get("positive_default"):
        pos = _default_positive(bytes(pdu))
        if pos is not None:
            return [["D", pos]]
    return [["D", bytes([0x7F, sid, 0x11]).hex()]]


@functools.lru_cache(maxsize=None)
def _default_positive(pdu: bytes) -> str | None:
    """A reply the real parser accepts as positive for this request (found by offering candidates to parse_pdu)."""
    try:
        pos = K.replies_for(service.UDSRequest.parse_dynamic(pdu))["Pos"]
    except Exception:  # noqa: BLE001
        return None
    return pos[0][0].hex() if pos else None


def make_obs_ecu(env: Env, oem_props: bool) -> type[ECU]:
    class ObsECU(ECU):
        def __init__(self, *a: Any, **kw: Any) -> None:
            super().__init__(*a, **kw)
            env.ecu = self
            self.retry_wait = 0.0005

        # Both the public entry and the one below it note a call (whichever is entered first does): a client whose
        # service helpers call `_request` directly is observed all the same.
        async def request(self, request: Any, config: Any = None) -> Any:  # type: ignore[override]
            return await self._noted(super().request, request, config)

        async def _request(self, request: Any, config: Any = None) -> Any:
            return await self._noted(super()._request, request, config)

        async def _noted(self, inner: Any, request: Any, config: Any) -> Any:
            if _task() in env.active:   # already noted: by request() above or, for main()'s history, by HistScanner
                return await inner(request, config)
            env.auto_n += 1
            i = 100000 + env.auto_n
            pdu = bytes(request.pdu)
            ana = config is not None and config.tags is not None and "ANALYZE" in config.tags
            script = None
            ep: dict[str, Any] = {}
            ctx = _EP.get()
            if ctx is not None:
                # an exchange made on behalf of an entry-point call: "as requested" is what the CALLER of the entry
                # point asked for where the exchange is the operation itself, else what reached request()
                ctx["n"] += 1
                role = ep_role(ctx["name"], ctx["args"], pdu, env.transitions)
                ep = {"ep": ctx["name"], "epcall": ctx["i"], "role": role, "nth": ctx["n"],
                      "tag_reached_request": bool(ana), "tag_of_caller": ctx["ana"]}
                if role == "operation":
                    ana = ctx["ana"]
                script = ctx["faults"].get(str(ctx["n"]))
            call = {"i": i, "script": script if script is not None else respond(env, pdu), "pos": 0}
            env.active[_task()] = call
            env.rec(e="Call", i=i, req=pdu.hex(), impl=env.impl(), ana=bool(ana), st=env.state(),
                    cls=type(request).__name__, phase=env.phase, ep=ep)
            out, exc = "ret", None
            try:
                return await inner(request, config)
            except Exception as e:  # noqa: BLE001
                out, exc = "exc", repr(e)[:200]
                raise
            except BaseException:
                out = "cancel"
                raise
            finally:
                env.active.pop(_task(), None)
                env.rec(e="Ret", i=i, out=out, exc=exc, impl=env.impl())

        if oem_props:

            async def properties(self, fresh: bool = False, config: Any = None) -> ECUProperties:
                resp = await self.read_data_by_identifier(0xF190, config=config)
                if isinstance(resp, service.NegativeResponse):
                    return _Props(vin="")
                return _Props(vin=bytes(resp.data_record).decode("ascii", "replace"))

    return ObsECU


def _decode_rows(path: Path, t0: float) -> tuple[list[dict[str, Any]], list[int]]:
    con = sqlite3.connect(path)
    try:
        cur = con.execute(
            "SELECT id, run, log_mode, state, request_pdu, request_time, response_pdu, response_time, exception "
            "FROM scan_result ORDER BY id")
        rows = []
        for (rid, run, mode, state, rq, rqt, rs, rst, exc) in cur.fetchall():
            ok = True

            def dec(v: Any) -> list[int]:
                nonlocal ok
                try:
                    if isinstance(v, (bytes, bytearray)):
                        v = bytes(v).decode()
                    if v == "''":
                        return []
                    return list(unhexlify(v))  # the way gallia's own reader (DBUDSServer) decodes the column
                except Exception:  # noqa: BLE001
                    ok = False
                    return []

            req = dec(rq)
            resp = dec(rs) if rs is not None else []
            st = [-2, -2]
            try:
                sd = json.loads(state) if state is not None else {}
                lvl = sd.get("security_access_level", -2)
                st = [int(sd.get("session", -2)), -1 if lvl is None else int(lvl)]
            except Exception:  # noqa: BLE001
                pass

            def us(t: Any) -> int:
                v = int(round((float(t) - t0) * 1e6))
                return max(-1, min(v, 2_000_000_000))

            rows.append({"rid": rid, "run": run, "okDecode": ok, "req": req, "hasResp": rs is not None, "resp": resp,
                         "hasExc": exc is not None, "st": st, "mode": str(mode),
                         "send": us(rqt), "hasRecv": rst is not None, "recv": us(rst) if rst is not None else 0,
                         "exc": None if exc is None else str(exc)[:160]})
        runs = [r[0] for r in con.execute("SELECT id FROM scan_run ORDER BY id").fetchall()]
        return rows, runs
    finally:
        con.close()


def _final_reply(hexdata: str | None) -> bool:
    if not hexdata:
        return False
    b = bytes.fromhex(hexdata)
    return not (len(b) == 3 and b[0] == 0x7F and b[2] in (0x78, 0x21))


def build_trace(env: Env, rows: list[dict[str, Any]], closed: bool, aborted: bool, stray: int) -> dict[str, Any]:
    """Lay the recorded events out as the record of DbLogContract (structural only)."""
    calls: dict[int, dict[str, Any]] = {}
    order: list[int] = []
    for pos, ev in enumerate(env.log):
        e = ev["e"]
        if e == "Call":
            calls[ev["i"]] = {"i": ev["i"], "req0": ev["req"], "writes": [], "replies": [], "out": "cancel",
                              "st0": ev["st"], "st": None, "impl0": ev["impl"], "impl1": ev["impl"],
                              "ana": ev["ana"], "cls": ev["cls"], "phase": ev.get("phase", "main"),
                              "ep": ev.get("ep") or {}, "exc": None, "key": None, "callpos": pos,
                              "open": True, "task": ev["task"], "warn": None}
        elif e == "W" and ev["i"] is None and env.scan is not None:
            raise Machinery(f"a transmission ({ev['data']}) outside any noted call of the ECU client: the harness's "
                            "ECU subclass no longer sees the client's entry points")
        elif e == "W" and ev["i"] in calls:
            c = calls[ev["i"]]
            if not c["writes"]:
                c["st"] = ev["st"]
                c["key"] = pos
            c["writes"].append(ev["data"])
        elif e == "R" and ev["i"] in calls and ev["data"] is not None:
            calls[ev["i"]]["replies"].append(ev["data"])
        elif e == "RR" and ev["i"] in calls:
            calls[ev["i"]]["returned"] = ev["data"]
        elif e == "Warn":
            for c in calls.values():
                if c.get("open") and c["task"] == ev["task"]:
                    c["warn"] = ev["msg"]
        elif e == "Ret" and ev["i"] in calls:
            c = calls[ev["i"]]
            c["open"] = False
            c["out"] = ev["out"]
            c["impl1"] = ev["impl"]
            c["exc"] = ev["exc"]
    for c in calls.values():
        if c["key"] is None:
            c["key"] = c["callpos"]
    order = sorted(calls, key=lambda i: calls[i]["key"])
    exch = []
    meta = []
    for i in order:
        c = calls[i]
        ws = c["writes"]
        if ws and any(w != ws[0] for w in ws):
            raise Machinery(f"one call transmitted different byte strings: {ws}")
        reqhex = ws[0] if ws else (c["req0"] or "")
        impl = "amb" if c["impl0"] != c["impl1"] else ("on" if c["impl0"] else "off")
        exch.append({"req": list(bytes.fromhex(reqhex)), "nw": len(ws),
                     "replies": [list(bytes.fromhex(r)) for r in c["replies"]],
                     "out": c["out"], "st": c["st"] if c["st"] is not None else c["st0"],
                     # the transport handed a final reply (not responsePending / busyRepeatRequest) to the client
                     # before the call ended: the exchange is complete even if the call was cut afterwards
                     "done": _final_reply(c.get("returned")),
                     "impl": impl, "ana": c["ana"],
                     # the call ended with the client's "illegal response" errors: a reply WAS received and refused
                     "illegal": c["out"] == "exc" and str(c["exc"]).startswith(("RequestResponseMismatch", "MalformedResponse"))})
        meta.append({"i": i, "cls": c["cls"], "exc": c["exc"], "warn": c["warn"], "phase": c["phase"], **c["ep"]})
    trows = [{k: r[k] for k in ("okDecode", "req", "hasResp", "resp", "hasExc", "st", "mode", "send", "hasRecv",
                                "recv")} for r in rows]
    return {"exch": exch, "rows": trows, "closed": closed, "aborted": aborted, "stray": stray,
            "meta": meta, "warns": [ev["msg"] for ev in env.log if ev["e"] == "Warn"],
            "aborts": [{"k": ev["k"], "where": ev["where"]} for ev in env.log if ev["e"] == "Abort"],
            "rowexc": [r["exc"] for r in rows], "ep_calls": env.ep_log}


async def _watchdog(env: Env) -> None:
    """Stalled-writer runs: open the gate when main() has ended; if main() itself stops making progress
    (a client that waits for the writer), cancel the run there (a user's Ctrl-C) and open the gate."""
    last, since = -1, time.monotonic()
    while True:
        await asyncio.sleep(0.05)
        if env.gate is None:
            continue
        if not env.in_main:
            env.gate.set()
            return
        if env.points != last:
            last, since = env.points, time.monotonic()
        elif time.monotonic() - since > 1.0:
            env.rec(e="Abort", k=env.points, where="stuck-behind-the-writer")
            assert env.run_task is not None
            env.run_task.cancel()
            env.gate.set()
            return


async def _run_one(hist: list[dict[str, Any]], db: Path, cancel_at: int | None, late: bool,
                   stall: bool | str = False, key: str | None = None,
                   scan: dict[str, Any] | None = None) -> dict[str, Any]:
    env = Env(cancel_at, late, key)
    env.stall = stall
    env.scan = scan
    _CURRENT.append(env)
    real_load_ecu = _uds_cmd.load_ecu
    try:
        if scan is None:
            cfg = UDSScannerConfig(target=TargetURI(env.key), db=db, dumpcap=False, ping=False,
                                   tester_present=False, max_retries=0)
            sc = HistScanner(cfg)
        else:
            env.silent_pings = int(scan.get("ecu", {}).get("silent_pings", 0))
            cfg = UDSScannerConfig(target=TargetURI(env.key), db=db, dumpcap=False, ping=bool(scan.get("ping")),
                                   tester_present=False, max_retries=0, ecu_reset=scan.get("reset"),
                                   properties=scan.get("props", "plain") != "off")
            obs = make_obs_ecu(env, scan.get("props") == "oem")
            _uds_cmd.load_ecu = lambda oem: obs  # type: ignore[assignment]  # stub, this run only
            sc = type("CtorScannerV", (CtorScanner,), {"CTOR_IMPL": scan.get("ctor")})(cfg)
        env.scanner = sc
        sc.env = env
        sc.hist = hist
        task = asyncio.get_running_loop().create_task(sc.entry_point(), name="run")
        env.run_task = task
        wd = asyncio.get_running_loop().create_task(_watchdog(env), name="watchdog") if stall else None
        rc: Any = None
        cancelled = False
        try:
            rc = await task
        except asyncio.CancelledError:
            cancelled = True
        finally:
            if wd is not None:
                wd.cancel()
                try:
                    await wd
                except BaseException:  # noqa: BLE001
                    pass
        h = sc.db_handler
        closed = h is not None and h.connection is None
        leftover = False
        if h is not None and h.connection is not None:
            # the handler was never closed (cancellation landed inside disconnect): hygiene only
            leftover = True
            for t in asyncio.all_tasks():
                if t is not asyncio.current_task() and not t.done():
                    t.cancel()
                    try:
                        await t
                    except BaseException:  # noqa: BLE001
                        pass
            try:
                await h.connection.close()
            except Exception:  # noqa: BLE001
                pass
        return {"env": env, "rc": rc, "cancelled": cancelled, "closed": closed, "leftover": leftover,
                # (a run that ended before main(): the handler still knows its scan run)
                "scan_run": env.scan_run if env.scan_run is not None else getattr(h, "scan_run", None)}
    finally:
        _uds_cmd.load_ecu = real_load_ecu  # type: ignore[assignment]
        _CURRENT.pop()


def run_file(jobs: list[dict[str, Any]]) -> list[dict[str, Any]]:
    """Execute the jobs ({"hist", "cancel_at", "late"}) one after the other on ONE fresh
    database file; returns one trace record per job."""
    install_logging_capture()
    d = tempfile.mkdtemp(prefix="c11-")
    try:
        db = Path(d) / "scan.sqlite"
        t0 = float(int(time.time()) - 1)
        results = []
        Env._n += 1
        key = f"c11://target{Env._n}"  # the runs of one database file scan the SAME target (re-scans)
        for job in jobs:
            results.append(asyncio.run(_run_one(job["hist"], db, job.get("cancel_at"), bool(job.get("late")),
                                                job.get("stall") or False, key, job.get("scan"))))
        rows, runs = _decode_rows(db, t0)
        mine = {r["scan_run"] for r in results if r["scan_run"] is not None}
        stray = sum(1 for r in rows if r["run"] not in mine)
        out = []
        for job, r in zip(jobs, results):
            env: Env = r["env"]
            my = [x for x in rows if x["run"] == r["scan_run"]] if r["scan_run"] is not None else []
            aborted = bool(r["cancelled"]) or any(ev["e"] == "Abort" for ev in env.log)
            tr = build_trace(env, my, bool(r["closed"]), aborted, stray)
            tr["job"] = {"hist": job["hist"], "cancel_at": job.get("cancel_at"), "late": bool(job.get("late")),
                         "stall": job.get("stall") or False, "scan": job.get("scan")}
            tr["main_points"] = env.main_points
            tr["points"] = env.points
            tr["rc"] = r["rc"]
            tr["n_scan_runs"] = len(runs)
            env.dispose()
            out.append(tr)
        return out
    finally:
        shutil.rmtree(d, ignore_errors=True)


def run_hist(hist: list[dict[str, Any]], cancel_at: int | None = None, late: bool = False) -> dict[str, Any]:
    return run_file([{"hist": hist, "cancel_at": cancel_at, "late": late}])[0]
