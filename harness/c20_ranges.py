"""C20, range half: spellings of range-expression ASTs and drivers for the real
parsers (gallia.utils.unravel / unravel_2d / auto_int, gallia.command.config
Ranges / Ranges2D / AutoInt).

The AST and its meaning live in spec/RangeExprContract.tla; this file only
PRINTS an AST in several spellings, calls the real parsers and records what they
returned.  It never judges a result: cases go to TLC (Trace_RangeExpr).

AST (same shape as in the spec, JSON lists):
  item  = [n] | [a, b]           expr  = [item, ...]
  entry = [outer] | [outer, inner]    expr2 = [entry, ...]

A case = {"kind": "r1"|"r2", "ast": ..., "outs": [{"must": bool, "res": ...}]}
holds the DISTINCT outcomes over all spellings x parsers of that AST; `wit[i]`
remembers the first (api, text, nota, ws) that produced outs[i].
"""

from __future__ import annotations

import re

import json
import random
from typing import Any

from pydantic import TypeAdapter

from gallia.command.config import AutoInt, Ranges, Ranges2D
from gallia.utils import auto_int, unravel, unravel_2d

WINDOW = 1 << 30  # numbers handed to TLC must stay below 2^31

R1 = TypeAdapter(Ranges)
R2 = TypeAdapter(Ranges2D)
AI = TypeAdapter(AutoInt)

NOTAS = ("dec", "hex", "HEX", "oct", "bin", "mixed")
_MIX = ("dec", "hex", "oct", "bin", "HEX")


def spell_int(n: int, nota: str, k: int = 0) -> str:
    if nota == "mixed":
        nota = _MIX[k % len(_MIX)]
    if nota == "dec":
        return str(n)
    if nota == "hex":
        return f"{n:#x}"
    if nota == "HEX":
        return "0x" + format(n, "X")
    if nota == "oct":
        return f"{n:#o}"
    if nota == "bin":
        return f"{n:#b}"
    raise ValueError(nota)


class Speller:
    """Prints the numbers of one AST; `base` is added to every number (values
    beyond 2^31 travel to TLC as offsets from `base`)."""

    def __init__(self, nota: str, base: int = 0) -> None:
        self.nota = nota
        self.base = base
        self.k = 0

    def num(self, n: int) -> str:
        s = spell_int(n + self.base, self.nota, self.k)
        self.k += 1
        return s

    def item(self, it: list[int], dash: str = "-") -> str:
        if len(it) == 1:
            return self.num(it[0])
        return self.num(it[0]) + dash + self.num(it[1])

    def items(self, e: list[list[int]], dash: str = "-") -> list[str]:
        return [self.item(it, dash) for it in e]


# ----------------------------------------------------------------------------
# calling the real parsers


def _is_int(x: Any) -> bool:
    return type(x) is int


class _TooLong(Exception):
    pass


_GUARD_HITS = [0]


def _guarded(fn: Any, arg: Any) -> Any:
    """fn(arg) with a 3 s alarm (main thread of a worker process only): a parser that misreads a literal may start
    to enumerate billions of numbers; that call then counts as a rejected text."""
    import signal
    import threading

    if threading.current_thread() is not threading.main_thread():
        return fn(arg)

    def on_alarm(_s: int, _f: Any) -> None:
        raise _TooLong()

    old = signal.signal(signal.SIGALRM, on_alarm)
    # 3 s for the first few calls that need the guard at all (on a conforming tree no call ever does); once calls
    # keep running into it the tree is broken anyway and the remaining ones get 50 ms each
    signal.setitimer(signal.ITIMER_REAL, 3.0 if _GUARD_HITS[0] < 5 else 0.05)
    try:
        return fn(arg)
    except _TooLong:
        _GUARD_HITS[0] += 1
        raise
    finally:
        signal.setitimer(signal.ITIMER_REAL, 0)
        signal.signal(signal.SIGALRM, old)


_TOKEN = re.compile(r"(?<![0-9A-Za-z_])[0-9][0-9A-Za-z_]*")
_LITERAL_OK: dict[str, bool] = {}
SKIPPED_MISREAD = [0]


def _literals_read_right(arg: Any) -> bool:
    """Does gallia's auto_int read every integer literal of the text as the number it spells (Python literal
    semantics, the notation the harness wrote it in)?  The literal family judges exactly that, spelling by
    spelling; a range expression over a misread literal can denote billions of numbers, so it is not expanded
    (counted in SKIPPED_MISREAD) -- the misreading itself is already reported."""
    texts = [arg] if isinstance(arg, str) else [a for a in arg if isinstance(a, str)]
    for t in texts:
        for tok in _TOKEN.findall(t):
            ok = _LITERAL_OK.get(tok)
            if ok is None:
                try:
                    want = int(tok, 0)
                except ValueError:
                    try:
                        want = int(tok, 10)
                    except ValueError:
                        want = None
                try:
                    got = auto_int(tok)
                except Exception:  # noqa: BLE001
                    got = None
                ok = want is None or got is None or got == want
                _LITERAL_OK[tok] = ok
            if not ok:
                return False
    return True


def res1(fn: Any, arg: Any, base: int = 0) -> dict[str, Any]:
    if not _literals_read_right(arg):
        SKIPPED_MISREAD[0] += 1
        return {"t": "bad"}
    try:
        v = _guarded(fn, arg)
    except Exception:  # noqa: BLE001  -- the parser rejected the text
        return {"t": "err"}
    if not isinstance(v, list) or not all(_is_int(x) for x in v):
        return {"t": "bad"}
    w = [x - base for x in v]
    if any(x < 0 or x >= WINDOW for x in w):
        return {"t": "bad"}
    return {"t": "ok", "v": w}


def res2(fn: Any, arg: Any, base: int = 0) -> dict[str, Any]:
    if not _literals_read_right(arg):
        SKIPPED_MISREAD[0] += 1
        return {"t": "bad"}
    try:
        d = _guarded(fn, arg)
    except Exception:  # noqa: BLE001
        return {"t": "err"}
    if not isinstance(d, dict):
        return {"t": "bad"}
    out = []
    for k in sorted(d, key=lambda x: (not _is_int(x), x if _is_int(x) else 0)):
        v = d[k]
        if not _is_int(k) or not (v is None or (isinstance(v, list) and all(_is_int(x) for x in v))):
            return {"t": "bad"}
        kk = k - base
        vv = [] if v is None else [x - base for x in v]
        if kk < 0 or kk >= WINDOW or any(x < 0 or x >= WINDOW for x in vv):
            return {"t": "bad"}
        out.append({"k": kk, "all": v is None, "v": vv})
    return {"t": "ok", "v": out}


PARSERS1 = {
    "unravel": unravel,
    "Ranges[str]": R1.validate_python,
    "Ranges[list]": R1.validate_python,
}
PARSERS2 = {
    "unravel_2d": unravel_2d,
    "Ranges2D[str]": R2.validate_python,
    "Ranges2D[list]": R2.validate_python,
}


def spellings1(e: list[list[int]], base: int = 0, parsers: dict[str, Any] | None = None):
    """(api, fn, argument, must, nota, ws) for every spelling x parser of a 1-D AST.
    must = the spelling is plain grammar (numbers, '-', ',' / one list element per
    item) in one of the four notations; everything else is `unspecified`."""
    P = parsers or PARSERS1
    for nota in NOTAS:
        its = Speller(nota, base).items(e)
        s = ",".join(its)
        yield "unravel", P["unravel"], s, True, nota, "plain"
        yield "Ranges[str]", P["Ranges[str]"], s, True, nota, "plain"
        yield "Ranges[list]", P["Ranges[list]"], list(its), True, nota, "item-per-element"
    its = Speller("mixed", base).items(e)
    s = ",".join(its)
    yield "unravel", P["unravel"], " " + s + " ", False, "mixed", "outer-spaces"
    yield "unravel", P["unravel"], ", ".join(its), False, "mixed", "space-after-comma"
    yield "unravel", P["unravel"], ",".join(Speller("mixed", base).items(e, " - ")), False, "mixed", "spaced-dash"
    yield "Ranges[str]", P["Ranges[str]"], "  " + " ".join(its) + " ", False, "mixed", "space-separated"
    yield "Ranges[str]", P["Ranges[str]"], "\t".join(its), False, "mixed", "tab-separated"
    if len(its) >= 2:
        h = len(its) // 2
        yield "Ranges[list]", P["Ranges[list]"], [",".join(its[:h]), ",".join(its[h:])], False, "mixed", "groups-per-element"
    if not e:
        yield "unravel", P["unravel"], " ", False, "dec", "blank"


def _entry_texts(sp: Speller, e2: list[list[Any]]) -> list[str]:
    out = []
    for en in e2:
        o = ",".join(sp.items(en[0]))
        out.append(o if len(en) == 1 else o + ":" + ",".join(sp.items(en[1])))
    return out


def spellings2(e2: list[list[Any]], base: int = 0, parsers: dict[str, Any] | None = None):
    P = parsers or PARSERS2
    for nota in NOTAS:
        ents = _entry_texts(Speller(nota, base), e2)
        s = " ".join(ents)
        yield "unravel_2d", P["unravel_2d"], s, True, nota, "one-space"
        yield "Ranges2D[str]", P["Ranges2D[str]"], s, True, nota, "one-space"
        yield "Ranges2D[list]", P["Ranges2D[list]"], list(ents), True, nota, "entry-per-element"
    ents = _entry_texts(Speller("mixed", base), e2)
    # the docstring's own example separates entries by two spaces
    yield "unravel_2d", P["unravel_2d"], "  ".join(ents), True, "mixed", "two-spaces"
    yield "Ranges2D[str]", P["Ranges2D[str]"], "  ".join(ents), True, "mixed", "two-spaces"
    yield "unravel_2d", P["unravel_2d"], " " + " ".join(ents) + " ", False, "mixed", "outer-spaces"
    # (a tab between entries is not a spelling of the same AST: "0\t:" reads as key 0 with an
    #  empty inner list, because the numbers' parser skips whitespace -- not generated)
    yield "Ranges2D[str]", P["Ranges2D[str]"], " " + "   ".join(ents) + "  ", False, "mixed", "outer-spaces"


def _show(arg: Any) -> Any:
    return arg if isinstance(arg, str) else list(arg)


def case1(e: list[list[int]], base: int = 0, parsers: dict[str, Any] | None = None) -> dict[str, Any]:
    seen: dict[str, int] = {}
    outs: list[dict[str, Any]] = []
    wit: list[dict[str, Any]] = []
    n = 0
    for api, fn, arg, must, nota, ws in spellings1(e, base, parsers):
        n += 1
        r = res1(fn, arg, base)
        key = ("1" if must else "0") + json.dumps(r, separators=(",", ":"))
        if key not in seen:
            seen[key] = len(outs)
            outs.append({"must": must, "res": r})
            wit.append({"api": api, "text": _show(arg), "nota": nota, "ws": ws})
    return {"kind": "r1", "ast": e, "base": str(base), "outs": outs, "wit": wit, "calls": n}


def case2(e2: list[list[Any]], base: int = 0, parsers: dict[str, Any] | None = None) -> dict[str, Any]:
    seen: dict[str, int] = {}
    outs: list[dict[str, Any]] = []
    wit: list[dict[str, Any]] = []
    n = 0
    for api, fn, arg, must, nota, ws in spellings2(e2, base, parsers):
        n += 1
        r = res2(fn, arg, base)
        key = ("1" if must else "0") + json.dumps(r, separators=(",", ":"))
        if key not in seen:
            seen[key] = len(outs)
            outs.append({"must": must, "res": r})
            wit.append({"api": api, "text": _show(arg), "nota": nota, "ws": ws})
    return {"kind": "r2", "ast": e2, "base": str(base), "outs": outs, "wit": wit, "calls": n}


def limit_worker_memory() -> None:
    """Pool initializer: a parser that misreads a literal can denote a range of billions of numbers; the worker
    then gets MemoryError (recorded as a rejected text and judged) instead of taking the machine down."""
    import resource

    lim = 3 << 30
    _soft, hard = resource.getrlimit(resource.RLIMIT_AS)
    resource.setrlimit(resource.RLIMIT_AS, (lim if hard == resource.RLIM_INFINITY else min(lim, hard), hard))


def run_chunk(job: tuple[int, list[Any]]) -> list[dict[str, Any]]:
    """multiprocessing entry: (dim, [ast, ...]) -> cases"""
    dim, asts = job
    return [case1(a) if dim == 1 else case2(a) for a in asts]


def run_based_chunk(jobs: list[tuple[int, Any, int]]) -> list[dict[str, Any]]:
    """multiprocessing entry: [(dim, ast, base), ...] -> cases"""
    return [case1(a, b) if dim == 1 else case2(a, b) for dim, a, b in jobs]


# ----------------------------------------------------------------------------
# integer literals (any size): (radix, digits) -> text -> auto_int / AutoInt

_DIG = "0123456789abcdef"
_PFX = {10: "", 16: "0x", 8: "0o", 2: "0b"}


def int_spellings(r: int, ds: list[int]):
    """(text, must, form).  must: lower-case prefix, digits in either case."""
    body = "".join(_DIG[d] for d in ds)
    yield _PFX[r] + body, True, "plain"
    if r == 16:
        yield _PFX[r] + body.upper(), True, "upper-digits"
    if r != 10:
        yield _PFX[r].upper() + body, False, "upper-prefix"
    if len(body) >= 2:
        yield _PFX[r] + body[0] + "_" + body[1:], False, "underscore"
    yield " " + _PFX[r] + body + " ", False, "outer-spaces"
    yield "+" + _PFX[r] + body, False, "plus-sign"


def int_res(fn: Any, text: str) -> dict[str, Any]:
    try:
        v = fn(text)
    except Exception:  # noqa: BLE001
        return {"t": "err"}
    if not _is_int(v):
        return {"t": "bad"}
    a = abs(v)
    return {"t": "ok", "neg": v < 0, "dec": [int(c) for c in str(a)], "bin": [int(c) for c in bin(a)[2:]]}


INT_PARSERS = {"auto_int": auto_int, "AutoInt": AI.validate_python}


def case_int(r: int, ds: list[int], parsers: dict[str, Any] | None = None) -> dict[str, Any]:
    P = parsers or INT_PARSERS
    seen: dict[str, int] = {}
    outs: list[dict[str, Any]] = []
    wit: list[dict[str, Any]] = []
    n = 0
    for text, must, form in int_spellings(r, ds):
        for api, fn in P.items():
            n += 1
            res = int_res(fn, text)
            key = ("1" if must else "0") + json.dumps(res, separators=(",", ":"))
            if key not in seen:
                seen[key] = len(outs)
                outs.append({"must": must, "res": res})
                wit.append({"api": api, "text": text, "nota": str(r), "ws": form})
    return {"kind": "int", "r": r, "ds": ds, "outs": outs, "wit": wit, "calls": n}


def digits_of(n: int, r: int) -> list[int]:
    out = [n % r]
    n //= r
    while n:
        out.append(n % r)
        n //= r
    return out[::-1]


# ----------------------------------------------------------------------------
# seeded random ASTs: more items, large values (as offsets from a big base)

BASES = (0, 250, 0xFFF0, (1 << 31) - 40, (1 << 32) - 40, (1 << 63) - 9, (1 << 64) - 3, 10**30)


def rand_expr(rnd: random.Random, maxitems: int, span: int) -> list[list[int]]:
    e = []
    for _ in range(rnd.randint(0, maxitems)):
        a = rnd.randint(0, span)
        c = rnd.random()
        if c < 0.4:
            e.append([a])
        elif c < 0.85:
            e.append([a, a + rnd.randint(0, 40)])
        elif c < 0.93:
            e.append([a, a])
        else:
            e.append([a, max(0, a - rnd.randint(1, 9))])
    return e


def rand_expr2(rnd: random.Random) -> list[list[Any]]:
    e2 = []
    for _ in range(rnd.randint(0, 5)):
        o = rand_expr(rnd, 3, 12)
        if rnd.random() < 0.3:
            e2.append([o])
        else:
            e2.append([o, rand_expr(rnd, 4, 60)])
    return e2


# ----------------------------------------------------------------------------
# mutants of the parsers (binding self-test: TLC must reject what they return)


def mutant_unravel_half_open(listing: str) -> list[int]:
    result: set[int] = set()
    if listing == "" or listing.isspace():
        return []
    for el in listing.split(","):
        if "-" in el:
            a, b = el.split("-")
            result.update(range(auto_int(a), auto_int(b)))
        else:
            result.add(auto_int(el))
    return sorted(result)


def mutant_unravel_2d_last_wins(listing: str) -> dict[int, list[int] | None]:
    out: dict[int, Any] = {}
    for el in listing.split(" "):
        if ":" in el:
            a, b = el.split(":")
            for x in unravel(a):
                out[x] = set(unravel(b))  # forgets earlier entries and 'all'
        else:
            for x in unravel(el):
                out[x] = None
    return {k: None if v is None else sorted(v) for k, v in out.items()}


def mutant_int_decimal_only(text: str) -> int:
    return int(text)
