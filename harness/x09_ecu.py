"""X09 — scripted ECU for the UDS PDU fuzzer, served by the REAL virtual-ECU server loop.

The ECU model is a script over the fuzz requests in the order they reach the ECU (a retry of the
client is a new request at the ECU):

  ["pos"]            positive response of the fuzzed service echoing the request's identifier
  ["neg", nrc]       negative response 7F sid nrc
  ["sil"]            no answer at all (never, so no stale answers exist)
  ["mis", v]         mismatching reply: v=0 positive reply of another service (62 hi lo 00),
                     v=1 positive reply of the right service for ANOTHER identifier,
                     v=2 negative reply naming another service (7F 22 31)
  ["mal", v]         malformed reply: v=0 the positive response id alone, v=1 "7F sid" (no NRC),
                     v=2 positive response id + half an identifier
  ["drop"]           the ECU closes the connection instead of answering
  [.., "fb"]         a trailing "fb" on pos/neg: after answering the ECU falls back to its default session

Everything else (DiagnosticSessionControl, ECUReset, TesterPresent, anything unknown) is answered
deterministically: DSC through gallia's default response chain (sessions of the model exist and can be
entered from everywhere, unless listed in `dsc_neg`: then conditionsNotCorrect), ECUReset positively
(or 7F 11 22 with reset_ok = false), TesterPresent positively, the rest serviceNotSupported.

Every request is recorded as (ground-truth session before, connection number, request, class, answer).
"""

from __future__ import annotations

from typing import Any

from gallia.services.uds.core import service
from gallia.services.uds.core.constants import UDSIsoServices
from gallia.services.uds.server import UDSServer

from harness.c10_stack import _Raw, _is_dsc

HDR = {0x2E: 3, 0x31: 4}

CLASSES_BASIC: list[list[Any]] = [["pos"], ["neg", 0x31], ["neg", 0x33], ["sil"], ["mis", 0], ["mal", 0], ["drop"]]


def positive_for(svc: int, pdu: bytes) -> bytes:
    """ISO 14229-1 positive response layouts of the services used here."""
    if svc == 0x2E:
        return bytes([0x6E]) + bytes(pdu[1:3])
    if svc == 0x22:
        return bytes([0x62]) + bytes(pdu[1:3]) + b"\xca\xfe"
    return bytes([0x71]) + bytes(pdu[1:4])


def answer_for(cls: list[Any], svc: int, pdu: bytes) -> bytes | None:
    k = cls[0]
    if k == "pos":
        return positive_for(svc, pdu)
    if k == "neg":
        return bytes([0x7F, svc, int(cls[1])])
    if k in ("sil", "drop"):
        return None
    if k == "mis":
        v = int(cls[1])
        if v == 0:
            return bytes([0x62]) + bytes(pdu[1:3]) + b"\x00"
        if v == 1:
            p = bytearray(positive_for(svc, pdu))
            p[-1] ^= 0x01
            return bytes(p)
        return bytes([0x7F, 0x22, 0x31])
    if k == "mal":
        v = int(cls[1])
        if v == 0:
            return bytes([svc + 0x40])
        if v == 1:
            return bytes([0x7F, svc])
        return bytes([svc + 0x40]) + bytes(pdu[1:2])
    raise AssertionError(cls)


class FuzzServer(UDSServer):
    """model = {"sessions": [..], "dsc_neg": [..], "reset_ok": bool, "script": [cls, ..], "default": cls,
                "service": 0x2E | 0x31}"""

    def __init__(self, model: dict[str, Any], mutant: str | None = None) -> None:
        super().__init__()
        self.model = model
        self.svc = int(model["service"])
        self.sessions = sorted(int(s) for s in model["sessions"])
        self.dsc_neg = {int(s) for s in model.get("dsc_neg", [])}
        self.reset_ok = bool(model.get("reset_ok", True))
        self.script = [list(c) for c in model.get("script", [])]
        self.default = list(model.get("default", ["pos"]))
        self.mutant = mutant
        self.n_fuzz = 0
        self._after = 1  # ground-truth session after the previous request
        self.conn = 0  # set by the runner on every accepted connection
        self.drop_connection: Any = None  # set by the runner
        self.log: list[dict[str, Any]] = []
        sup: dict[UDSIsoServices, list[int] | None] = {UDSIsoServices.DiagnosticSessionControl: self.sessions}
        self._sup = {s: dict(sup) for s in self.sessions}

    @property
    def supported_services(self) -> dict[int, dict[UDSIsoServices, list[int] | None]]:
        return self._sup

    async def respond_after_default(self, request: service.UDSRequest) -> service.UDSResponse | None:
        return None

    def _rec(self, truth: int, pdu: bytes, cls: str, nrc: int, fb: bool, resp: Any) -> None:
        # ib: the session changed between the previous request and this one (the server loop's
        # inactivity reset): the ECU fell back by itself BEFORE this request
        self.log.append({"t": truth, "c": self.conn, "p": list(pdu), "r": cls, "nrc": nrc, "fb": fb,
                         "ib": truth != self._after, "a": None if resp is None else list(resp.pdu)})
        self._after = self.state.session

    async def respond(self, request: service.UDSRequest) -> Any:
        pdu = bytes(request.pdu)
        truth = self.state.session
        if pdu[0] == self.svc:
            cls = self.script[self.n_fuzz] if self.n_fuzz < len(self.script) else self.default
            self.n_fuzz += 1
            raw = answer_for(cls, self.svc, pdu)
            if self.mutant == "fake-answers-positive-when-scripted-negative" and cls[0] == "neg":
                raw = positive_for(self.svc, pdu)
            fb = cls[-1] == "fb"
            if fb:
                self.state.reset()
            if cls[0] == "drop" and self.drop_connection is not None:
                self.drop_connection()
            resp = None if raw is None else _Raw(raw)
            self._rec(truth, pdu, cls[0], int(cls[1]) if cls[0] == "neg" else 0, fb, resp)
            return resp
        if _is_dsc(pdu):
            if (pdu[1] & 0x7F) in self.dsc_neg:
                resp = _Raw(bytes([0x7F, 0x10, 0x22]))
            else:
                resp = await super().respond(request)  # gallia's default chain + state update
        elif pdu[0] == 0x3E and len(pdu) == 2:
            resp = None if pdu[1] & 0x80 else _Raw(b"\x7e\x00")
        elif pdu[0] == 0x11 and len(pdu) == 2:
            if self.reset_ok:
                self.state.reset()
                resp = _Raw(bytes([0x51, pdu[1]]))
            else:
                resp = _Raw(b"\x7f\x11\x22")
        else:
            resp = _Raw(bytes([0x7F, pdu[0], 0x11]))
        a = None if resp is None else bytes(resp.pdu)
        cls_m = "sil" if a is None else ("neg" if a[0] == 0x7F else "pos")
        self._rec(truth, pdu, cls_m, a[2] if (a is not None and a[0] == 0x7F and len(a) > 2) else 0, False, resp)
        return resp
