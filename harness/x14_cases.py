"""X14 -- families of environments for `discover uds isotp` (plain JSON cases for harness.x14_run.run_case).

Nothing here knows what the scanner should report: the cases only script what is on the bus."""

from __future__ import annotations

import itertools
import random
from typing import Any

TESTER = 0x6F1
BG_ID = 0x100


# ------------------------------------------------------------------ frames (ISO 15765-2)
def sf(p: bytes) -> bytes:
    return bytes([len(p)]) + p


def answer_body(kind: str, pdu: bytes, room: int) -> bytes:
    """Frame bodies (N_PCI + data, without an extended address byte); `room` = bytes available in the frame."""
    sid = pdu[0]
    pos = bytes([(sid + 0x40) & 0xFF]) + pdu[1:2]
    table = {
        "pos": sf(pos),
        "pos_long": sf((pos + b"\x00\x32\x01\xf4")[: room - 1]),
        "neg11": sf(bytes([0x7F, sid, 0x11])),
        "neg12": sf(bytes([0x7F, sid, 0x12])),
        "neg31": sf(bytes([0x7F, sid, 0x31])),
        "neg78": sf(bytes([0x7F, sid, 0x78])),
        "ff": (bytes([0x10, 0x14]) + pos + b"ABCDEF")[:room],
        "fc": bytes([0x30, 0x00, 0x00]),
        "fc_wait": bytes([0x31, 0x00, 0x00]),
        "fc_ovfl": bytes([0x32]),
        "cf": bytes([0x21, 1, 2, 3]),
        "empty": b"",
        "one": b"\x00",
        "garbage": b"\xff" * room,
    }
    return table[kind]


ANSWER_KINDS = ["pos", "pos_long", "neg11", "neg12", "neg31", "neg78", "ff", "fc", "fc_wait", "fc_ovfl", "cf", "empty", "one",
                "garbage"]


def ans_frame(kind: str, pdu: bytes, ta: int | None, pad: int | None = None) -> str:
    room = 8 if ta is None else 7
    body = answer_body(kind, pdu, room)
    d = (bytes([ta]) if ta is not None and kind != "empty" else b"") + body
    if pad is not None and d:
        d = d.ljust(8, bytes([pad]))
    return d.hex()


# ------------------------------------------------------------------ case skeleton
def base_case(start: int, stop: int, *, ext: bool = False, pad: int | None = None, pdu: str = "3e00", sleep: float = 0.01,
              tester: int = TESTER, query: bool = False, did: int = 0xF197, sniff: int = 1, timeout: float = 0.5,
              iface: str = "vcan0", xid: bool = False, fd: bool = False, art: bool = True, db: bool = True,
              origin: str = "") -> dict[str, Any]:
    return {"target": {"iface": iface, "xid": xid, "fd": fd},
            "cfg": {"start": start, "stop": stop, "pad": pad, "pdu": pdu, "sleep": sleep, "ext": ext, "tester": tester,
                    "query": query, "did": did, "sniff": sniff, "timeout": timeout},
            "art": art, "db": db, "bg": [], "ecus": [], "origin": origin}


def ecu(case: dict[str, Any], swept: int, tx: int, ans: list[tuple[int, str]] | list[tuple[int, str, int]], *,
        ta: int | None = None, **kw: Any) -> dict[str, Any]:
    """An ECU that is addressed by the probe of the swept value `swept` and answers on `tx`.
    ans = [(dt ms, frame kind | hex, optional other CAN id)]"""
    c = case["cfg"]
    pdu = bytes.fromhex(c["pdu"])
    ext = bool(c["ext"])
    ta_ = (c["tester"] & 0xFF) if ta is None else ta
    frames = []
    for a in ans:
        dt, what = a[0], a[1]
        d = ans_frame(what, pdu, ta_ if ext else None, kw.get("anspad")) if what in ANSWER_KINDS else what
        f: dict[str, Any] = {"dt": dt, "d": d}
        if len(a) > 2:
            f["tx"] = a[2]  # type: ignore[misc]
        frames.append(f)
    e: dict[str, Any] = {"rx": c["tester"] if ext else swept, "eff": bool(case["target"]["xid"]),
                         "ea": swept if ext else None, "tx": tx, "ta": ta_ if ext else None, "ans": frames}
    for k in ("needpad", "wake", "did", "pdu"):
        if k in kw:
            e[k] = kw[k]
    case["ecus"].append(e)
    return e


def bg(case: dict[str, Any], can_id: int = BG_ID, every: int = 100, first: int = 5, until: int | None = None,
       d: str = "0011223344556677", eff: bool = False) -> None:
    case["bg"].append({"id": can_id, "eff": eff, "first": first, "every": every, "until": until, "d": d})


# ------------------------------------------------------------------ the design layer's behaviours, as bus scripts
DESIGN_BEH = ["silent", "sf", "neg", "ff", "fc", "two", "bcast", "slow", "late", "echo", "echo_sf", "idleans", "gap", "lowid"]
DESIGN_KIND = {"sf": "pos", "neg": "neg11", "ff": "ff", "fc": "fc"}


def design_case(beh: tuple[str, ...], ext: bool, with_bg: bool, pad: int | None = None, first: int = 16) -> dict[str, Any]:
    """The environment the design layer (spec/IsotpDiscover.tla) calls (beh, ext, bg): ids 16.., answers on id + 8
    (second ECU on id + 24), cyclic node 0x100 every 100 ms, --timeout 0.5, --sleep 0.01, --sniff-time 1."""
    c = base_case(first, first + len(beh) - 1, ext=ext, pad=pad, origin=f"design[{','.join(beh)};ext={int(ext)};bg={int(with_bg)}]")
    if with_bg:
        bg(c)
    for i, b in enumerate(beh):
        a = first + i
        rx, rx2, can = a + 8, a + 24, (TESTER if ext else a)
        if b == "silent":
            continue
        if b in DESIGN_KIND:
            ecu(c, a, rx, [(10, DESIGN_KIND[b])])
        elif b == "two":
            ecu(c, a, rx, [(10, "pos"), (20, "pos")])
        elif b == "bcast":
            ecu(c, a, rx, [(10, "pos")])
            ecu(c, a, rx2, [(15, "pos")])
        elif b == "slow":
            ecu(c, a, rx, [(300, "pos")])
        elif b == "late":
            ecu(c, a, rx, [(800, "pos")])
        elif b == "echo":
            ecu(c, a, can, [(5, "pos")])
        elif b == "echo_sf":
            ecu(c, a, rx, [(5, "pos", can), (10, "pos")])
        elif b == "idleans":
            ecu(c, a, BG_ID, [(10, "pos")])
        elif b == "gap":
            ecu(c, a, rx, [(10, "pos"), (115, "pos")])
        elif b == "lowid":
            ecu(c, a, a, [(10, "pos")])
        else:
            raise ValueError(b)
    return c


# ------------------------------------------------------------------ families
def fam_answers(tier: str) -> list[dict[str, Any]]:
    """every kind of answer frame x addressing x padding x position of the ECU in the sweep"""
    out = []
    pdus = ["3e00", "1001", "22f190"] if tier == "thorough" else ["3e00", "1001"]
    for kind, ext, pad, pdu in itertools.product(ANSWER_KINDS, (False, True), (None, 0xAA), pdus):
        for pos in ((0, 1, 2) if tier == "thorough" else (1,)):
            start = 0x20 if ext else 0x7E0
            c = base_case(start, start + 2, ext=ext, pad=pad, pdu=pdu, origin=f"answer[{kind};ext={int(ext)};pad={pad};pdu={pdu};at={pos}]")
            tx = (0x600 | (start + pos)) if ext else start + pos + 8
            ecu(c, start + pos, tx, [(10, kind)], anspad=pad)
            out.append(c)
    return out


def fam_timing(tier: str) -> list[dict[str, Any]]:
    """answer delays around the request timeout x --timeout x --sleep; a second, silent-or-answering neighbour"""
    out = []
    dts = [0, 1, 40, 90, 110, 150, 300, 450, 490, 520, 800, 1500]
    tmos = [0.05, 0.2, 0.5, 2.0]
    sleeps = [0.0, 0.01, 0.3] if tier == "thorough" else [0.01, 0.3]
    for dt, tmo, sl in itertools.product(dts, tmos, sleeps):
        if abs(dt - tmo * 1000) < 8:
            continue
        for nb in (("silent", "pos") if tier == "thorough" else ("silent",)):
            c = base_case(0x7E0, 0x7E3, timeout=tmo, sleep=sl, sniff=0, origin=f"timing[dt={dt};timeout={tmo};sleep={sl};next={nb}]")
            ecu(c, 0x7E1, 0x7E9, [(dt, "pos")])
            if nb == "pos":
                ecu(c, 0x7E2, 0x7EA, [(5, "neg11")])
            out.append(c)
    # several frames from one id with growing gaps (first frame + what follows, repeated responses)
    for gaps in ((10, 20), (10, 60, 110), (10, 95), (10, 115), (10, 125), (10, 250), (5, 6, 7, 8), (10, 118, 226)):
        for sl in (0.01, 0.05):
            c = base_case(0x7E0, 0x7E3, sleep=sl, sniff=0, origin=f"timing[frames-at={gaps};sleep={sl}]")
            ecu(c, 0x7E1, 0x7E9, [(g, "pos" if k == 0 else "cf") for k, g in enumerate(gaps)])
            out.append(c)
    return out


def fam_idle(tier: str) -> list[dict[str, Any]]:
    """cyclic traffic before / during the sweep, ECUs that answer on ids of the idle traffic, traffic that starts late"""
    out = []
    for sniff, every, ext in itertools.product((0, 1, 2), (20, 100, 400, 900), (False, True)):
        start = 0x30 if ext else 0x700
        c = base_case(start, start + 3, ext=ext, sniff=sniff, origin=f"idle[sniff={sniff};every={every};ext={int(ext)}]")
        bg(c, 0x100, every=every, first=every // 2)
        bg(c, 0x2A0, every=every * 2, first=3, d="ff")
        if not ext:
            bg(c, start + 1, every=every, first=7, d="0102030405060708")       # a swept id carries idle traffic
        ecu(c, start, (0x600 | start) if ext else start + 8, [(10, "pos")])
        ecu(c, start + 2, 0x100, [(10, "pos")])                                  # answers on an id of the idle traffic
        ecu(c, start + 3, (0x600 | (start + 3)) if ext else start + 11, [(20, "neg11")])
        out.append(c)
    # many idle ids (filter list of some length)
    for n in (1, 2, 17, 64):
        c = base_case(0x7E0, 0x7E2, sniff=1, origin=f"idle[{n}-ids]")
        for k in range(n):
            bg(c, 0x80 + 3 * k, every=200, first=1 + k, d=f"{k:02x}")
        ecu(c, 0x7E1, 0x7E9, [(10, "pos")])
        ecu(c, 0x7E2, 0x80, [(10, "pos")])
        out.append(c)
    # 29 bit identifiers
    c = base_case(0x18DA10F1, 0x18DA10F4, xid=True, sniff=1, origin="idle[29bit]")
    bg(c, 0x18FEF100, every=100, first=5, eff=True)
    ecu(c, 0x18DA10F2, 0x18DAF110, [(10, "pos")])
    ecu(c, 0x18DA10F3, 0x18FEF100, [(10, "pos")])
    out.append(c)
    # traffic the sniffing could not see: a node that starts later (finite), an ECU woken by its probe (finite / for ever)
    for first, until in ((1300, 1500), (1005, 1200), (1100, 3000)):
        c = base_case(0x7E0, 0x7E4, sniff=1, origin=f"idle[late-node;first={first};until={until}]")
        bg(c, 0x100, every=100)
        bg(c, 0x3C0, every=70, first=first, until=until)
        ecu(c, 0x7E1, 0x7E9, [(10, "pos")])
        ecu(c, 0x7E3, 0x7EB, [(10, "pos")])
        out.append(c)
    for every, n in ((150, 4), (40, 5), (40, -1)):
        c = base_case(0x7E0, 0x7E3, sniff=0, origin=f"idle[woken-ecu;every={every};n={n}]")
        ecu(c, 0x7E1, 0x7E9, [(10, "pos")], wake={"id": 0x4F0, "every": every, "n": n})
        ecu(c, 0x7E3, 0x7EB, [(10, "pos")])
        out.append(c)
    return out


def fam_broadcast(tier: str) -> list[dict[str, Any]]:
    """functional ids: several ECUs answer one probe from different CAN ids"""
    out = []
    for (d1, d2), ext, n in itertools.product(((10, 10), (10, 12), (10, 60), (10, 95), (10, 130), (10, 400), (60, 10)),
                                              (False, True), (2, 3)):
        start = 0x40 if ext else 0x7DE
        c = base_case(start, start + 2, ext=ext, sniff=0, origin=f"broadcast[{d1},{d2};n={n};ext={int(ext)}]")
        for k in range(n):
            ecu(c, start + 1, (0x640 if ext else 0x7E8) + k, [((d1, d2, d2 + 3)[k], "pos")])
        ecu(c, start + 2, 0x655 if ext else 0x7F5, [(10, "pos")])
        out.append(c)
    # the OBD layout: functional id 0x7DF, physical ids 0x7E0..
    c = base_case(0x7DF, 0x7E2, sniff=0, pdu="0100", origin="broadcast[obd]")
    for k in range(3):
        ecu(c, 0x7DF, 0x7E8 + k, [(8 + 3 * k, "pos")])
        ecu(c, 0x7E0 + k, 0x7E8 + k, [(9, "pos")])
    out.append(c)
    return out


def fam_echo(tier: str) -> list[dict[str, Any]]:
    """frames on the CAN id the probe was sent on (another tester, a mirroring gateway), alone or before the answer;
    with extended addressing also an ECU that answers on the CAN id that equals the swept value"""
    out = []
    for ext in (False, True):
        start = 0x50 if ext else 0x7E0
        can = TESTER if ext else start + 1
        for name, frames in (("echo", [(5, "pos", can)]), ("echo+answer", [(5, "pos", can), (10, "pos")]),
                             ("answer+echo", [(5, "pos"), (10, "pos", can)])):
            c = base_case(start, start + 2, ext=ext, sniff=0, origin=f"echo[{name};ext={int(ext)}]")
            ecu(c, start + 1, (0x600 | (start + 1)) if ext else start + 9, frames)
            out.append(c)
    for a in (0x10, 0x51, 0xFF):
        c = base_case(a - 1, a, ext=True, sniff=0, origin=f"echo[answer-on-can-id-equal-to-the-swept-value;ea={a:#x}]")
        ecu(c, a, a, [(10, "pos")])
        out.append(c)
    return out


def fam_config(tier: str) -> list[dict[str, Any]]:
    """ranges at both ends, empty / single ranges, interfaces, tester addresses, paddings, payloads, CAN FD, 29 bit ids"""
    out = []
    for (a, b) in ((0, 2), (0x7FD, 0x7FF), (0x123, 0x123), (5, 4), (0x6F0, 0x6F2)):
        c = base_case(a, b, sniff=0, origin=f"config[range={a:#x}..{b:#x}]")
        if b >= a:
            ecu(c, a, 0x7A0, [(10, "pos")])
            ecu(c, b, 0x7A1, [(10, "neg11")])
        out.append(c)
    for (a, b) in ((0, 2), (0xFD, 0xFF), (0x80, 0x80), (9, 8)):
        for tester in (0x6F1, 0x7DF, 0x100):
            c = base_case(a, b, ext=True, tester=tester, sniff=0, origin=f"config[ext-range={a:#x}..{b:#x};tester={tester:#x}]")
            if b >= a:
                ecu(c, a, 0x600 | a, [(10, "pos")])
                ecu(c, b, 0x600 | b, [(10, "neg11")], ta=0x55 if tester == 0x100 else None)
            out.append(c)
    for iface in ("vcan0", "can1", "slcan0", "vxcan12"):
        c = base_case(0x7E0, 0x7E1, iface=iface, sniff=0, origin=f"config[iface={iface}]")
        ecu(c, 0x7E0, 0x7E8, [(10, "pos")])
        out.append(c)
    for pad, ext, needpad in itertools.product((None, 0x00, 0x55, 0xAA, 0xCC, 0xFF), (False, True), (False, True)):
        start = 0x60 if ext else 0x7E0
        c = base_case(start, start + 1, ext=ext, pad=pad, sniff=0, query=True,
                      origin=f"config[pad={pad};ext={int(ext)};ecu-needs-padding={int(needpad)}]")
        ecu(c, start, (0x600 | start) if ext else 0x7E8, [(10, "pos")], needpad=needpad, anspad=pad,
            did={"resp": "62f197414243", "dt": 5})
        out.append(c)
    for pdu, ext in itertools.product(("3e00", "1001", "1003", "3e80", "22f190", "190209ff", "2e123401020304", "31010203040506ff"),
                                      (False, True)):
        start = 0x70 if ext else 0x7E0
        c = base_case(start, start + 1, ext=ext, pdu=pdu, sniff=0, origin=f"config[pdu={pdu};ext={int(ext)}]")
        ecu(c, start, (0x600 | start) if ext else 0x7E8, [(10, "pos")], pdu=pdu if len(pdu) <= 12 else None)
        out.append(c)
    for fd, ansfd in ((True, False), (True, True), (False, True)):
        c = base_case(0x7E0, 0x7E2, fd=fd, sniff=1, origin=f"config[fd={int(fd)};answer-fd={int(ansfd)}]")
        bg(c)
        e = ecu(c, 0x7E1, 0x7E9, [(10, "pos")])
        e["ans"][0]["fd"] = ansfd
        out.append(c)
    for art, db in ((True, False), (False, True), (False, False)):
        c = base_case(0x7E0, 0x7E2, art=art, db=db, sniff=0, query=True, origin=f"config[art={int(art)};db={int(db)}]")
        ecu(c, 0x7E1, 0x7E9, [(10, "pos")], did={"resp": "62f19741", "dt": 5})
        out.append(c)
    c = base_case(0x18DB33F1, 0x18DB33F3, xid=True, fd=True, pad=0xCC, sniff=0, origin="config[29bit+fd+pad]")
    ecu(c, 0x18DB33F2, 0x18DAF110, [(10, "pos")])
    out.append(c)
    return out


def fam_query(tier: str) -> list[dict[str, Any]]:
    """--query: ECUs that answer the info DID positively (short / long), negatively, not at all; other DIDs"""
    out = []
    resps = {"pos": "62f1974142", "long": "62f197" + "41" * 40, "neg": "7f2231", "pending": "7f2278", "sil": "sil", "odd": "7e00"}
    for (r1, r2), ext in itertools.product(itertools.product(resps, repeat=2), (False, True)):
        start = 0x20 if ext else 0x7E0
        c = base_case(start, start + 3, ext=ext, sniff=0, query=True, origin=f"query[{r1},{r2};ext={int(ext)}]")
        ecu(c, start, (0x600 | start) if ext else start + 8, [(10, "pos")], did={"resp": resps[r1], "dt": 5})
        ecu(c, start + 2, (0x600 | (start + 2)) if ext else start + 10, [(10, "neg11")], did={"resp": resps[r2], "dt": 50})
        out.append(c)
    for did in (0xF190, 0x0000, 0xFFFF, 0xF1A0):
        c = base_case(0x7E0, 0x7E1, sniff=0, query=True, did=did, origin=f"query[did={did:#06x}]")
        ecu(c, 0x7E0, 0x7E8, [(10, "pos")], did={"resp": f"62{did:04x}31", "dt": 5})
        out.append(c)
    c = base_case(0x7E0, 0x7E2, sniff=0, query=False, origin="query[off]")
    ecu(c, 0x7E0, 0x7E8, [(10, "pos")], did={"resp": "62f19741", "dt": 5})
    out.append(c)
    return out


RANDOM_KINDS = ["pos", "neg11", "neg78", "ff", "fc", "cf", "empty", "garbage", "pos_long"]


def fam_random(tier: str, seed: int) -> list[dict[str, Any]]:
    rnd = random.Random(seed * 7919 + 14)
    out = []
    for n in range(4000 if tier == "thorough" else 160):
        ext = rnd.random() < 0.4
        ln = rnd.randint(1, 7)
        start = rnd.randint(0, 0xFF - ln) if ext else rnd.choice([0x100, 0x6F0, 0x7D8, 0x7E0, rnd.randint(0, 0x7F0)])
        pad = rnd.choice([None, None, 0xAA, 0x55, 0x00])
        tmo = rnd.choice([0.1, 0.2, 0.5, 0.5, 1.0])
        c = base_case(start, start + ln - 1, ext=ext, pad=pad, pdu=rnd.choice(["3e00", "1001", "1003", "22f190"]),
                      sleep=rnd.choice([0.0, 0.01, 0.01, 0.05]), sniff=rnd.choice([0, 1, 1, 2]), timeout=tmo,
                      query=rnd.random() < 0.3, origin=f"random[{seed}:{n}]")
        if rnd.random() < 0.7:
            for _ in range(rnd.randint(1, 4)):
                bg(c, rnd.choice([0x080, 0x100, 0x1A0, 0x2B0, 0x3C0, 0x5D0]), every=rnd.choice([20, 50, 100, 300, 700]),
                   first=rnd.randint(1, 90))
        used_tx: set[int] = set()
        for k in range(ln):
            a = start + k
            r = rnd.random()
            if r < 0.45:
                continue
            tx = (0x600 | a) if ext else (a + 8 if a + 8 < 0x7FF and not (start <= a + 8 < start + ln) else 0x500 + k)
            if rnd.random() < 0.06:
                tx = rnd.choice([0x100, 0x1A0])                           # answers on a (possibly idle) background id
            dt = rnd.choice([0, 2, 10, 10, 30, 70, 90, 130, 250, 420, 700, 1200])
            if abs(dt - tmo * 1000) < 8:
                dt += 20
            frames: list[Any] = [(dt, rnd.choice(RANDOM_KINDS))]
            if rnd.random() < 0.25:
                frames.append((dt + rnd.choice([1, 10, 50, 97, 113, 140, 300]), rnd.choice(["cf", "pos", "fc"])))
            ecu(c, a, tx, frames, anspad=pad if rnd.random() < 0.5 else None, needpad=(pad is not None and rnd.random() < 0.2),
                did={"resp": rnd.choice(["62f19741", "7f2231", "sil"]), "dt": rnd.choice([1, 20, 500])})
            used_tx.add(tx)
            if rnd.random() < 0.12:                                       # a second ECU on the same request id
                ecu(c, a, tx + 0x10, [(dt + rnd.choice([0, 3, 40, 150]), "pos")])
        out.append(c)
    return out


def pure_cases(tier: str, seed: int) -> list[dict[str, Any]]:
    out: list[dict[str, Any]] = []
    ids11 = [0, 1, 0x7E0, 0x7DF, 0x7FF, 0x100, 0x555, 0x2AA]
    ids29 = [0, 1, 0x7FF, 0x800, 0x18DAF110, 0x18DB33F1, 0x1FFFFFFF, 0x15555555, 0x0AAAAAAA, 0x10000000, 0x00FF00FF]
    datas = ["", "00", "023e00", "0011223344556677", "ffffffffffffffff", "3000", "aa" * 8]
    fdlens = [0, 1, 8, 12, 16, 20, 24, 32, 48, 64]
    for eff in (False, True):
        for i in (ids29 if eff else ids11):
            for d in datas:
                for rtr, err in ((False, False), (True, False), (False, True)):
                    if rtr and d:
                        continue
                    out.append({"kind": "pack", "id": i, "eff": eff, "rtr": rtr, "err": err, "fd": False, "d": d})
            for n in fdlens:
                for brs, esi in ((False, False), (True, False), (False, True), (True, True)):
                    out.append({"kind": "pack", "id": i, "eff": eff, "rtr": False, "err": False, "fd": True, "brs": brs,
                                "esi": esi, "d": bytes((7 * k + n) & 0xFF for k in range(n)).hex()})
    rnd = random.Random(seed + 1400)
    for _ in range(2000 if tier == "thorough" else 150):
        eff = rnd.random() < 0.5
        fd = rnd.random() < 0.4
        n = rnd.choice(fdlens) if fd else rnd.randint(0, 8)
        out.append({"kind": "pack", "id": rnd.getrandbits(29 if eff else 11), "eff": eff, "rtr": False, "err": rnd.random() < 0.1,
                    "fd": fd, "brs": fd and rnd.random() < 0.5, "esi": fd and rnd.random() < 0.5, "d": rnd.randbytes(n).hex()})
    for i in sorted(set(ids11 + ids29 + [0xF, 0x10, 0xFF, 0xFFF, 0x1000, 0xABC, 0xABCDEF] + [rnd.getrandbits(29) for _ in range(40)])):
        out.append({"kind": "repr", "i": i})
    for target, start, stop, ext in itertools.product(("can-raw://vcan0", "can-raw://can0?is_extended=true", "isotp://vcan0?src_addr=1&dst_addr=2",
                                                       "tcp-lines://127.0.0.1:20162", "doip://127.0.0.1:13400?src_addr=1&target_addr=2"),
                                                      (0, 0xFF, 0x100, 0x7E0), (0, 0xFF, 0x100, 0x7FF), (False, True)):
        out.append({"kind": "cfgcheck", "target": target, "start": start, "stop": stop, "ext": ext})
    for n, c in enumerate(out):
        c["origin"] = f"{c['kind']}[{n}]"
    return out
