"""X24 case families enumerated on the Python side (in addition to the cases TLC enumerates from MC_EcuHelpers_*.cfg)
and the conversion of TLC-printed case records into the dicts harness/x24_run.py executes."""

from __future__ import annotations

import json
import random
from typing import Any

# ISO 14229-1 Annex A (the same table as EcuHelpersContract!IsoNrc; used only to BUILD cases, never to judge)
ISO_NRCS = ([0x10, 0x11, 0x12, 0x13, 0x14, 0x21, 0x22, 0x24, 0x25, 0x26, 0x31] + list(range(0x33, 0x3B)) + list(range(0x50, 0x5E))
            + list(range(0x70, 0x74)) + [0x78, 0x7E, 0x7F] + list(range(0x81, 0x8E)) + list(range(0x8F, 0x95)) + list(range(0xF0, 0xFF)))
WIRE = {"ping": [0x3E, 0x00], "read_session": [0x22, 0xF1, 0x86], "read_dtc": [0x19, 0x02, 0xFF],
        "clear_dtc": [0x14, 0xFF, 0xFF, 0xFF], "read_vin": [0x22, 0xF1, 0x90]}
POS = {"ping": [0x7E, 0x00], "read_session": [0x62, 0xF1, 0x86, 0x02], "read_dtc": [0x59, 0x02, 0x2F, 0x01, 0x02, 0x03, 0x2F],
       "clear_dtc": [0x54], "read_vin": [0x62, 0xF1, 0x90] + list(b"WAUZZZ8V5KA000001")}
ALPHABET = ["s1", "s2", "stop", "sync", "wait", "fg", "eA", "eS", "eC", "eN"]
INIT = ["answer", "silent", "connerr", "nrc"]


def from_tlc(c: dict[str, Any]) -> dict[str, Any]:
    """A case record printed by TLC (tlc.parse_value) -> the dict the drivers take."""
    out = json.loads(json.dumps(c))
    out["origin"] = "tlc"
    return out


def key(case: dict[str, Any]) -> str:
    return json.dumps({k: v for k, v in case.items() if k != "origin"}, sort_keys=True)


def call_extra(tier: str, seed: int) -> list[dict[str, Any]]:
    rnd = random.Random(seed * 7919 + 24)
    out: list[dict[str, Any]] = []
    states = [(3, 1)] if tier == "quick" else [(1, -1), (3, 1), (2, 5)]

    def add(m: str, ans: list[list[int]], st: tuple[int, int] = (3, 1), cfg: int = -1, tmo: int = 500) -> None:
        out.append({"kind": "call", "m": m, "s0": st[0], "sec0": st[1], "tmo": tmo, "cfg": cfg, "ans": ans, "origin": "enum"})

    for m, w in WIRE.items():
        sid = w[0]
        for st in states:
            for n in ISO_NRCS:
                if n != 0x78:
                    add(m, [[0x7F, sid, n]], st)
        pend = [0x7F, sid, 0x78]
        add(m, [pend, pend, pend, POS[m]])
        add(m, [pend, [], [], pend, POS[m]])
        add(m, [pend, [0x7F, sid, 0x22]])
        add(m, [POS[m]], tmo=300, cfg=700)      # a config timeout LONGER than the client's
        add(m, [[]], tmo=300, cfg=700)
        add(m, [[]], tmo=2000, cfg=100)
        # reserved NRCs, odd lengths, foreign bytes: mostly `unspecified` for the contract, must not crash the monitor
        add(m, [[0x7F, sid, 0x99]])
        add(m, [[0x7F, sid]])
        add(m, [[0x7F]])
        add(m, [POS[m] + [0x00]])
        for _ in range(4 if tier == "quick" else 40):
            n = rnd.randrange(1, 8)
            first = rnd.choice([sid + 0x40, 0x7F, rnd.randrange(256)])
            add(m, [[first] + [rnd.randrange(256) for _ in range(n - 1)]])
    add("read_session", [[0x62, 0xF1, 0x86, 0x01, 0x02]])
    add("read_session", [[0x62, 0xF1, 0x86, 0x03]], st=(3, 1))       # same session: security level kept
    add("read_dtc", [[0x59, 0x02, 0xFF, 1, 2, 3, 8, 1, 2, 3, 9]])       # duplicate DTC (C02's known finding): unspecified here
    for m in ("properties", "pre", "post"):
        add(m, [], st=(2, 5))
    return out


def stack_cases(tier: str) -> list[dict[str, Any]]:
    seeds = range(4) if tier == "quick" else range(40)
    return [{"kind": "stack", "m": m, "seed": s, "origin": "enum"} for s in seeds for m in WIRE]


def helper_extra(tier: str) -> list[dict[str, Any]]:
    out: list[dict[str, Any]] = []
    for fn in ("service", "subfunc", "ident"):
        for n in range(256) if tier == "thorough" else (0x00, 0x0F, 0x15, 0x32, 0x8E, 0x95, 0xFF):
            out.append({"kind": "sugg", "fn": fn, "form": "code", "nrc": n, "origin": "enum"})
            out.append({"kind": "sugg", "fn": fn, "form": "neg", "nrc": n, "origin": "enum"})
    for m in WIRE:
        for n in (0x11, 0x31, 0x7F):
            out.append({"kind": "exc", "fn": "raise_for_error", "pos": False, "nrc": n, "trig": True, "msg": True, "m": m,
                        "origin": "enum"})
    pool = [POS[m] for m in WIRE] + [[0x7F, w[0], 0x31] for w in WIRE.values()] + [[0x7F, w[0], 0x78] for w in WIRE.values()]
    pool += [[0x62, 0xF1, 0x86, 0x01], [0x59, 0x01, 0xFF, 0x01, 0x00, 0x02], [0x51, 0x01], [0x7F, 0x11, 0x22], [0x67, 0x01, 1, 2]]
    for m in WIRE:
        for r in pool:
            out.append({"kind": "mm", "m": m, "respb": r, "origin": "enum"})
    for s in (1, 2, 0x7E, 0xFF):
        for sec in (-1, 0, 1, 0x41):
            out.append({"kind": "state", "op": "reset", "s": s, "sec": sec, "origin": "enum"})
            out.append({"kind": "state", "op": "json", "s": s, "sec": sec, "origin": "enum"})
    fields = [{"k": "serial", "t": "bytes", "b": list(range(250, 256)) + [0, 1, 0x0A, 0xA0]},
              {"k": "Zulu", "t": "int", "i": 0}, {"k": "_x", "t": "none"}, {"k": "ecu", "t": "str", "s": "motor \"1\""},
              {"k": "blobs", "t": "lbytes", "l": [[255], [], [0, 0]]}, {"k": "col", "t": "enums", "s": "deep-blue"},
              {"k": "num", "t": "enumi", "i": 0}, {"k": "aa", "t": "bytes", "b": []}]
    for ind in (-1, 2):
        out.append({"kind": "json", "indent": ind, "fields": fields, "origin": "enum"})
        out.append({"kind": "json", "indent": ind, "fields": list(reversed(fields))[:5], "origin": "enum"})
    return out


def life_extra(tier: str, seed: int) -> list[dict[str, Any]]:
    rnd = random.Random(seed * 104729 + 24)
    out: list[dict[str, Any]] = []
    fixed = [
        ("silent", ["s1", "sync", "stop", "eA", "fg", "wait"]),
        ("answer", ["s1", "eS", "sync", "stop", "s2", "eA"]),
        ("answer", ["s1", "eC", "wait", "eA", "stop"]),
        ("answer", ["s2", "eN", "fg", "eS", "fg", "stop"]),
        ("connerr", ["s1", "wait", "wait", "stop", "stop"]),
        ("answer", ["s1", "stop", "s1", "stop", "s2", "stop"]),
    ]
    for init, s in fixed:
        out.append({"kind": "life", "tmo": 500, "init": init, "script": s, "origin": "enum"})
    for _ in range(100 if tier == "quick" else 1500):
        n = rnd.randrange(4, 8)
        s = [rnd.choice(ALPHABET) for _ in range(n)]
        if not any(x in ("s1", "s2") for x in s):
            s[rnd.randrange(n)] = "s1"
        out.append({"kind": "life", "tmo": rnd.choice([500, 300]), "init": rnd.choice(INIT), "script": s, "origin": "seeded"})
    return out


def life_sig(script: list[str]) -> dict[str, Any]:
    """Input class of a life-cycle script in the user's terms (names the call pattern, does not judge)."""
    en, ever, double, resurrect = False, False, False, False
    for op in script:
        if op in ("s1", "s2"):
            double = double or en
            en, ever = True, True
        elif op == "stop":
            en = False
        elif op == "wait" and ever and not en:
            resurrect = True
    return {"kind": "life", "start_while_running": double, "wait_for_ecu_after_stop": resurrect}
