"""X16 case families (descriptions only; harness/x16_run.py executes them).

cls   Dumpcap.start / sync / stop against a scripted fake `dumpcap`
scan  a complete run of a Scanner subclass with --dumpcap / --no-dumpcap against a TCP listener on the loopback interface
"""

from __future__ import annotations

import itertools
import random
from typing import Any

HEALTHY: dict[str, Any] = {"ready": "header", "start_ms": 0, "chunks": [[48, 0], [1200, 0]], "then": "idle",
                           "on_term": "exit", "tail": 0, "life_s": 150}


def script(**kw: Any) -> dict[str, Any]:
    s = dict(HEALTHY)
    s.update(kw)
    if s["on_term"] != "tail":
        s["tail"] = 0
    return s


# --------------------------------------------------------------------------- A: the command line, every scheme
DOIP_QS = "src_addr=0x0e00&target_addr=0x1d"
HSFZ_QS = "src_addr=0xf4&dst_addr=0x1d"


def uris(tier: str) -> list[tuple[str, str]]:
    out: list[tuple[str, str]] = []
    v4 = ["127.0.0.1", "192.0.2.7", "169.254.100.100"]
    v6 = ["[::1]", "[2001:db8::7]", "[fd00::5]"]
    ports = [1, 1234, 13400, 6801, 65535] if tier == "quick" else [1, 22, 80, 1023, 1024, 1234, 6801, 6802, 13400, 13401,
                                                                    20162, 32768, 49152, 61001, 65534, 65535]
    for sch in ("tcp", "tcp-lines"):
        for h in v4 + v6 + (["localhost"] if sch == "tcp-lines" else []):
            for p in (ports if h in ("127.0.0.1", "[::1]") else ports[1:2]):
                out.append((f"{sch}://{h}:{p}", f"{sch}-port"))
    for h in v4 + v6:
        out.append((f"doip://{h}:13400?{DOIP_QS}", "doip-port"))
        out.append((f"doip://{h}?{DOIP_QS}", "doip-noport"))
        out.append((f"hsfz://{h}:6801?{HSFZ_QS}", "hsfz-port"))
        out.append((f"hsfz://{h}?{HSFZ_QS}", "hsfz-noport"))
    out.append((f"doip://192.0.2.7:13401?{DOIP_QS}", "doip-port"))
    out.append((f"hsfz://[fd00::5]:6811?{HSFZ_QS}", "hsfz-port"))
    out.append((f"doip://localhost:13400?{DOIP_QS}", "doip-port"))
    # CAN: interface + identifiers (docs/transports.md: "int (use 0x prefix for hex values)")
    ids = [0x0, 0x1, 0xFF, 0x100, 0x101, 0x6F4, 0x654, 0x7DF, 0x7E0, 0x7E8, 0x7FF, 0x707, 0x123]
    if tier == "quick":
        pairs = [(0x6F4, 0x654), (0x7E0, 0x7E8), (0x0, 0x7FF), (0x1, 0x100), (0xFF, 0x101), (0x707, 0x123), (0x7DF, 0x7E8)]
    else:
        pairs = [(a, b) for a, b in itertools.product(ids, ids) if a != b][::3] + [(i, 0x7FF - i) for i in range(0, 0x400, 7)]
    for a, b in pairs:
        out.append((f"isotp://can0?src_addr={a:#x}&dst_addr={b:#x}", "isotp"))
    out.append(("isotp://vcan7?src_addr=1780&dst_addr=1620", "isotp"))  # decimal
    out.append(("isotp://can0?src_addr=0x6f4&dst_addr=0x654&rx_ext_address=0xf4&ext_address=0x54&is_fd=false", "isotp"))
    out.append(("isotp://can0?src_addr=0x18da10f1&dst_addr=0x18daf110&is_extended=true", "isotp-extended"))
    out.append(("isotp://can0?src_addr=0x800&dst_addr=0x7ff", "isotp-extended"))
    out.append(("can-raw://can1?is_fd=true", "can-raw"))
    out.append(("can-raw://vcan0?src_addr=0x6f4&dst_addr=0x654", "can-raw"))
    out.append(("can-raw://can1?src_addr=0x6f4", "can-raw"))
    out.append(("tcp-lines://127.0.0.1", "noport-nodefault"))  # no port, no default: the transport cannot connect either
    out.append(("tcp-lines://no-such-host.invalid:1234", "unresolvable"))
    out.append(("unix-lines:///tmp/x16-nonexistent.sock", "unix"))
    out.append(("unix:///tmp/x16-nonexistent.sock", "unix"))
    return out


def cmdline_cases(tier: str) -> list[dict[str, Any]]:
    return [{"kind": "cls", "uri": u, "script": script(), "cleanup_ms": 30, "sync": "long", "stream_seed": 3,
             "origin": f"cmd[{cls}] {u}"} for u, cls in uris(tier)]


# --------------------------------------------------------------------------- B: the life cycle
URI = "tcp-lines://127.0.0.1:20162"

FLOW = [[48, 0]] + [[4096, 4]] * 150  # ~0.6 MB over >= 0.6 s
BIG = [[48, 0], [300_000, 0], [200_000, 2], [65_536, 0], [65_537, 0], [1, 0], [400_000, 0]]  # far beyond a pipe buffer
SMALL = [[48, 0], [700, 1], [1, 0], [2, 0]]


def life_cases(tier: str, seed: int) -> list[dict[str, Any]]:
    rnd = random.Random(seed)
    out: list[dict[str, Any]] = []

    def add(origin: str, sc: dict[str, Any], **kw: Any) -> None:
        out.append({"kind": "cls", "uri": URI, "script": sc, "cleanup_ms": kw.pop("cleanup_ms", 50), "sync": kw.pop("sync", "long"),
                    "stream_seed": rnd.randrange(1, 10_000), "origin": origin, **kw})

    # healthy process: every reaction to the signal x every moment of stop()
    for on_term in ("exit", "tail", "ignore"):
        tails = [0] if on_term != "tail" else [1, 7777, 200_000]
        for tail in tails:
            add(f"idle/{on_term}/{tail}", script(chunks=SMALL, on_term=on_term, tail=tail), stop_when={"wrote": 751})
            add(f"at-once/{on_term}/{tail}", script(chunks=FLOW, on_term=on_term, tail=tail))
            add(f"flowing/{on_term}/{tail}", script(chunks=FLOW, on_term=on_term, tail=tail), stop_when={"wrote": 60_000})
            add(f"big/{on_term}/{tail}", script(chunks=BIG, on_term=on_term, tail=tail), stop_when={"wrote": 900_000})
    add("cleanup-default/tail", script(chunks=FLOW, on_term="tail", tail=5000), cleanup_ms=None, stop_when={"wrote": 30_000})
    add("cleanup-300/exit", script(chunks=FLOW, on_term="exit"), cleanup_ms=300, stop_when={"wrote": 30_000})
    add("cleanup-0/tail", script(chunks=SMALL, on_term="tail", tail=9), cleanup_ms=0, stop_when={"wrote": 751})
    # the capture ends by itself (interface went down) while the caller is busy: gated, so that it happens after sync()
    for code in (0, 1):
        for on_term in ("exit", "ignore"):
            add(f"self-exit/{code}/{on_term}", script(chunks=SMALL + [[30_000, 0]], then="exit", exit_code=code, on_term=on_term,
                                                      gate_after=1), stop_when={"go": True, "exit": True})
    add("self-exit/flowing", script(chunks=FLOW, then="exit", exit_code=1, gate_after=0), stop_when={"go": True, "wrote": 100_000})
    # ... or within the start-up phase (whether start() still sees it alive depends on the machine: both are fine)
    add("self-exit/early/1", script(chunks=SMALL, then="exit", exit_code=1))
    add("self-exit/early/0", script(chunks=SMALL, then="exit", exit_code=0))
    # never ready / dies at once / slow
    for on_term in ("exit", "tail", "ignore"):
        add(f"never/{on_term}", script(ready="never", on_term=on_term, tail=333), sync="default")
    for code in (1, 2, 255):
        add(f"die/{code}", script(ready="die", die_code=code), sync="default")
    add("slow-start/long-sync", script(start_ms=1500, chunks=SMALL, on_term="tail", tail=5))
    add("slow-start/default-sync", script(start_ms=2500, chunks=SMALL, on_term="tail", tail=5), sync="default")
    # no executable
    add("no-executable", script(), path="none")
    add("not-executable", script(), path="noexec")
    add("no-executable/can", script(), path="none", uri="isotp://can0?src_addr=0x6f4&dst_addr=0x654")
    out[-1]["uri"] = "isotp://can0?src_addr=0x6f4&dst_addr=0x654"
    # seeded variety: chunk sizes, pauses, tails, moments
    n = 24 if tier == "quick" else 900
    for k in range(n):
        nch = rnd.randrange(1, 40)
        chunks = [[48, 0]] + [[rnd.choice([1, 2, 100, 1500, 4096, 65_535, 65_536, 65_537, 100_000]), rnd.choice([0, 0, 1, 3, 10])]
                              for _ in range(nch)]
        total = sum(c[0] for c in chunks)
        on_term = rnd.choice(["exit", "tail", "tail", "ignore"])
        sc = script(chunks=chunks, on_term=on_term, tail=rnd.choice([1, 500, 70_000]))
        when: dict[str, Any] = rnd.choice([{}, {"wrote": total // 2}, {"wrote": total}, {"after_ms": rnd.randrange(1, 60)}])
        if rnd.random() < 0.25:
            sc.update(then="exit", exit_code=rnd.choice([0, 1, 3]), gate_after=0)
            when = {"go": True, "exit": True} if rnd.random() < 0.5 else {"go": True, "wrote": total // 2}
        add(f"seeded[{k}]", sc, stop_when=when, cleanup_ms=rnd.choice([0, 20, 50, 120]))
    return out


# --------------------------------------------------------------------------- C: Scanner --dumpcap
def scan_cases(tier: str, seed: int) -> list[dict[str, Any]]:
    rnd = random.Random(seed + 17)
    out: list[dict[str, Any]] = []

    def add(origin: str, sc: dict[str, Any], **kw: Any) -> None:
        out.append({"kind": "scan", "script": sc, "stream_seed": rnd.randrange(1, 10_000), "origin": f"scan/{origin}", **kw})

    flow = script(chunks=FLOW, on_term="tail", tail=4321)
    hosts = ["127.0.0.1", "::1", "localhost"]
    mains = ["ok", "conn", "rt", "exit"]
    combos = list(itertools.product(hosts, mains)) if tier == "thorough" else [("127.0.0.1", "ok"), ("::1", "conn"), ("localhost", "rt"),
                                                                              ("127.0.0.1", "exit"), ("::1", "ok")]
    for h, m in combos:
        add(f"healthy/{h}/{m}", flow, host=h, main={"how": m, "wait_wrote": 50_000})
    add("healthy/exit-at-once", script(chunks=SMALL, on_term="exit"), host="127.0.0.1", main={"how": "ok"})
    add("healthy/dumpcap=True", flow, host="127.0.0.1", dumpcap=True, main={"how": "ok", "wait_wrote": 20_000})
    for m in (["ok", "conn"] if tier == "quick" else mains):
        add(f"self-exit/{m}", script(chunks=SMALL + [[20_000, 0]], then="exit", exit_code=1, gate_after=1), host="127.0.0.1",
            main={"how": m, "go": True, "wait_exit": True})
    add("self-exit/code0", script(chunks=SMALL + [[20_000, 0]], then="exit", exit_code=0, gate_after=1), host="::1",
        main={"how": "ok", "go": True, "wait_exit": True})
    add("die", script(ready="die", die_code=2), host="127.0.0.1", main={"how": "ok"})
    add("never", script(ready="never"), host="127.0.0.1", main={"how": "ok"})
    add("no-executable", script(), host="127.0.0.1", path="none", main={"how": "ok"})
    add("not-executable", script(), host="::1", path="noexec", main={"how": "ok"})
    add("no-dumpcap", flow, host="127.0.0.1", dumpcap=False, main={"how": "ok"})
    add("no-dumpcap/no-executable", flow, host="127.0.0.1", dumpcap=False, path="none", main={"how": "conn"})
    add("no-artifacts", flow, host="127.0.0.1", art=False, main={"how": "ok"})
    add("unix-lines", flow, scheme="unix-lines", main={"how": "ok"})
    add("refused", flow, host="127.0.0.1", connect="refused", main={"how": "ok"})
    add("ignore", script(chunks=SMALL, on_term="ignore"), host="127.0.0.1", main={"how": "ok", "wait_wrote": 751})
    if tier == "thorough":
        add("big", script(chunks=BIG, on_term="tail", tail=100_000), host="::1", main={"how": "ok", "wait_wrote": 900_000})
        add("die/conn", script(ready="die", die_code=1), host="::1", main={"how": "conn"})
        add("never/tail", script(ready="never", on_term="tail", tail=5), host="::1", main={"how": "ok"})
    return out
