"""C10 — run the REAL ServicesScanner / ScanIdentifiers on one case and record the trace.

A case is plain JSON (replayable):
  {"kind": "svc"|"ident", "ecu": {...}, "cfg": {...option values as the user would type them...},
   "den": {...what those option strings are meant to denote (written first; the strings are rendered
           from it and go through gallia's own Ranges / Ranges2D / AutoInt parsers)...}}
The trace holds the ECU model (answer tables), the denotation, the requests observed at the ECU with the
ground-truth session, the scanner's result / result-tagged log records.  Nothing is judged here.
"""

from __future__ import annotations

import re
from typing import Any

from gallia.commands.scan.uds.identifiers import ScanIdentifiers, ScanIdentifiersConfig
from gallia.commands.scan.uds.services import ServicesScanner, ServicesScannerConfig
from gallia.services.uds.server import RandomUDSServer

from harness import vloop
from harness.c10_stack import (
    POS, SNS, TARGET, IdentServer, ModelServer, RecRandomServer, ask_directly, capture_results, class_answer,
    class_impl, classify, serving,
)

# probe payload lengths the property record names ("probe loop over sid 0..0xFF with payload lengths 1,2,3,5");
# the payload is all zeros as documented (docs/uds/scan_modes.md: "the scanner automatically appends \\x00 bytes").
# They parameterise the ECU MODEL (answer tables); the contract tolerates additional probes of other lengths.
PROBE_LENS = [1, 2, 3, 5]
ABSENT_ROW = SNS + 8 * SNS + 64 * SNS + 512 * SNS  # row code of an unimplemented service


def pack_row(codes: list[int], impl: bool) -> int:
    return codes[0] + 8 * codes[1] + 64 * codes[2] + 512 * codes[3] + (4096 if impl else 0)


def model_tables(ecu: dict[str, Any], sessions: list[int]) -> list[list[Any]]:
    """Answer tables of a scripted service model, derived from its behaviour classes."""
    out = []
    for s in sessions:
        row = []
        d = {int(k): v for k, v in ecu["svc"].get(str(s), ecu["svc"].get(s, {})).items()}
        for sid in range(256):
            c = d.get(sid, ("Absent",))
            row.append(pack_row([class_answer(c, sid, n)[0] for n in PROBE_LENS], class_impl(c)))
        out.append([s, row])
    return out


async def random_tables(seed: int, sessions: list[int]) -> list[list[Any]]:
    """Answer tables of RandomUDSServer(seed): model read from server.services, answers obtained by
    asking an independent twin instance directly."""
    twin = RandomUDSServer(seed)
    twin.randomize()
    out = []
    for s in sessions:
        if s not in twin.services:
            continue
        row = []
        for sid in range(256):
            codes = []
            for n in PROBE_LENS:
                codes.append(classify(await ask_directly(twin, s, bytes([sid]) + bytes(n))))
            row.append(pack_row(codes, sid in twin.services[s]))
        out.append([s, row])
    return out


def _norm_cfg_flags(cfg: dict[str, Any]) -> dict[str, Any]:
    d = bool(cfg.get("defaults", False))
    kw: dict[str, Any] = {"ping": d, "tester_present": d, "properties": d}
    # the scan run the way a user runs it: cyclic TesterPresent (UDSScanner's default) with a chosen
    # --tester-present-interval / --timeout, optionally the initial ping and the property reads
    if cfg.get("tp_interval") is not None:
        kw["tester_present"] = True
        kw["tester_present_interval"] = float(cfg["tp_interval"])
    if cfg.get("timeout") is not None:
        kw["timeout"] = float(cfg["timeout"])
    for k in ("ping", "properties"):
        if cfg.get(k) is not None:
            kw[k] = bool(cfg[k])
    return kw


def _tp(cfg: dict[str, Any]) -> bool:
    """3E 00 on the wire may be the keep-alive / initial ping instead of a probe"""
    f = _norm_cfg_flags(cfg)
    return bool(f["tester_present"] or f["ping"])


def _event(truth: int, req: bytes, resp: bytes | None) -> list[int]:
    b = list(req[:3]) + [256] * (3 - min(3, len(req)))
    return [truth, len(req), b[0], b[1], b[2], classify(resp)]


def run_svc(case: dict[str, Any], mutant: str | None = None) -> dict[str, Any]:
    ecu, cfg, den = case["ecu"], case["cfg"], case["den"]
    out: dict[str, Any] = {}

    async def go() -> None:
        if ecu["type"] == "random":
            server: Any = RecRandomServer(ecu["seed"])
            await server.setup()
        else:
            server = ModelServer(ecu, mutant=mutant)
        kw: dict[str, Any] = dict(target=TARGET, check_session=bool(cfg["check"]),
                                  scan_response_ids=bool(cfg["resp_ids"]), **_norm_cfg_flags(cfg))
        if cfg["sessions"] is not None:
            kw["sessions"] = cfg["sessions"]
        if cfg["skip"]:
            kw["skip"] = cfg["skip"]
        if cfg.get("reset"):
            kw["reset"] = int(cfg["reset"])
        with serving(server):
            sc = ServicesScanner(ServicesScannerConfig(**kw))
            try:
                await sc.run()
                out["done"] = "ok"
            except SystemExit as e:
                out["done"] = f"exit{e.code}"
            except Exception as e:  # noqa: BLE001
                out["done"] = f"exc:{type(e).__name__}"
            out["result"] = [[int(a), int(b)] for a, b in sc.result]
            out["parsed"] = {"sessions": sc.config.sessions, "skip": sc.config.skip}
        out["log"] = server.log
        tab_sessions = sorted(set(den["sessions"] or []) | {1})
        if ecu["type"] == "random":
            out["tab"] = await random_tables(ecu["seed"], tab_sessions)
        else:
            out["tab"] = model_tables(ecu, [s for s in tab_sessions if s in ecu["sessions"]])

    with capture_results(lambda m: None):
        try:
            vloop.run(go(), horizon=1e7)
        except (TimeoutError, vloop.BlockedForever):
            out.setdefault("done", "hang")
            out.setdefault("result", [])
            out.setdefault("log", [])
            out.setdefault("tab", [])
    has = den["sessions"] is not None
    return {
        "kind": "svc",
        "C": {"has": has, "req": den["sessions"] or [], "skipAll": den["skip_all"],
              "skip": [[s, sid] for s, sid in den["skip"]], "respIds": bool(cfg["resp_ids"]),
              "tp": _tp(cfg), "start": 1, "check": bool(cfg["check"]),
              "reset": int(cfg.get("reset") or 0)},
        "pl": PROBE_LENS,
        "tab": out["tab"],
        "ev": [_event(t, q, r) for t, q, r in out["log"]],
        "result": out["result"],
        "done": out.get("done", "?"),
    }


# ------------------------------------------------------------------ identifier scan
_RE_POS = re.compile(r"^\s*positive\D*?(\d+)\s*$", re.I)
_RE_START = re.compile(r"^\s*starting scan in session\W*(0x[0-9a-f]+|\d+)\s*$", re.I)
_RE_END = re.compile(r"^\s*scan in session\W*(0x[0-9a-f]+|\d+)\s+is complete\W*$", re.I)


def run_ident(case: dict[str, Any], mutant: str | None = None) -> dict[str, Any]:
    ecu, cfg, den = case["ecu"], case["cfg"], case["den"]
    out: dict[str, Any] = {"ev": []}
    svc = int(den["service"])
    holder: dict[str, Any] = {}

    def flush() -> None:
        srv = holder.get("server")
        if srv is None:
            return
        n = holder.get("n", 0)
        for t, q, r in srv.log[n:]:
            cls = classify(r)
            if cls == POS and r is not None and len(q) >= 2 and q[0] == svc and r[0] == svc + 0x40:
                # a positive response of the scanned service that echoes another identifier / sub-function than the
                # one asked is not a positive response FOR that identifier (ISO 14229-1 echoes them): class 6
                h = {0x22: 3, 0x2E: 3, 0x31: 4, 0x27: 2}.get(svc, 1)
                qq = bytes(q[:h])
                if svc == 0x27:
                    qq = bytes([q[0], q[1] & 0x7F])
                if bytes(r[1:h]) != qq[1:h]:
                    cls = 6
            out["ev"].append({"k": "q", "t": t, "r": cls, "p": list(q)})
        holder["n"] = len(srv.log)

    def sink(msg: str) -> None:
        flush()  # requests seen by the ECU before this record was emitted
        m = _RE_POS.match(msg)
        if m:
            out["ev"].append({"k": "pos", "n": int(m.group(1))})
            return
        m = _RE_START.match(msg)
        if m:
            out["ev"].append({"k": "start", "s": int(m.group(1), 0)})
            return
        m = _RE_END.match(msg)
        if m:
            out["ev"].append({"k": "end", "s": int(m.group(1), 0)})

    async def go() -> None:
        if ecu["type"] == "random":
            server: Any = RecRandomServer(ecu["seed"], RandomUDSServer.RandomnessParameters(**ecu.get("params", {})))
            await server.setup()
        else:
            server = IdentServer(ecu, mutant=mutant)
        holder["server"] = server
        kw: dict[str, Any] = dict(target=TARGET, service=cfg["service"], start=cfg["start"], end=cfg["end"],
                                  **_norm_cfg_flags(cfg))
        if cfg["sessions"] is not None:
            kw["sessions"] = cfg["sessions"]
        if cfg["skip"]:
            kw["skip"] = cfg["skip"]
        if cfg.get("payload"):
            kw["payload"] = cfg["payload"]
        if cfg.get("check"):
            kw["check_session"] = cfg["check"]
        with serving(server):
            sc = ScanIdentifiers(ScanIdentifiersConfig(**kw))
            try:
                await sc.run()
                out["done"] = "ok"
            except SystemExit as e:
                out["done"] = f"exit{e.code}"
            except Exception as e:  # noqa: BLE001
                out["done"] = f"exc:{type(e).__name__}"
        flush()
        # ground truth: positive (session, sub-function, identifier) triples in and around the range
        sessions = sorted(set(den["sessions"] or []) | {1})
        lo, hi = max(0, den["start"] - 2), min(0xFFFF, den["end"] + 2)
        if svc == 0x27:
            hi = min(hi, 0xFF)
        sfs = [1, 2, 3] if svc == 0x31 else [0]
        pay = bytes.fromhex(cfg["payload"]) if cfg.get("payload") else b""
        pos: list[list[int]] = []
        if ecu["type"] == "random":
            twin = RandomUDSServer(ecu["seed"], RandomUDSServer.RandomnessParameters(**ecu.get("params", {})))
            twin.randomize()
            for s in sessions:
                if s not in twin.services:
                    continue
                for sf in sfs:
                    for i in range(lo, hi + 1):
                        r = await ask_directly(twin, s, iso_request(svc, sf, i, pay))
                        if classify(r) == POS:
                            pos.append([s, sf, i])
        else:
            for s in sessions:
                if s not in ecu["sessions"] or str(s) in {str(k) for k in ecu.get("absent", {})}:
                    continue
                for sf in sfs:
                    ids = ecu.get("pos", {}).get(str(s), {}).get(str(sf), [])
                    pos += [[s, sf, i] for i in ids if lo <= i <= hi]
        out["pos"] = pos
        out["window"] = [lo, hi]

    with capture_results(sink):
        try:
            vloop.run(go(), horizon=1e7)
        except (TimeoutError, vloop.BlockedForever):
            out.setdefault("done", "hang")
            out.setdefault("pos", [])
            out.setdefault("window", [0, 0])
    has = den["sessions"] is not None
    pay = list(bytes.fromhex(cfg["payload"])) if cfg.get("payload") else []
    return {
        "kind": "ident",
        "C": {"has": has, "req": den["sessions"] or [], "skipAll": den["skip_all"],
              "skip": [[s, i] for s, i in den["skip"]], "svc": svc, "start": den["start"], "end": den["end"],
              "payload": pay, "check": int(cfg.get("check") or 0), "start_session": 1,
              "tp": True},
        "pos": out["pos"],
        "window": out["window"],
        "ev": out["ev"],
        "done": out.get("done", "?"),
    }


def iso_request(svc: int, sf: int, ident: int, payload: bytes = b"") -> bytes:
    """ISO 14229-1 request layout for one identifier (used for the twin's ground truth only)."""
    if svc == 0x27:
        return bytes([svc, ident & 0xFF]) + payload
    if svc == 0x31:
        return bytes([svc, sf, ident >> 8, ident & 0xFF]) + payload
    return bytes([svc, ident >> 8, ident & 0xFF]) + payload


def run_case(case: dict[str, Any], mutant: str | None = None) -> dict[str, Any]:
    t = run_svc(case, mutant) if case["kind"] == "svc" else run_ident(case, mutant)
    t["origin"] = case.get("origin", "")
    return t


__all__ = ["run_case", "run_svc", "run_ident", "PROBE_LENS", "iso_request"]
