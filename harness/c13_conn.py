"""C13: request histories that span SEVERAL tester connections.

Every other family of C13 sends its history over one connection (or straight into handle_request).  Here a history is
a *connection script*: testers connect to the real line based server transports of the virtual ECU
(`TCPUDSServerTransport` / `UnixUDSServerTransport`), send requests, hang up (orderly, by a reset, or because the server
dropped them), wait, connect again -- alone or while another tester is still connected.  Connection events answer no
request, so per the statement ("state changes exactly on the positive replies that ISO defines") the state a request
finds is the state the previous request left, whoever sends it over whichever connection; only a pause of at least
S3server seconds lets the server fall back (contract: StepVerdictEG / BeforeStates in VEcuContract.tla).

Nothing here judges: a script is run against the real code, one step per request is recorded (with the gap `g` in
seconds of the server's clock since the previous request) and TLC decides.

Flavours
  tcp-mem / unix-mem   the real `handle_client` coroutine of the transport class on in-memory streams
                       (harness.streams.Wire), on the virtual-time loop: deterministic, costs nothing
  tcp-run / unix-run   the real `run()` (asyncio.start_server / start_unix_server) on real sockets and the real loop

Script events (JSON, kept in the trace's meta so that a violation can be replayed)
  ["open", T]                 tester T connects
  ["close", T, how]           how = "fin" (orderly: T half-closes and waits for the server's end of stream),
                              "close" (T closes at once), "reset" (connection reset; in-memory flavours only)
  ["idle", seconds]           the server's clock advances, nothing is sent
  ["req", T, hex]             T sends a request
  ["key", T, sub, suppress]   T sends the SendKey that answers the seed handed out last (skipped if there is none)
  ["junk", T, text]           T sends a line that is no request (the server may end that connection)
"""

from __future__ import annotations

import asyncio
import os
import shutil
import socket
import tempfile
from binascii import hexlify
from typing import Any

import gallia.services.uds.server as srv
from gallia.transports import TargetURI

from harness import c13_corpus as C
from harness import c13_ecu as E
from harness.common import Machinery
from harness.streams import Wire

Script = list[list[Any]]
GAPS_PERSIST = [0, 1, 4]      # below S3server: the state must be the one the history left
GAPS_TIMEOUT = [5, 11, 30]    # S3server and beyond: falling back is admissible, keeping the state is too
REPLY_WAIT = 20.0             # real sockets: how long a tester waits for an answer (never for a suppressed one)


class ConnCorpus(E.Corpus):
    """E.Corpus that also hands the optional step field `g` to Trace_VEcu."""

    def _batch(self, traces: list[dict[str, Any]]) -> dict[str, Any]:
        b = super()._batch(traces)
        for tj, t in zip(b["traces"], traces):
            for sj, s in zip(tj["steps"], t["steps"]):
                if "g" in s:
                    sj["g"] = s["g"]
        return b


# ----------------------------------------------------------------------------
# connections


def _first_line(data: bytes) -> bytes | None:
    if not data:
        return None
    line = data.split(b"\n", 1)[0].strip()
    try:
        return bytes.fromhex(line.decode("ascii"))
    except ValueError:
        return b""


class MemConn:
    """One tester connection served by the real handle_client coroutine on in-memory streams."""

    def __init__(self, st: Any) -> None:
        self.wire = Wire()
        self.task = asyncio.get_running_loop().create_task(st.handle_client(self.wire.reader, self.wire.writer))

    @staticmethod
    async def quiesce() -> None:
        # virtual-time loop: time only moves when nothing is ready, so after this everything the server
        # had to do for what was fed so far is done
        await asyncio.sleep(0.25)

    def alive(self) -> bool:
        return not self.task.done()

    async def send_line(self, line: bytes, wait: float = 0.0) -> bytes:
        n = len(self.wire.out)
        self.wire.feed(line)
        await self.quiesce()
        return b"".join(b for _t, b in self.wire.out[n:])

    async def request(self, pdu: bytes) -> bytes | None:
        return _first_line(await self.send_line(hexlify(pdu) + b"\n"))

    async def hangup(self, how: str) -> None:
        if how == "reset":
            self.wire.reset()
        else:
            self.wire.eof()
        await self.quiesce()
        if not self.task.done():  # a server that does not end the connection on end of stream: not C13's subject
            self.task.cancel()
            await asyncio.gather(self.task, return_exceptions=True)


class SockConn:
    """One tester connection over a real socket."""

    def __init__(self, reader: asyncio.StreamReader, writer: asyncio.StreamWriter) -> None:
        self.reader, self.writer = reader, writer
        self.closed = False

    def alive(self) -> bool:
        return not self.closed and not self.reader.at_eof()

    async def send_line(self, line: bytes, wait: float = REPLY_WAIT) -> bytes:
        try:
            self.writer.write(line)
            await self.writer.drain()
            return await asyncio.wait_for(self.reader.readline(), wait)
        except (TimeoutError, ConnectionError, OSError):
            return b""

    async def request(self, pdu: bytes) -> bytes | None:
        return _first_line(await self.send_line(hexlify(pdu) + b"\n"))

    async def hangup(self, how: str) -> None:
        self.closed = True
        try:
            if how == "fin" and self.writer.can_write_eof():
                # orderly: the server has seen the end of the stream once its own end of stream arrives here
                self.writer.write_eof()
                try:
                    await asyncio.wait_for(self.reader.read(), 3.0)
                except (TimeoutError, ConnectionError, OSError):
                    pass
            self.writer.close()
            try:
                await asyncio.wait_for(self.writer.wait_closed(), 1.0)
            except (TimeoutError, ConnectionError, OSError):
                pass
            if how != "fin":
                await asyncio.sleep(0.05)
        except (ConnectionError, OSError):
            pass


class Testers:
    """The testers of one script; stands in for `Probe.transport` so that a step is recorded the usual way."""

    def __init__(self, flavour: str, server: Any, st_cls: Any = None) -> None:
        self.flavour = flavour
        self.server = server
        self.mem = flavour.endswith("-mem")
        self.unix = flavour.startswith("unix")
        self.tmpd: str | None = None
        self.run_task: asyncio.Task[None] | None = None
        if self.unix:
            self.tmpd = tempfile.mkdtemp(prefix="c13-")
            self.addr: Any = os.path.join(self.tmpd, "vecu.sock")
            uri = TargetURI(f"unix-lines://{self.addr}")
            cls = st_cls or srv.UnixUDSServerTransport
        else:
            port = 20162
            if not self.mem:
                with socket.socket() as s:
                    s.bind(("127.0.0.1", 0))
                    port = int(s.getsockname()[1])
            self.addr = port
            uri = TargetURI(f"tcp-lines://127.0.0.1:{port}")
            cls = st_cls or srv.TCPUDSServerTransport
        if not self.mem:
            # real sockets: count the connections OUR transport object is handed, so that a tester knows that it has
            # reached this server (and not whoever else listens on a port that was free a moment ago)
            class Counting(cls):  # type: ignore[valid-type,misc]
                accepted = 0

                async def handle_client(self, reader: Any, writer: Any) -> None:
                    self.accepted += 1
                    await super().handle_client(reader, writer)

            cls = Counting
        self.st = cls(server, uri)
        self.conns: dict[str, Any] = {}
        self.current = ""
        self.reopened = 0

    async def start(self) -> None:
        if not self.mem:
            self.run_task = asyncio.ensure_future(self.st.run())

    async def open(self, name: str) -> None:
        if self.mem:
            self.conns[name] = MemConn(self.st)
            await MemConn.quiesce()
            return
        last: BaseException | None = None
        for _ in range(1000):
            if self.run_task is not None and self.run_task.done():
                last = self.run_task.exception() if not self.run_task.cancelled() else None
                break
            try:
                before = self.st.accepted
                if self.unix:
                    r, w = await asyncio.open_unix_connection(self.addr)
                else:
                    r, w = await asyncio.open_connection("127.0.0.1", self.addr)
            except OSError as e:
                last = e
                await asyncio.sleep(0.02)
                continue
            for _ in range(3000):
                if self.st.accepted > before or (self.run_task is not None and self.run_task.done()):
                    break
                await asyncio.sleep(0.01)
            if self.st.accepted > before:
                self.conns[name] = SockConn(r, w)
                return
            w.close()
            last = ConnectionError("connected, but not to the server under test")
            break
        raise Machinery(f"the virtual ECU did not accept a {self.flavour} connection: {last!r}")

    async def close(self, name: str, how: str) -> None:
        c = self.conns.pop(name, None)
        if c is not None:
            await c.hangup(how if self.mem or how != "reset" else "close")

    async def junk(self, name: str, text: str) -> None:
        c = self.conns.get(name)
        if c is not None:
            await c.send_line(text.encode("latin-1"), 1.0)  # whatever comes back (end of stream, nothing) is no reply

    async def handle_request(self, pdu: bytes) -> tuple[bytes | None, float]:
        """Probe.exchange() calls this in place of UDSServerTransport.handle_request."""
        c = self.conns.get(self.current)
        if c is None or not c.alive():
            # the server ended this tester's connection earlier (after a junk line): the tester dials again
            self.reopened += 1
            await self.open(self.current)
            c = self.conns[self.current]
        return await c.request(pdu), 0.0

    async def stop(self) -> None:
        for name in list(self.conns):
            await self.close(name, "close")
        if self.run_task is not None:
            self.run_task.cancel()
            try:
                await asyncio.wait_for(asyncio.gather(self.run_task, return_exceptions=True), 3.0)
            except BaseException:  # noqa: BLE001
                pass
        if self.tmpd is not None:
            shutil.rmtree(self.tmpd, ignore_errors=True)


async def run_script(p: E.Probe, script: Script, flavour: str, B: frozenset[str] | set[str] = E.ALL,
                     st_cls: Any = None, stats: dict[str, Any] | None = None) -> list[dict[str, Any]]:
    """Run one connection script against a freshly started ECU; one recorded step per request."""
    p.fresh(B)
    t = Testers(flavour, p.server, st_cls)
    direct = p.transport
    p.transport = t  # type: ignore[assignment]
    steps: list[dict[str, Any]] = []
    gap = 0
    try:
        await t.start()
        for ev in script:
            kind = ev[0]
            if kind == "open":
                await t.open(ev[1])
            elif kind == "close":
                await t.close(ev[1], ev[2])
            elif kind == "idle":
                E.CLOCK.advance(float(ev[1]))
                gap += int(ev[1])
            elif kind == "junk":
                await t.junk(ev[1], ev[2])
            elif kind in ("req", "key"):
                pdu = bytes.fromhex(ev[2]) if kind == "req" else C.right_key(ev[2], bool(ev[3]))(p)
                if pdu is None:
                    continue
                t.current = ev[1]
                st = await p.exchange(pdu)
                st["g"] = gap
                gap = 0
                steps.append(st)
            else:
                raise Machinery(f"unknown script event {ev!r}")
    finally:
        p.transport = direct
        await t.stop()
        if stats is not None:
            stats["reopened"] = stats.get("reopened", 0) + t.reopened
    return steps


# ----------------------------------------------------------------------------
# the family


def targets(m: C.Model) -> list[tuple[int, list[int], int | None]]:
    """(session, DiagnosticSessionControl path from the default session, requestSeed sub-function or None):
    states worth carrying over a reconnect -- a non-default session with an unlockable level, a non-default session
    without, the default session with an unlocked level."""
    out: list[tuple[int, list[int], int | None]] = []
    with_sa = without = None
    for sess in sorted(m):
        path = E.nav_path(m, 1, sess)
        if path is None:
            continue
        sa = [x for x in (m[sess].get(E.SID_SA) or []) if x % 2 == 1 and x + 1 in (m[sess].get(E.SID_SA) or [])]
        if sess != 1 and sa and with_sa is None:
            with_sa = (sess, path, sa[0])
        if sess != 1 and not sa and without is None:
            without = (sess, path, None)
        if sess == 1 and sa:
            out.append((1, [], sa[-1]))
    return [x for x in (with_sa, without) if x is not None] + out


def _req(t: str, *b: int) -> list[Any]:
    return ["req", t, bytes(b).hex()]


def scripts_for(m: C.Model, target: tuple[int, list[int], int | None], gap: int, *, suppress: bool = True,
                reset: bool = True) -> dict[str, Script]:
    """The connection scripts for one state to carry and one pause.  `suppress`: requests with the suppress bit may
    be used (not over real sockets, where silence can only be told by waiting); `reset`: connections may end by a
    reset."""
    sess, path, sub = target
    rude = "reset" if reset else "close"
    quiet = 0x80 if suppress else 0

    def enter(t: str) -> Script:
        return [_req(t, E.SID_DSC, x) for x in path]

    def unlock(t: str) -> Script:
        return [] if sub is None else [_req(t, E.SID_SA, sub), ["key", t, sub + 1, False]]

    def probes(t: str) -> Script:
        # first a request that never touches the state, so that a lost state shows as such
        out = [_req(t, E.SID_TP, 0x00), _req(t, E.SID_RDBI, 0xF1, 0x86)]
        if sub is not None:
            out += [_req(t, E.SID_SA, sub + 1, 0xAA), _req(t, E.SID_SA, sub), ["key", t, sub + 1, False]]
        out += [_req(t, E.SID_TP, quiet), _req(t, E.SID_RDBI, 0xF1, 0x86)]
        return out

    pause: Script = [["idle", gap]] if gap else []
    S: dict[str, Script] = {}
    # a tester changes the state, hangs up, comes back
    S["reconnect"] = [["open", "A"]] + enter("A") + unlock("A") + [["close", "A", "fin"]] + pause + \
                     [["open", "A"]] + probes("A") + [_req("A", E.SID_DSC, 0x01), ["close", "A", "fin"], ["open", "A"]] + \
                     probes("A") + [["close", "A", "close"]]
    S["reconnect-rude"] = [["open", "A"]] + enter("A") + unlock("A") + [["close", "A", rude]] + pause + \
                          [["open", "B"]] + probes("B") + [["close", "B", rude]]
    # the pause before the hang-up instead of after it, and on both sides
    S["late-hangup"] = [["open", "A"]] + enter("A") + unlock("A") + pause + [["close", "A", "fin"], ["open", "A"]] + \
                       probes("A") + [["close", "A", "fin"]]
    # hang up between every two requests
    hop: Script = []
    for ev in enter("A") + unlock("A") + probes("A"):
        hop += [["open", "A"], ev, ["close", "A", "fin"]]
    S["every-request-its-own-connection"] = hop[:-1] + pause + [["close", "A", "close"], ["open", "A"]] + probes("A") + \
                                            [["close", "A", "fin"]]
    if sub is not None:
        # the seed is asked for on one connection, the key sent on the next
        S["handshake-split"] = [["open", "A"]] + enter("A") + [_req("A", E.SID_SA, sub), ["close", "A", "fin"]] + pause + \
                               [["open", "A"], ["key", "A", sub + 1, False]] + probes("A") + [["close", "A", "fin"]]
    # two testers at the same time, the one that changed the state leaves; then the last one leaves
    S["two-testers-one-leaves"] = [["open", "A"], ["open", "B"]] + enter("A") + unlock("A") + [["close", "A", "fin"]] + \
                                  pause + probes("B") + [["close", "B", "fin"]] + pause + [["open", "C"]] + probes("C") + \
                                  [["close", "C", "fin"]]
    # a second tester joins and leaves while the first stays (neither a new nor a closed connection is a reply)
    S["visitor"] = [["open", "A"]] + enter("A") + unlock("A") + [["open", "B"], _req("B", E.SID_TP, 0x00),
                                                                  ["close", "B", "fin"]] + pause + probes("A") + \
                   [["open", "C"], ["close", "C", "close"]] + probes("A") + [["close", "A", "fin"]]
    # connections that never send anything
    S["silent-visitors"] = [["open", "A"]] + enter("A") + unlock("A") + [["close", "A", "fin"], ["open", "B"],
                                                                          ["close", "B", "fin"], ["open", "C"],
                                                                          ["close", "C", rude]] + pause + \
                           [["open", "D"]] + probes("D") + [["close", "D", "fin"]]
    # the server ends the connection itself (a line that is no request), the tester dials again
    S["dropped-by-server"] = [["open", "A"]] + enter("A") + unlock("A") + [["junk", "A", "no hex\n"]] + pause + \
                             [["close", "A", "close"], ["open", "A"]] + probes("A") + [["junk", "A", "3e\xff\n"]] + \
                             probes("A") + [["close", "A", "fin"]]
    return S


def flavour_for(i: int) -> str:
    return ("tcp-mem", "unix-mem")[i % 2]
