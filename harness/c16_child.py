"""C16 child process: builds random virtual ECUs in THIS interpreter and records
their model and their answers to a request history.

Stand-alone on purpose (does not import the `harness` package): the parent
starts it with /venv/bin/python, its own PYTHONHASHSEED and PYTHONPATH=<GALLIA_SRC>.

    c16_child.py JOB.json OUT.json

JOB = {"variant": {"name", "import_first": "server"|"commands", "clock_base": float,
                   "global_seed": int|None, "via_config": bool, "reverse": bool, "mutant": None|"global_rng"},
       "cases": [{"id", "seed", "params": {...RandomnessParameters...},
                  "behavior": {...Behavior...}, "hist": {"tour", "cap", "sa_segments", "sweep", "full_sweep"}}]}

The child never judges anything: it dumps `server.services` after `setup()` and the
transcript of `UDSServerTransport.handle_request` for a history that is a
deterministic function of the dumped model (so equal models => equal histories;
TLC checks that, clause H0).  The history consists of segments, each answered by a
freshly built server (same seed, same arguments); the challenge/response segments
send keys derived from the seed just received (TLC checks that too, clause H1).  Wall clock is kept out of play: `time.time` is
replaced by a virtual clock BEFORE gallia is imported, so the 10 s inactivity
reset of `handle_request` never fires and start time differs per variant.
"""

from __future__ import annotations

import json
import sys
import time as _time


def _install_clock(base: float) -> list[float]:
    clk = [float(base)]

    def fake_time() -> float:
        clk[0] += 0.0005
        return clk[0]

    _time.time = fake_time  # type: ignore[assignment]
    return clk


# --------------------------------------------------------------------------
# request history (pure function of the dumped model)

UDS_SIDS = [0x10, 0x11, 0x14, 0x19, 0x22, 0x23, 0x24, 0x27, 0x28, 0x29, 0x2A, 0x2C, 0x2E, 0x2F, 0x31,
            0x34, 0x35, 0x36, 0x37, 0x38, 0x3D, 0x3E, 0x83, 0x84, 0x85, 0x86, 0x87]
SHORT = [b"", b"\x01", b"\xf1\x86"]
MORE = [b"\x00", b"\x02", b"\x81", b"\x01\xf1\x86", b"\xff\xff\xff", b"\x01\x02\x03\x04", b"\x03\x12\x34\x00"]
DIDS = [0xF186, 0xF190, 0x0000, 0x1234, 0xFFFF]


def lit(b: bytes | list[int]) -> tuple[str, bytes]:
    return ("lit", bytes(b))


def bfs_paths(model: list[dict]) -> dict[int, list[int]]:
    """session -> list of DSC sub-functions leading there from session 1 (request generator only)."""
    succ: dict[int, list[int]] = {}
    for e in model:
        for v in e["svcs"]:
            if v["id"] == 0x10 and v["hasSf"]:
                succ[e["s"]] = sorted(v["sf"])
    paths = {1: []}
    queue = [1]
    while queue:
        s = queue.pop(0)
        for t in succ.get(s, []):
            if t not in paths:
                paths[t] = paths[s] + [t]
                queue.append(t)
    return paths


def sa_block(sf: int) -> list[tuple]:
    return [lit([0x27, sf]), ("bad", sf + 1), lit([0x27, sf]), ("key", sf + 1), lit(b"\x22\xf1\x86"),
            ("key", sf + 1),  # no seed outstanding any more
            lit([0x27, sf]), lit(b"\x3e\x00"), ("key", sf + 1),  # tester present does not cancel
            lit([0x27, sf]), lit(b"\x22\xf1\x90"), ("key", sf + 1),  # another request cancels
            lit([0x27, sf]), ("key", (sf + 3) % 0x80), lit([0x27, sf, 0x00]), ("key", sf + 1)]


def service_block(sid: int, has_sf: bool, sfs: list[int]) -> list[tuple]:
    out: list[tuple] = []
    if sid == 0x27:
        for sf in [x for x in sfs if x % 2 == 1][:3]:
            out += [lit([0x27, sf]), lit([0x27, sf + 1, 0x11]), lit([0x27, sf | 0x80]), lit([0x27, sf, 0x00])]
        out += [lit([0x27]), lit([0x27, 0x7F]), lit([0x27, 0x00]), lit([0x27, 0x02, 0x11])]
        return out
    if sid == 0x10:
        # only non-changing / negative probes here; real session changes are done by the tour
        return [lit([0x10]), lit([0x10, 0x00]), lit([0x10, 0x7F]), lit([0x10, 0x01, 0x00])]
    if sid == 0x11:
        return []  # resets are issued at the end of the session block
    if has_sf:
        probe = sorted(set(sfs[:4] + sfs[-2:]))
        missing = [x for x in (0x00, 0x05, 0x55, 0x7F) if x not in sfs][:2]
        for sf in probe + missing:
            out += [lit([sid, sf]), lit([sid, sf | 0x80]), lit([sid, sf, 0xFF]), lit([sid, sf, 0x12, 0x34]),
                    lit([sid, sf, 0x12, 0x34, 0x56])]
        if sid == 0x19:
            out += [lit([0x19, 0x02, m]) for m in (0x00, 0x01, 0x08, 0xFF)]
        if sid == 0x31:
            out += [lit([0x31, sf, d >> 8, d & 0xFF]) for sf in (1, 2, 3) for d in DIDS[:3]]
        return out
    for d in DIDS:
        hi, lo = d >> 8, d & 0xFF
        out += [lit([sid, hi, lo]), lit([sid, hi, lo, 0x00]), lit([sid, hi, lo, 0x03, 0xAA])]
    out += [lit([sid, 0xFF, 0xFF, 0xFF]), lit([sid, 0x12, 0x34, 0x56]), lit([sid, 0x00]), lit([sid])]
    return out


def build_history(model: list[dict], hist: dict) -> list[list[tuple]]:
    """Order matters for precision only: challenge/response steps (whose outcome may
    legitimately depend on a fresh seed) come last, so that a run pair that diverges
    there for an allowed reason has already been compared on everything else."""
    steps: list[tuple] = []
    # A. sweep of every service id in the initial (default) session
    for sid in range(256):
        if sid in UDS_SIDS or hist.get("full_sweep"):
            forms = SHORT + MORE
        elif hist.get("sweep") == "short" and not (sid <= 0x0A or sid == 0x7F):
            forms = SHORT[:1]  # ids no argument list can make the ECU offer
        else:
            forms = SHORT
        for f in forms:
            if sid == 0x11 and f[:1] in (b"\x01", b"\x02", b"\x03", b"\x81"):
                continue  # resets later
            steps.append(lit(bytes([sid]) + f))
    steps.append(lit(b"\x10\x01"))
    # B. tour of the offered sessions, a block of requests per offered service
    paths = bfs_paths(model)
    sessions = sorted(e["s"] for e in model)
    ntour = int(hist.get("tour", 6))
    chosen = sessions[:ntour] + [s for s in sessions[-2:] if s not in sessions[:ntour]]
    by_s = {e["s"]: e for e in model}
    per_session_cap = int(hist.get("cap", 260))

    def enter(s: int) -> list[tuple]:
        # not reachable by the model's own DSC lists: still try the direct request
        return [lit([0x10, t]) for t in (paths.get(s) or [s])]

    for s in chosen:
        steps += enter(s)
        steps.append(lit(b"\x22\xf1\x86"))
        # a tester that only keeps the session alive for a while (suppressed TesterPresent: nothing is answered)
        steps += [lit(b"\x3e\x80")] * 4 + [lit(b"\x22\xf1\x86")]
        block: list[tuple] = []
        for v in sorted(by_s[s]["svcs"], key=lambda v: v["id"]):
            if v["id"] != 0x27:
                block += service_block(v["id"], v["hasSf"], list(v["sf"]))
        steps += block[:per_session_cap]
        for v in by_s[s]["svcs"]:
            if v["id"] == 0x11 and v["hasSf"]:
                for sf in sorted(v["sf"])[:5]:
                    steps += [lit([0x11, sf]), lit(b"\x22\xf1\x86")] + enter(s)
        steps += [lit([0x10, 0x81]), lit(b"\x22\xf1\x86"), lit([0x10, 0x01]), lit(b"\x3e\x80"), lit(b"\x3e\x00")]
    # C. a few requests that every configuration sees
    steps += [lit(b"\x11\x01"), lit(b"\x11\x04"), lit(b"\x11\x81"), lit(b"\x19\x02\xff"), lit(b"\x14\xff\xff\xff"),
              lit(b"\x31\x01\x12\x34"), lit(b"\x2e\xf1\x90\x41\x42"), lit(b"\x2f\x12\x34\x03"), lit(b"\x22\x12\x34"),
              lit(b"\x10\x01")]
    segments = [steps]
    # D. security access (challenge/response with keys derived from the seed received):
    #    one short history per (session, access type), each on a FRESH virtual ECU built
    #    from the same seed and arguments
    nseg = 0
    for s in chosen:
        sa = [v for v in by_s[s]["svcs"] if v["id"] == 0x27 and v["hasSf"] and v["sf"]]
        if not sa:
            continue
        odd = [x for x in sa[0]["sf"] if x % 2 == 1]
        for sf in odd[:2] + odd[-1:]:
            if nseg >= int(hist.get("sa_segments", 6)):
                break
            nseg += 1
            segments.append(enter(s) + sa_block(sf) + [lit(b"\x22\xf1\x86"), lit(b"\x22\x12\x34"),
                                                       lit(b"\x19\x02\xff"), lit([0x10, 0x01])])
    segments.append([lit(b"\x27\x01"), ("key", 2), lit(b"\x22\xf1\x86"), lit(b"\x27\x01"), ("bad", 2), lit(b"\x3e\x00")])
    return segments


# --------------------------------------------------------------------------


def dump_model(services: dict) -> list[dict]:
    out = []
    for s, svcs in services.items():
        out.append({"s": int(s), "svcs": [{"id": int(k), "hasSf": v is not None,
                                          "sf": [int(x) for x in v] if v is not None else []}
                                         for k, v in svcs.items()]})
    return out


def model_digest(model: list[dict]) -> list[int]:
    import hashlib

    canon = sorted((e["s"], sorted((v["id"], v["hasSf"], sorted(set(v["sf"]))) for v in e["svcs"])) for e in model)
    return list(hashlib.sha256(json.dumps(canon).encode()).digest()[:16])


async def run_case(S, case: dict, variant: dict) -> dict:  # noqa: ANN001
    import random

    from gallia.services.uds.core.constants import UDSIsoServices
    from gallia.transports import TargetURI

    p = dict(case["params"])
    for k in ("mandatory_services", "optional_services"):
        if k in p:
            p[k] = [UDSIsoServices(x) for x in p[k]]
    out: dict = {"id": case["id"]}

    async def fresh():  # noqa: ANN202
        if variant.get("via_config"):
            from gallia.commands.script.vecu import RngVirtualECU, RngVirtualECUConfig

            # the way the command line / gallia.toml deliver the same arguments: lists of strings
            # (service names, session numbers in hex notation)
            pc = dict(p)
            for k in ("mandatory_services", "optional_services"):
                if k in pc:
                    pc[k] = [UDSIsoServices(x).name for x in pc[k]]
            for k in ("mandatory_sessions", "optional_sessions"):
                if k in pc:
                    pc[k] = [hex(int(x)) for x in pc[k]]
            cfg = RngVirtualECUConfig(target="unix-lines:///nonexistent/c16.sock", seed=case["seed"], **pc,
                                      **case["behavior"])
            server = RngVirtualECU(cfg)._server()
        else:
            server = S.RandomUDSServer(case["seed"], S.RandomUDSServer.RandomnessParameters(**p),
                                       S.UDSServer.Behavior(**case["behavior"]))
        if variant.get("global_seed") is not None:
            random.seed(variant["global_seed"] * 7919 + 1)
        await server.setup()
        return server

    try:
        server = await fresh()
    except Exception as e:  # noqa: BLE001
        out["setup_exc"] = f"{type(e).__name__}: {e}"[:300]
        return out
    model = dump_model(server.services)
    out["model"] = model
    trace = []
    n = 0
    for si, segment in enumerate(build_history(model, case.get("hist", {}))):
        if si > 0:
            try:
                server = await fresh()
            except Exception as e:  # noqa: BLE001
                trace.append({"q": [], "k": "new", "o": "x", "r": [], "x": type(e).__name__})
                break
        # pseudo step: a new virtual ECU (same seed, same arguments) was started; its "answer" is a digest of its model
        trace.append({"q": [], "k": "new", "o": "r", "r": model_digest(dump_model(server.services))})
        tr = S.UDSServerTransport(server, TargetURI("unix-lines:///nonexistent/c16.sock"))
        last_seed: bytes = b""
        for kind, arg in segment:
            if kind == "lit":
                q = arg
            elif kind == "key":
                q = bytes([0x27, arg]) + last_seed
            else:
                q = bytes([0x27, arg]) + last_seed + b"\x5a"
            n += 1
            if variant.get("pace"):
                variant["_clk"][0] += float(variant["pace"])  # the tester's pause before this request (< 10 s)
            if variant.get("global_seed") is not None and n % 97 == 0:
                random.seed(variant["global_seed"] + n)
            try:
                r, _dt = await tr.handle_request(q)
                if r is None:
                    step = {"q": list(q), "k": kind, "o": "n", "r": []}
                else:
                    step = {"q": list(q), "k": kind, "o": "r", "r": list(r)}
                    if len(q) >= 1 and q[0] == 0x27 and len(r) >= 2 and r[0] == 0x67 and r[1] % 2 == 1:
                        last_seed = bytes(r[2:])
            except Exception as e:  # noqa: BLE001
                step = {"q": list(q), "k": kind, "o": "x", "r": [], "x": type(e).__name__}
            trace.append(step)
    out["tr"] = trace
    out["final_session"] = int(server.state.session)
    return out


def main() -> None:
    job = json.load(open(sys.argv[1]))
    variant = job["variant"]
    clk = _install_clock(variant.get("clock_base", 1.0e9))
    variant["_clk"] = clk
    import logging

    logging.disable(logging.CRITICAL)
    import random

    if variant.get("global_seed") is not None:
        random.seed(variant["global_seed"])
    if variant.get("import_first") == "commands":
        import gallia.commands  # noqa: F401
        import gallia.commands.script.vecu  # noqa: F401
    import gallia.services.uds.server as S

    if variant.get("mutant") == "global_rng":
        # binding self-test only: a generator that draws from the GLOBAL random module
        class GlobalRNG(S.RNG):  # type: ignore[misc,name-defined]
            def random(self) -> float:
                return random.random()

        S.RNG = GlobalRNG  # type: ignore[misc]

    import asyncio

    cases = list(job["cases"])
    if variant.get("reverse"):
        cases.reverse()

    async def go() -> list[dict]:
        res = []
        for c in cases:
            res.append(await run_case(S, c, variant))
        return res

    results = asyncio.run(go())
    if variant.get("reverse"):
        results.reverse()
    variant.pop("_clk", None)
    json.dump({"variant": variant["name"], "hashseed": __import__("os").environ.get("PYTHONHASHSEED"),
               "clock_end": clk[0], "python": sys.version.split()[0], "results": results},
              open(sys.argv[2], "w"))


if __name__ == "__main__":
    main()
