"""C16 child process: builds random virtual ECUs in THIS interpreter and records
their model and their answers to a request history.

Stand-alone on purpose (does not import the `harness` package): the parent
starts it with /venv/bin/python, its own PYTHONHASHSEED and PYTHONPATH=<GALLIA_SRC>.

    c16_child.py JOB.json OUT.json

JOB = {"variant": {"name", "import_first": "server"|"commands", "clock_base": float,
                   "global_seed": int|None, "via_config": bool, "reverse": bool,
                   "mutant": None|"global_rng"|"shared_model"|"memo_first"|"registry_snapshot",
                   "crowd": None | {"name", plan...},
                   "vendor": None | {"group", "phase", "steps": [[stage, module], ...]}},
       "cases": [{"id", "seed", "params": {...RandomnessParameters...},
                  "behavior": {...Behavior...}, "hist": {"tour", "cap", "sa_segments", "sweep", "full_sweep"},
                  "pool": [{"seed", "params", "behavior"}, ...]}]}      (pool: only used by crowd variants)

Crowd variants ("process environments" in which the judged ECU is not the only one): OTHER RandomUDSServer
objects (case["pool"]: other seeds / other arguments / the same seed with other arguments / an exact twin) are
created, set up and used in this interpreter before / between / after the judged server's construction, its
setup() and its requests, as the plan says (see class Crowd).  Only the judged server is recorded.

Vendor variants ("process environments" whose codec registry is not the stock one): modules of a synthetic vendor
package (written by the parent into a directory on PYTHONPATH) define UDSService subclasses for ISO services gallia
has no class for; gallia registers them like its own (UDSService.__init_subclass__).  variant["vendor"]["steps"]
says at which stage each module is imported (see vendor_stage); what is registered when the first judged server is
constructed / set up / at the end is reported next to the results (so that the parent can tell twins from non-twins).

The child never judges anything: it dumps `server.services` after `setup()` and the
transcript of `UDSServerTransport.handle_request` for a history that is a
deterministic function of the dumped model (so equal models => equal histories;
TLC checks that, clause H0).  The history consists of segments, each answered by a
freshly built server (same seed, same arguments); the challenge/response segments
send keys derived from the seed just received (TLC checks that too, clause H1).  Wall clock is kept out of play: `time.time` is
replaced by a virtual clock BEFORE gallia is imported, so the 10 s inactivity
reset of `handle_request` never fires and start time differs per variant.
"""

from __future__ import annotations

import json
import sys
import time as _time


def _install_clock(base: float) -> list[float]:
    clk = [float(base)]

    def fake_time() -> float:
        clk[0] += 0.0005
        return clk[0]

    _time.time = fake_time  # type: ignore[assignment]
    return clk


# --------------------------------------------------------------------------
# request history (pure function of the dumped model)

UDS_SIDS = [0x10, 0x11, 0x14, 0x19, 0x22, 0x23, 0x24, 0x27, 0x28, 0x29, 0x2A, 0x2C, 0x2E, 0x2F, 0x31,
            0x34, 0x35, 0x36, 0x37, 0x38, 0x3D, 0x3E, 0x83, 0x84, 0x85, 0x86, 0x87]
SHORT = [b"", b"\x01", b"\xf1\x86"]
MORE = [b"\x00", b"\x02", b"\x81", b"\x01\xf1\x86", b"\xff\xff\xff", b"\x01\x02\x03\x04", b"\x03\x12\x34\x00"]
DIDS = [0xF186, 0xF190, 0x0000, 0x1234, 0xFFFF]


def lit(b: bytes | list[int]) -> tuple[str, bytes]:
    return ("lit", bytes(b))


def bfs_paths(model: list[dict]) -> dict[int, list[int]]:
    """session -> list of DSC sub-functions leading there from session 1 (request generator only)."""
    succ: dict[int, list[int]] = {}
    for e in model:
        for v in e["svcs"]:
            if v["id"] == 0x10 and v["hasSf"]:
                succ[e["s"]] = sorted(v["sf"])
    paths = {1: []}
    queue = [1]
    while queue:
        s = queue.pop(0)
        for t in succ.get(s, []):
            if t not in paths:
                paths[t] = paths[s] + [t]
                queue.append(t)
    return paths


def sa_block(sf: int) -> list[tuple]:
    return [lit([0x27, sf]), ("bad", sf + 1), lit([0x27, sf]), ("key", sf + 1), lit(b"\x22\xf1\x86"),
            ("key", sf + 1),  # no seed outstanding any more
            lit([0x27, sf]), lit(b"\x3e\x00"), ("key", sf + 1),  # tester present does not cancel
            lit([0x27, sf]), lit(b"\x22\xf1\x90"), ("key", sf + 1),  # another request cancels
            lit([0x27, sf]), ("key", (sf + 3) % 0x80), lit([0x27, sf, 0x00]), ("key", sf + 1)]


def service_block(sid: int, has_sf: bool, sfs: list[int]) -> list[tuple]:
    out: list[tuple] = []
    if sid == 0x27:
        for sf in [x for x in sfs if x % 2 == 1][:3]:
            out += [lit([0x27, sf]), lit([0x27, sf + 1, 0x11]), lit([0x27, sf | 0x80]), lit([0x27, sf, 0x00])]
        out += [lit([0x27]), lit([0x27, 0x7F]), lit([0x27, 0x00]), lit([0x27, 0x02, 0x11])]
        return out
    if sid == 0x10:
        # only non-changing / negative probes here; real session changes are done by the tour
        return [lit([0x10]), lit([0x10, 0x00]), lit([0x10, 0x7F]), lit([0x10, 0x01, 0x00])]
    if sid == 0x11:
        return []  # resets are issued at the end of the session block
    if has_sf:
        probe = sorted(set(sfs[:4] + sfs[-2:]))
        missing = [x for x in (0x00, 0x05, 0x55, 0x7F) if x not in sfs][:2]
        for sf in probe + missing:
            out += [lit([sid, sf]), lit([sid, sf | 0x80]), lit([sid, sf, 0xFF]), lit([sid, sf, 0x12, 0x34]),
                    lit([sid, sf, 0x12, 0x34, 0x56])]
        if sid == 0x19:
            out += [lit([0x19, 0x02, m]) for m in (0x00, 0x01, 0x08, 0xFF)]
        if sid == 0x31:
            out += [lit([0x31, sf, d >> 8, d & 0xFF]) for sf in (1, 2, 3) for d in DIDS[:3]]
        return out
    for d in DIDS:
        hi, lo = d >> 8, d & 0xFF
        out += [lit([sid, hi, lo]), lit([sid, hi, lo, 0x00]), lit([sid, hi, lo, 0x03, 0xAA])]
    out += [lit([sid, 0xFF, 0xFF, 0xFF]), lit([sid, 0x12, 0x34, 0x56]), lit([sid, 0x00]), lit([sid])]
    return out


def build_history(model: list[dict], hist: dict) -> list[list[tuple]]:
    """Order matters for precision only: challenge/response steps (whose outcome may
    legitimately depend on a fresh seed) come last, so that a run pair that diverges
    there for an allowed reason has already been compared on everything else."""
    steps: list[tuple] = []
    # A. sweep of every service id in the initial (default) session
    for sid in range(256):
        if sid in UDS_SIDS or hist.get("full_sweep"):
            forms = SHORT + MORE
        elif hist.get("sweep") == "short" and not (sid <= 0x0A or sid == 0x7F):
            forms = SHORT[:1]  # ids no argument list can make the ECU offer
        else:
            forms = SHORT
        for f in forms:
            if sid == 0x11 and f[:1] in (b"\x01", b"\x02", b"\x03", b"\x81"):
                continue  # resets later
            steps.append(lit(bytes([sid]) + f))
    steps.append(lit(b"\x10\x01"))
    # B. tour of the offered sessions, a block of requests per offered service
    paths = bfs_paths(model)
    sessions = sorted(e["s"] for e in model)
    ntour = int(hist.get("tour", 6))
    chosen = sessions[:ntour] + [s for s in sessions[-2:] if s not in sessions[:ntour]]
    by_s = {e["s"]: e for e in model}
    per_session_cap = int(hist.get("cap", 260))

    def enter(s: int) -> list[tuple]:
        # not reachable by the model's own DSC lists: still try the direct request
        return [lit([0x10, t]) for t in (paths.get(s) or [s])]

    for s in chosen:
        steps += enter(s)
        steps.append(lit(b"\x22\xf1\x86"))
        # a tester that only keeps the session alive for a while (suppressed TesterPresent: nothing is answered)
        steps += [lit(b"\x3e\x80")] * 4 + [lit(b"\x22\xf1\x86")]
        block: list[tuple] = []
        first = list(hist.get("first", []))  # services whose blocks come first (the cap cuts the others)
        for v in sorted(by_s[s]["svcs"], key=lambda v: (v["id"] not in first, v["id"])):
            if v["id"] != 0x27:
                block += service_block(v["id"], v["hasSf"], list(v["sf"]))
        steps += block[:per_session_cap]
        for v in by_s[s]["svcs"]:
            if v["id"] == 0x11 and v["hasSf"]:
                for sf in sorted(v["sf"])[:5]:
                    steps += [lit([0x11, sf]), lit(b"\x22\xf1\x86")] + enter(s)
        steps += [lit([0x10, 0x81]), lit(b"\x22\xf1\x86"), lit([0x10, 0x01]), lit(b"\x3e\x80"), lit(b"\x3e\x00")]
    # C. a few requests that every configuration sees
    steps += [lit(b"\x11\x01"), lit(b"\x11\x04"), lit(b"\x11\x81"), lit(b"\x19\x02\xff"), lit(b"\x14\xff\xff\xff"),
              lit(b"\x31\x01\x12\x34"), lit(b"\x2e\xf1\x90\x41\x42"), lit(b"\x2f\x12\x34\x03"), lit(b"\x22\x12\x34"),
              lit(b"\x10\x01")]
    segments = [steps]
    # D. security access (challenge/response with keys derived from the seed received):
    #    one short history per (session, access type), each on a FRESH virtual ECU built
    #    from the same seed and arguments
    nseg = 0
    for s in chosen:
        sa = [v for v in by_s[s]["svcs"] if v["id"] == 0x27 and v["hasSf"] and v["sf"]]
        if not sa:
            continue
        odd = [x for x in sa[0]["sf"] if x % 2 == 1]
        for sf in odd[:2] + odd[-1:]:
            if nseg >= int(hist.get("sa_segments", 6)):
                break
            nseg += 1
            segments.append(enter(s) + sa_block(sf) + [lit(b"\x22\xf1\x86"), lit(b"\x22\x12\x34"),
                                                       lit(b"\x19\x02\xff"), lit([0x10, 0x01])])
    segments.append([lit(b"\x27\x01"), ("key", 2), lit(b"\x22\xf1\x86"), lit(b"\x27\x01"), ("bad", 2), lit(b"\x3e\x00")])
    return segments


# --------------------------------------------------------------------------


def dump_model(services: dict) -> list[dict]:
    out = []
    for s, svcs in services.items():
        out.append({"s": int(s), "svcs": [{"id": int(k), "hasSf": v is not None,
                                          "sf": [int(x) for x in v] if v is not None else []}
                                         for k, v in svcs.items()]})
    return out


def model_digest(model: list[dict]) -> list[int]:
    import hashlib

    canon = sorted((e["s"], sorted((v["id"], v["hasSf"], sorted(set(v["sf"]))) for v in e["svcs"])) for e in model)
    return list(hashlib.sha256(json.dumps(canon).encode()).digest()[:16])


def neighbour_stream(model: list[dict]):  # noqa: ANN201
    """Endless request stream for a NEIGHBOUR ECU (never recorded): walks through its own sessions, asks for
    security seeds, sends a key, reads / writes, resets - everything that moves per-ECU state."""
    paths = bfs_paths(model)
    by_s = {e["s"]: e for e in model}
    order = [s for s in sorted(paths) if s != 1 and s in by_s] + [1]
    while True:
        for s in order:
            for t in paths.get(s) or [s]:
                yield bytes([0x10, t])
            yield b"\x22\xf1\x86"
            sa = [x for v in by_s.get(s, {"svcs": []})["svcs"] if v["id"] == 0x27 and v["hasSf"] for x in v["sf"] if x % 2]
            sf = sa[0] if sa else 0x01
            yield bytes([0x27, sf])
            yield bytes([0x27, sf + 1, 0x11, 0x22])
            yield b"\x3e\x00"
            yield b"\x19\x02\xff"
            for v in sorted(by_s.get(s, {"svcs": []})["svcs"], key=lambda v: v["id"])[:6]:
                yield bytes([v["id"], 0x01])
                yield bytes([v["id"], 0xF1, 0x90])
            yield b"\x2e\xf1\x90\x41\x42"
            yield b"\x31\x01\x12\x34"
            if s % 2 == 0:
                yield b"\x11\x01"


VENDOR_STAGES = ("pre", "post-core", "post-server", "pre-create", "post-create", "post-setup")


def vendor_stage(variant: dict, stage: str) -> None:
    """Imports the vendor modules the variant schedules for this stage:
         "pre"          before any gallia module        "post-core"    after gallia.services.uds, before ...uds.server
         "post-server"  after gallia.services.uds.server (and gallia.commands, if that came first)
         "pre-create" / "post-create" / "post-setup"    right before the first judged server is constructed /
                                                        between its construction and its setup() / after its setup()
       Importing is idempotent: for a later case of the same interpreter the modules are simply there."""
    import importlib

    for st, mod in (variant.get("vendor") or {}).get("steps", []):
        if st not in VENDOR_STAGES:
            raise CrowdError(f"unknown vendor stage {st}")
        if st == stage:
            importlib.import_module(mod)


def vendor_registered() -> list[int]:
    """service ids whose registered class comes from a vendor module of the harness (observation for the parent's
    twin check only)"""
    from gallia.services.uds.core.service import UDSService

    return sorted(int(k) for k, c in UDSService._SERVICES.items()
                  if k is not None and c.__module__.startswith("c16_vendor_"))


class CrowdError(BaseException):
    """A bug in a crowd plan / in this file: must end the child (machinery failure), never become a recorded
    outcome of the judged ECU (hence not an Exception)."""


class Crowd:
    """The other virtual ECUs of this process.  plan (all keys optional; j = index into case["pool"]):
         events  "start" / "created" / "ready"         around the FIRST judged server: before it is constructed /
                                                        constructed, not yet set up / set up (model not yet dumped)
                 "restart" / "recreated" / "restarted" the same around every later judged server (history segments)
                 "end"                                  after the last request
                 each a list of actions ["create", j] | ["setup", j] | ["new", j] (= create + setup) | ["req", j, n]
         "gather": {"before": [j..], "after": [j..]}   the first judged setup() runs inside ONE asyncio.gather with
                                                        the setups of these (already created) neighbours
         "at":    [[fraction of the judged history, [actions]], ...]   between two judged requests
         "every": [m, n] or [m, n, "concurrent"]        before every m-th judged request n requests go to the next
                                                        neighbour (round robin); "concurrent": the neighbour's
                                                        request and the judged one are gathered as two tasks
    """

    def __init__(self, build, pool: list[dict], plan: dict, S) -> None:  # noqa: ANN001
        self.build, self.pool, self.plan, self.S = build, pool, plan or {}, S
        self.live: dict[int, dict] = {}
        self.kept: list = []  # earlier instances stay alive
        self.stats = {"created": 0, "setups": 0, "requests": 0, "raised": 0, "events": 0, "nb_failed": 0, "skipped": 0}
        self.rr = 0
        self.marks: dict[int, list] = {}

    def __bool__(self) -> bool:
        return bool(self.plan)

    async def act(self, a: list) -> None:
        op, j = a[0], a[1]
        if op in ("create", "new"):
            if j in self.live:
                self.kept.append(self.live[j])
            try:
                self.live[j] = {"srv": self.build(self.pool[j]), "tr": None, "it": None}
                self.stats["created"] += 1
            except Exception:  # noqa: BLE001  (arguments a neighbour cannot be built from: its business)
                self.live[j] = {"srv": None, "tr": None, "it": None}
                self.stats["nb_failed"] += 1
        if op in ("setup", "new"):
            await self.setup(j)
        if op == "req":
            await self.requests(j, a[2])

    async def setup(self, j: int) -> None:
        from gallia.transports import TargetURI

        e = self.live[j]
        if e["srv"] is None:
            return
        try:
            await e["srv"].setup()
        except Exception:  # noqa: BLE001  (a neighbour whose setup() raises is not judged here)
            self.stats["nb_failed"] += 1
            return
        e["tr"] = self.S.UDSServerTransport(e["srv"], TargetURI(f"unix-lines:///nonexistent/c16-nb{j}.sock"))
        e["it"] = neighbour_stream(dump_model(e["srv"].services))
        self.stats["setups"] += 1

    async def requests(self, j: int, n: int, alongside=None):  # noqa: ANN001, ANN201
        e = self.live[j]
        if e["tr"] is None:  # never built / set up (see act): nothing to talk to
            self.stats["skipped"] += 1
            return None

        async def one(q: bytes) -> None:
            self.stats["requests"] += 1
            try:
                await e["tr"].handle_request(q)
            except Exception:  # noqa: BLE001
                self.stats["raised"] += 1

        out = None
        for x in range(n):
            if alongside is not None and x == 0:
                import asyncio

                _nb, out = await asyncio.gather(one(next(e["it"])), alongside())
            else:
                await one(next(e["it"]))
        return out

    async def at(self, event: str) -> None:
        try:
            for a in self.plan.get(event, []):
                self.stats["events"] += 1
                await self.act(a)
        except Exception as e:  # noqa: BLE001
            raise CrowdError(f"crowd plan {self.plan.get('name')} event {event}: {type(e).__name__}: {e}") from e

    async def judged_setup(self, server, first: bool) -> None:  # noqa: ANN001
        g = self.plan.get("gather")
        if not g or not first:
            await server.setup()
            return
        import asyncio

        missing = [j for j in list(g.get("before", [])) + list(g.get("after", [])) if j not in self.live]
        if missing:
            raise CrowdError(f"crowd plan {self.plan.get('name')}: gather names neighbours never created: {missing}")
        await asyncio.gather(*[self.setup(j) for j in g.get("before", [])], server.setup(),
                             *[self.setup(j) for j in g.get("after", [])])

    def schedule(self, total: int) -> None:
        for frac, acts in self.plan.get("at", []):
            self.marks.setdefault(max(1, min(total, int(frac * total))), []).extend(acts)

    async def before_request(self, n: int, judged):  # noqa: ANN001, ANN201
        """Runs what the plan puts before the n-th judged request; returns the judged outcome if the request was
        already issued here (concurrently with a neighbour's), else None."""
        try:
            for a in self.marks.get(n, []):
                self.stats["events"] += 1
                await self.act(a)
        except Exception as e:  # noqa: BLE001
            raise CrowdError(f"crowd plan {self.plan.get('name')} before request {n}: {type(e).__name__}: {e}") from e
        ev = self.plan.get("every")
        if ev and n % ev[0] == 0:
            ready = sorted(j for j, e in self.live.items() if e["tr"] is not None)
            if ready:
                j = ready[self.rr % len(ready)]
                self.rr += 1
                if len(ev) > 2 and ev[2] == "concurrent":
                    return await self.requests(j, ev[1], alongside=judged)
                await self.requests(j, ev[1])
        return None


async def run_case(S, case: dict, variant: dict) -> dict:  # noqa: ANN001
    import random

    from gallia.services.uds.core.constants import UDSIsoServices
    from gallia.transports import TargetURI

    out: dict = {"id": case["id"]}

    def build(spec: dict):  # noqa: ANN202
        p = dict(spec["params"])
        for k in ("mandatory_services", "optional_services"):
            if k in p:
                p[k] = [UDSIsoServices(x) for x in p[k]]
        if variant.get("via_config"):
            from gallia.commands.script.vecu import RngVirtualECU, RngVirtualECUConfig

            # the way the command line / gallia.toml deliver the same arguments: lists of strings
            # (service names, session numbers in hex notation)
            pc = dict(p)
            for k in ("mandatory_services", "optional_services"):
                if k in pc:
                    pc[k] = [UDSIsoServices(x).name for x in pc[k]]
            for k in ("mandatory_sessions", "optional_sessions"):
                if k in pc:
                    pc[k] = [hex(int(x)) for x in pc[k]]
            cfg = RngVirtualECUConfig(target="unix-lines:///nonexistent/c16.sock", seed=spec["seed"], **pc,
                                      **spec["behavior"])
            return RngVirtualECU(cfg)._server()
        return S.RandomUDSServer(spec["seed"], S.RandomUDSServer.RandomnessParameters(**p),
                                 S.UDSServer.Behavior(**spec["behavior"]))

    crowd = Crowd(build, case.get("pool", []), variant.get("crowd") or {}, S)
    vendor = bool(variant.get("vendor"))
    nfresh = 0

    async def fresh():  # noqa: ANN202
        nonlocal nfresh
        first = nfresh == 0
        nfresh += 1
        await crowd.at("start" if first else "restart")
        if first and vendor:
            vendor_stage(variant, "pre-create")
            out["vendor"] = {"at_create": vendor_registered()}
        server = build(case)
        await crowd.at("created" if first else "recreated")
        if first and vendor:
            vendor_stage(variant, "post-create")
            out["vendor"]["at_setup"] = vendor_registered()
        if variant.get("global_seed") is not None:
            random.seed(variant["global_seed"] * 7919 + 1)
        await crowd.judged_setup(server, first)
        await crowd.at("ready" if first else "restarted")
        if first and vendor:
            vendor_stage(variant, "post-setup")
            out["vendor"]["at_end"] = vendor_registered()
        return server

    try:
        server = await fresh()
    except Exception as e:  # noqa: BLE001
        out["setup_exc"] = f"{type(e).__name__}: {e}"[:300]
        return out
    model = dump_model(server.services)
    out["model"] = model
    trace = []
    n = 0
    segments = build_history(model, case.get("hist", {}))
    crowd.schedule(sum(len(sg) for sg in segments))
    for si, segment in enumerate(segments):
        if si > 0:
            try:
                server = await fresh()
            except Exception as e:  # noqa: BLE001
                trace.append({"q": [], "k": "new", "o": "x", "r": [], "x": type(e).__name__})
                break
        # pseudo step: a new virtual ECU (same seed, same arguments) was started; its "answer" is a digest of its model
        trace.append({"q": [], "k": "new", "o": "r", "r": model_digest(dump_model(server.services))})
        tr = S.UDSServerTransport(server, TargetURI("unix-lines:///nonexistent/c16.sock"))
        last_seed: bytes = b""
        for kind, arg in segment:
            if kind == "lit":
                q = arg
            elif kind == "key":
                q = bytes([0x27, arg]) + last_seed
            else:
                q = bytes([0x27, arg]) + last_seed + b"\x5a"
            n += 1

            async def judged(q: bytes = q, kind: str = kind, tr=tr) -> dict:  # noqa: ANN001
                if variant.get("pace"):
                    variant["_clk"][0] += float(variant["pace"])  # the tester's pause before this request (< 10 s)
                if variant.get("global_seed") is not None and n % 97 == 0:
                    random.seed(variant["global_seed"] + n)
                try:
                    r, _dt = await tr.handle_request(q)
                    if r is None:
                        return {"q": list(q), "k": kind, "o": "n", "r": []}
                    return {"q": list(q), "k": kind, "o": "r", "r": list(r)}
                except Exception as e:  # noqa: BLE001
                    return {"q": list(q), "k": kind, "o": "x", "r": [], "x": type(e).__name__}

            step = (await crowd.before_request(n, judged)) if crowd else None
            if step is None:
                step = await judged()
            r = step["r"]
            if step["o"] == "r" and len(q) >= 1 and q[0] == 0x27 and len(r) >= 2 and r[0] == 0x67 and r[1] % 2 == 1:
                last_seed = bytes(r[2:])
            trace.append(step)
    await crowd.at("end")
    out["tr"] = trace
    out["final_session"] = int(server.state.session)
    if crowd:
        out["crowd"] = dict(crowd.stats, plan=variant["crowd"].get("name"))
    return out


def main() -> None:
    job = json.load(open(sys.argv[1]))
    variant = job["variant"]
    clk = _install_clock(variant.get("clock_base", 1.0e9))
    variant["_clk"] = clk
    import logging

    logging.disable(logging.CRITICAL)
    import random

    if variant.get("global_seed") is not None:
        random.seed(variant["global_seed"])
    vendor_stage(variant, "pre")
    if any(st == "post-core" for st, _m in (variant.get("vendor") or {}).get("steps", [])):
        # codecs and client; as found this does not import the server module (if an edition of gallia does, the stage
        # coincides with post-server: still before the ECU is constructed, the twins stay twins)
        import gallia.services.uds  # noqa: F401

        vendor_stage(variant, "post-core")
    if variant.get("import_first") == "commands":
        import gallia.commands  # noqa: F401
        import gallia.commands.script.vecu  # noqa: F401
    import gallia.services.uds.server as S

    if variant.get("mutant") == "registry_snapshot":
        # binding self-test only (vendor family): a virtual ECU that sees the codec registry as it was when the server
        # module was imported (while it is constructed and while it generates its model); classes registered later
        # do not exist for it
        from gallia.services.uds.core.service import UDSService as _U

        _snapshot = dict(_U._SERVICES)

        def _frozen(f):  # noqa: ANN001, ANN202
            def g(self, *a, **kw):  # noqa: ANN001, ANN002, ANN003, ANN202
                now = dict(_U._SERVICES)
                _U._SERVICES.clear()
                _U._SERVICES.update(_snapshot)
                try:
                    return f(self, *a, **kw)
                finally:
                    _U._SERVICES.clear()
                    _U._SERVICES.update(now)

            return g

        S.RandomUDSServer.__init__ = _frozen(S.RandomUDSServer.__init__)  # type: ignore[method-assign]
        S.RandomUDSServer.randomize = _frozen(S.RandomUDSServer.randomize)  # type: ignore[method-assign]

    vendor_stage(variant, "post-server")

    if variant.get("mutant") == "global_rng":
        # binding self-test only: a generator that draws from the GLOBAL random module
        class GlobalRNG(S.RNG):  # type: ignore[misc,name-defined]
            def random(self) -> float:
                return random.random()

        S.RNG = GlobalRNG  # type: ignore[misc]

    if variant.get("mutant") in ("shared_model", "memo_first"):
        # binding self-test only (crowd family): virtual ECUs whose model lives in ONE object per process;
        # "shared_model": every setup() republishes it (the last ECU set up wins),
        # "memo_first":   it is computed once per process (the first ECU set up wins)
        _orig_randomize = S.RandomUDSServer.randomize
        _shared: dict = {}
        _first = variant["mutant"] == "memo_first"

        def _randomize(self) -> None:  # noqa: ANN001
            if not (_first and _shared):
                _orig_randomize(self)
                mine = dict(self.services)
                _shared.clear()
                _shared.update(mine)
            self.services = _shared

        S.RandomUDSServer.randomize = _randomize  # type: ignore[method-assign]

    import asyncio

    cases = list(job["cases"])
    if variant.get("reverse"):
        cases.reverse()

    async def go() -> list[dict]:
        res = []
        for c in cases:
            res.append(await run_case(S, c, variant))
        return res

    results = asyncio.run(go())
    if variant.get("reverse"):
        results.reverse()
    variant.pop("_clk", None)
    json.dump({"variant": variant["name"], "hashseed": __import__("os").environ.get("PYTHONHASHSEED"),
               "clock_end": clk[0], "python": sys.version.split()[0], "results": results},
              open(sys.argv[2], "w"))


if __name__ == "__main__":
    main()
