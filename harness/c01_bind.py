"""C01/C02 binding between gallia's UDS request/response classes and the kinds /
field names of spec/UdsLayoutContract.tla.

Everything here is *structural*: which class is which kind, which constructor
keyword carries which field, which public attribute exposes which field, which
UDSClient method sends which kind.  Nothing here knows a byte position, a width,
a range or a service id -- those live in the TLA+ layout tables, and TLC does
all comparing.  A class / attribute this table does not know raises Machinery,
so a newly added request kind or response field cannot silently escape.
"""

from __future__ import annotations

import inspect
from abc import ABC
from typing import Any

from gallia.services.uds.core import service as S

from harness.common import Machinery

BAD_INT = -999999  # an exposed attribute that should be an int but is not: never equals a layout value


# ----------------------------------------------------------------------------- values
def big(v: dict[str, Any]) -> int:
    n = int.from_bytes(bytes(v["b"]), "big")
    return -n if v["neg"] else n


def unbig(n: Any) -> dict[str, Any]:
    if not isinstance(n, int) or isinstance(n, bool):
        return {"neg": True, "b": [0xEE]}  # never equals a decoded value (those are non-negative)
    a = abs(n)
    return {"neg": n < 0, "b": list(a.to_bytes((a.bit_length() + 7) // 8, "big"))}


def xi(v: Any) -> int:
    if isinstance(v, bool) or not isinstance(v, int):
        return BAD_INT
    return int(v) if -(2**31) < v < 2**31 else BAD_INT


def xb(v: Any) -> list[int]:
    if isinstance(v, (bytes, bytearray)):
        return list(v)
    return [BAD_INT]


def xl(v: Any) -> list[int]:
    if isinstance(v, (list, tuple)):
        return [xi(e) for e in v]
    return [BAD_INT]


def xbool(v: Any) -> bool:
    return bool(v)


# ----------------------------------------------------------------------------- reflection
def is_abstract(cls: type) -> bool:
    return inspect.isabstract(cls) or ABC in cls.__bases__ or cls.__name__.startswith("_")


def _walk(container: type, base: type, acc: set[type]) -> None:
    for v in vars(container).values():
        if inspect.isclass(v):
            if issubclass(v, base):
                acc.add(v)
            elif v.__module__ == S.__name__ and not issubclass(v, (S.UDSRequest, S.UDSResponse)):
                _walk(v, base, acc)


def reachable(base: type) -> list[type]:
    """Classes reachable from UDSService._SERVICES (Request/Response attributes, sub-function
    registries, nested holder classes), the RESPONSE_TYPE links and the public namespace of
    gallia.services.uds.core.service."""
    acc: set[type] = set()
    for svc in S.UDSService._SERVICES.values():
        _walk(svc, base, acc)
    for v in vars(S).values():
        if inspect.isclass(v) and issubclass(v, base) and v.__module__ == S.__name__:
            acc.add(v)
    if base is S.UDSResponse:
        for r in reachable(S.UDSRequest):
            rt = getattr(r, "RESPONSE_TYPE", None)
            if inspect.isclass(rt) and issubclass(rt, S.UDSResponse):
                acc.add(rt)
    return sorted(acc, key=lambda c: c.__name__)


RAW = {"RawRequest", "RawResponse", "RawPositiveResponse", "RawNegativeResponse"}

REQ_KIND_OVERRIDE = {"ReportMostRecentFirstTestFailedDTCRequest": "ReportMostRecentTestFailedDTC"}
RESP_KIND_OVERRIDE = {"ReportMostrecentConfirmedDTCResponse": "ReportMostRecentConfirmedDTC",
                      "NegativeResponse": "NegativeResponse"}


def req_kind(cls: type) -> str:
    n = cls.__name__
    return REQ_KIND_OVERRIDE.get(n, n[: -len("Request")] if n.endswith("Request") else n)


def resp_kind(cls: type) -> str:
    n = cls.__name__
    return RESP_KIND_OVERRIDE.get(n, n[: -len("Response")] if n.endswith("Response") else n)


def concrete_classes(base: type, layout_kinds: set[str], kind_of: Any) -> dict[str, type]:
    """kind -> class for every concrete, non-raw class; Machinery if one has no layout row."""
    out: dict[str, type] = {}
    missing = []
    for c in reachable(base):
        if c.__name__ in RAW or is_abstract(c):
            continue
        k = kind_of(c)
        if k not in layout_kinds:
            missing.append(c.__name__)
            continue
        if k in out and out[k] is not c:
            raise Machinery(f"two classes for kind {k}: {out[k].__name__}, {c.__name__}")
        out[k] = c
    if missing:
        raise Machinery(f"classes without a layout row in UdsLayoutContract.tla: {missing}")
    return out


# ----------------------------------------------------------------------------- requests: f -> constructor kwargs
def _mem1(f: dict[str, Any]) -> dict[str, Any]:
    return {"memory_address": big(f["addrs"][0]), "memory_size": big(f["sizes"][0]),
            "address_and_length_format_identifier": None if f["alfid_auto"] else f["alfid"]}


def _routine(f: dict[str, Any]) -> dict[str, Any]:
    return {"routine_identifier": f["rid"], "routine_control_option_record": bytes(f["record"]),
            "suppress_response": f["sup"]}


def _mask(f: dict[str, Any]) -> dict[str, Any]:
    return {"dtc_status_mask": f["mask"], "suppress_response": f["sup"]}


def _plain(f: dict[str, Any]) -> dict[str, Any]:
    return {"suppress_response": f["sup"]}


def _iocp(f: dict[str, Any]) -> dict[str, Any]:
    return {"data_identifier": f["did"], "control_enable_mask_record": bytes(f["mask"])}


def _updl(f: dict[str, Any]) -> dict[str, Any]:
    d = _mem1(f)
    d.update(compression_method=f["comp"], encryption_method=f["enc"])
    return d


REQ_KWARGS: dict[str, Any] = {
    "DiagnosticSessionControl": lambda f: {"diagnostic_session_type": f["sf"], "suppress_response": f["sup"]},
    "ECUReset": lambda f: {"reset_type": f["sf"], "suppress_response": f["sup"]},
    "RequestSeed": lambda f: {"security_access_type": f["sf"], "security_access_data_record": bytes(f["record"]),
                              "suppress_response": f["sup"]},
    "SendKey": lambda f: {"security_access_type": f["sf"], "security_key": bytes(f["record"]),
                          "suppress_response": f["sup"]},
    "CommunicationControl": lambda f: {"control_type": f["sf"], "communication_type": f["ctype"],
                                       "suppress_response": f["sup"]},
    "TesterPresent": _plain,
    "ControlDTCSetting": lambda f: {"dtc_setting_type": f["sf"],
                                    "dtc_setting_control_option_record": bytes(f["record"]),
                                    "suppress_response": f["sup"]},
    "ReadDataByIdentifier": lambda f: {"data_identifiers": list(f["dids"])},
    "ReadMemoryByAddress": _mem1,
    "DefineByIdentifier": lambda f: {"dynamically_defined_data_identifier": f["dddid"],
                                     "source_data_identifiers": list(f["sdids"]),
                                     "positions_in_source_data_record": list(f["positions"]),
                                     "memory_sizes": list(f["msizes"]), "suppress_response": f["sup"]},
    "DefineByMemoryAddress": lambda f: {"dynamically_defined_data_identifier": f["dddid"],
                                        "memory_addresses": [big(a) for a in f["addrs"]],
                                        "memory_sizes": [big(a) for a in f["sizes"]],
                                        "address_and_length_format_identifier":
                                            None if f["alfid_auto"] else f["alfid"],
                                        "suppress_response": f["sup"]},
    "ClearDynamicallyDefinedDataIdentifier": lambda f: {
        "dynamically_defined_data_identifier": f["dddid"] if f["has_id"] else None,
        "suppress_response": f["sup"]},
    "WriteDataByIdentifier": lambda f: {"data_identifier": f["did"], "data_record": bytes(f["record"])},
    "WriteMemoryByAddress": lambda f: {"memory_address": big(f["addrs"][0]), "data_record": bytes(f["record"]),
                                       "memory_size": None if f["size_auto"] else big(f["sizes"][0]),
                                       "address_and_length_format_identifier":
                                           None if f["alfid_auto"] else f["alfid"]},
    "ClearDiagnosticInformation": lambda f: {"group_of_dtc": f["group"]},
    "ReportNumberOfDTCByStatusMask": _mask,
    "ReportDTCByStatusMask": _mask,
    "ReportMirrorMemoryDTCByStatusMask": _mask,
    "ReportNumberOfMirrorMemoryDTCByStatusMask": _mask,
    "ReportNumberOfEmissionsRelatedOBDDTCByStatusMask": _mask,
    "ReportEmissionsRelatedOBDDTCByStatusMask": _mask,
    "ReportSupportedDTC": _plain,
    "ReportFirstTestFailedDTC": _plain,
    "ReportFirstConfirmedDTC": _plain,
    "ReportMostRecentTestFailedDTC": _plain,
    "ReportMostRecentConfirmedDTC": _plain,
    "ReportDTCWithPermanentStatus": _plain,
    "ReportDTCExtDataRecordByDTCNumber": lambda f: {"dtc_mask_record": f["dtc"],
                                                    "dtc_ext_data_record_number": f["recnum"],
                                                    "suppress_response": f["sup"]},
    "InputOutputControlByIdentifier": lambda f: {"data_identifier": f["did"],
                                                 "control_option_record": bytes(f["option"]),
                                                 "control_enable_mask_record": bytes(f["mask"])},
    "ReturnControlToECU": _iocp,
    "ResetToDefault": _iocp,
    "FreezeCurrentState": _iocp,
    "ShortTermAdjustment": lambda f: {"data_identifier": f["did"], "control_states": bytes(f["option"][1:]),
                                      "control_enable_mask_record": bytes(f["mask"])},
    "StartRoutine": _routine,
    "StopRoutine": _routine,
    "RequestRoutineResults": _routine,
    "RequestDownload": _updl,
    "RequestUpload": _updl,
    "TransferData": lambda f: {"block_sequence_counter": f["bsc"],
                               "transfer_request_parameter_record": bytes(f["record"])},
    "RequestTransferExit": lambda f: {"transfer_request_parameter_record": bytes(f["record"])},
}


def ctor_kwargs(cls: type, kind: str, f: dict[str, Any]) -> dict[str, Any]:
    kw = REQ_KWARGS[kind](f)
    params = inspect.signature(cls.__init__).parameters
    # parameters the ISO message does not have (e.g. the unused dtc_status_mask of the
    # reportSupportedDTC family): give them a neutral value if they are mandatory
    for name, p in params.items():
        if name == "self" or name in kw:
            continue
        if p.default is inspect.Parameter.empty and p.kind in (p.POSITIONAL_OR_KEYWORD, p.KEYWORD_ONLY):
            kw[name] = 0
    unknown = [k for k in kw if k not in params]
    if unknown:
        raise Machinery(f"binding: {cls.__name__}.__init__ has no parameter(s) {unknown}")
    return kw


# ----------------------------------------------------------------------------- requests: object -> exposed fields
def _x_mem1(o: Any) -> dict[str, Any]:
    return {"alfid": xi(o.address_and_length_format_identifier), "addrs": [unbig(o.memory_address)],
            "sizes": [unbig(o.memory_size)]}


def _x_sf(attr: str) -> Any:
    return lambda o: {"sf": xi(getattr(o, attr)), "sup": xbool(o.suppress_response)}


def _x_routine(o: Any) -> dict[str, Any]:
    return {"rid": xi(o.routine_identifier), "record": xb(o.routine_control_option_record),
            "sup": xbool(o.suppress_response)}


def _x_mask(o: Any) -> dict[str, Any]:
    return {"mask": xi(o.dtc_status_mask), "sup": xbool(o.suppress_response)}


def _x_plain(o: Any) -> dict[str, Any]:
    return {"sup": xbool(o.suppress_response)}


def _x_iocbi(o: Any) -> dict[str, Any]:
    return {"did": xi(o.data_identifier), "option": xb(o.control_option_record),
            "mask": xb(o.control_enable_mask_record)}


def _x_updl(o: Any) -> dict[str, Any]:
    d = _x_mem1(o)
    d.update(comp=xi(o.compression_method), enc=xi(o.encryption_method))
    return d


def _x_rec(sfattr: str, recattr: str) -> Any:
    return lambda o: {"sf": xi(getattr(o, sfattr)), "record": xb(getattr(o, recattr)),
                      "sup": xbool(o.suppress_response)}


REQ_EXPOSE: dict[str, Any] = {
    "DiagnosticSessionControl": _x_sf("diagnostic_session_type"),
    "ECUReset": _x_sf("reset_type"),
    "RequestSeed": _x_rec("security_access_type", "security_access_data_record"),
    "SendKey": _x_rec("security_access_type", "security_key"),
    "CommunicationControl": lambda o: {"sf": xi(o.control_type), "ctype": xi(o.communication_type),
                                       "sup": xbool(o.suppress_response)},
    "TesterPresent": _x_plain,
    "ControlDTCSetting": _x_rec("dtc_setting_type", "dtc_setting_control_option_record"),
    "ReadDataByIdentifier": lambda o: {"dids": xl(o.data_identifiers)},
    "ReadMemoryByAddress": _x_mem1,
    "DefineByIdentifier": lambda o: {"dddid": xi(o.dynamically_defined_data_identifier),
                                     "sdids": xl(o.source_data_identifiers),
                                     "positions": xl(o.positions_in_source_data_record),
                                     "msizes": xl(o.memory_sizes), "sup": xbool(o.suppress_response)},
    "DefineByMemoryAddress": lambda o: {"dddid": xi(o.dynamically_defined_data_identifier),
                                        "alfid": xi(o.address_and_length_format_identifier),
                                        "addrs": [unbig(a) for a in o.memory_addresses],
                                        "sizes": [unbig(a) for a in o.memory_sizes],
                                        "sup": xbool(o.suppress_response)},
    "ClearDynamicallyDefinedDataIdentifier": lambda o: {
        "has_id": o.dynamically_defined_data_identifier is not None,
        "dddid": 0 if o.dynamically_defined_data_identifier is None
        else xi(o.dynamically_defined_data_identifier),
        "sup": xbool(o.suppress_response)},
    "WriteDataByIdentifier": lambda o: {"did": xi(o.data_identifier), "record": xb(o.data_record)},
    "WriteMemoryByAddress": lambda o: dict(_x_mem1(o), record=xb(o.data_record)),
    "ClearDiagnosticInformation": lambda o: {"group": xi(o.group_of_dtc)},
    "ReportNumberOfDTCByStatusMask": _x_mask,
    "ReportDTCByStatusMask": _x_mask,
    "ReportMirrorMemoryDTCByStatusMask": _x_mask,
    "ReportNumberOfMirrorMemoryDTCByStatusMask": _x_mask,
    "ReportNumberOfEmissionsRelatedOBDDTCByStatusMask": _x_mask,
    "ReportEmissionsRelatedOBDDTCByStatusMask": _x_mask,
    "ReportSupportedDTC": _x_plain,
    "ReportFirstTestFailedDTC": _x_plain,
    "ReportFirstConfirmedDTC": _x_plain,
    "ReportMostRecentTestFailedDTC": _x_plain,
    "ReportMostRecentConfirmedDTC": _x_plain,
    "ReportDTCWithPermanentStatus": _x_plain,
    "ReportDTCExtDataRecordByDTCNumber": lambda o: {"dtc": xi(o.dtc_mask_record),
                                                    "recnum": xi(o.dtc_ext_data_record_number),
                                                    "sup": xbool(o.suppress_response)},
    "InputOutputControlByIdentifier": _x_iocbi,
    "ReturnControlToECU": _x_iocbi,
    "ResetToDefault": _x_iocbi,
    "FreezeCurrentState": _x_iocbi,
    "ShortTermAdjustment": _x_iocbi,
    "StartRoutine": _x_routine,
    "StopRoutine": _x_routine,
    "RequestRoutineResults": _x_routine,
    "RequestDownload": _x_updl,
    "RequestUpload": _x_updl,
    "TransferData": lambda o: {"bsc": xi(o.block_sequence_counter),
                               "record": xb(o.transfer_request_parameter_record)},
    "RequestTransferExit": lambda o: {"record": xb(o.transfer_request_parameter_record)},
}

# ----------------------------------------------------------------------------- requests: UDSClient methods
_c_mem = lambda f: {"memory_address": big(f["addrs"][0]), "memory_size": big(f["sizes"][0]),  # noqa: E731
                    "address_and_length_format_identifier": None if f["alfid_auto"] else f["alfid"]}
_same = lambda kind: (lambda f: REQ_KWARGS[kind](f))  # noqa: E731

CLIENT_METHOD: dict[str, tuple[str, Any]] = {
    "DiagnosticSessionControl": ("diagnostic_session_control", _same("DiagnosticSessionControl")),
    "ECUReset": ("ecu_reset", _same("ECUReset")),
    "RequestSeed": ("security_access_request_seed", _same("RequestSeed")),
    "SendKey": ("security_access_send_key", _same("SendKey")),
    "CommunicationControl": ("communication_control", _same("CommunicationControl")),
    "TesterPresent": ("tester_present", _same("TesterPresent")),
    "ControlDTCSetting": ("control_dtc_setting", _same("ControlDTCSetting")),
    "ReadDataByIdentifier": ("read_data_by_identifier", _same("ReadDataByIdentifier")),
    "ReadMemoryByAddress": ("read_memory_by_address", _same("ReadMemoryByAddress")),
    "WriteDataByIdentifier": ("write_data_by_identifier", _same("WriteDataByIdentifier")),
    "WriteMemoryByAddress": ("write_memory_by_address", _same("WriteMemoryByAddress")),
    "ClearDiagnosticInformation": ("clear_diagnostic_information", _same("ClearDiagnosticInformation")),
    "ReportNumberOfDTCByStatusMask": ("read_dtc_information_report_number_of_dtc_by_status_mask", _mask),
    "ReportDTCByStatusMask": ("read_dtc_information_report_dtc_by_status_mask", _mask),
    "ReportMirrorMemoryDTCByStatusMask": ("read_dtc_information_report_mirror_memory_dtc_by_status_mask", _mask),
    "ReportNumberOfMirrorMemoryDTCByStatusMask":
        ("read_dtc_information_report_number_of_mirror_memory_dtc_by_status_mask", _mask),
    "ReportNumberOfEmissionsRelatedOBDDTCByStatusMask":
        ("read_dtc_information_report_number_of_emissions_related_obd_dtc_by_status_mask", _mask),
    "ReportEmissionsRelatedOBDDTCByStatusMask":
        ("read_dtc_information_report_emissions_related_obd_dtc_by_status_mask", _mask),
    "ReportDTCExtDataRecordByDTCNumber": ("report_dtc_extended_data_record_by_dtc_number",
                                          _same("ReportDTCExtDataRecordByDTCNumber")),
    "InputOutputControlByIdentifier": ("input_output_control_by_identifier",
                                       _same("InputOutputControlByIdentifier")),
    "ReturnControlToECU": ("input_output_control_by_identifier_return_control_to_ecu", _iocp),
    "ResetToDefault": ("input_output_control_by_identifier_reset_to_default", _iocp),
    "FreezeCurrentState": ("input_output_control_by_identifier_freeze_current_state", _iocp),
    "ShortTermAdjustment": ("input_output_control_by_identifier_short_term_adjustment",
                            _same("ShortTermAdjustment")),
    "StartRoutine": ("routine_control_start_routine", _routine),
    "StopRoutine": ("routine_control_stop_routine", _routine),
    "RequestRoutineResults": ("routine_control_request_routine_results", _routine),
    "RequestDownload": ("request_download", _updl),
    "RequestUpload": ("request_upload", _updl),
    "TransferData": ("transfer_data", _same("TransferData")),
    "RequestTransferExit": ("request_transfer_exit", _same("RequestTransferExit")),
    "DefineByIdentifier": ("define_by_identifier", _same("DefineByIdentifier")),
    "DefineByMemoryAddress": ("define_by_memory_address", _same("DefineByMemoryAddress")),
    "ClearDynamicallyDefinedDataIdentifier": ("clear_dynamically_defined_data_identifier",
                                              _same("ClearDynamicallyDefinedDataIdentifier")),
}

# ----------------------------------------------------------------------------- responses: object -> exposed fields
def _r_sf(attr: str) -> Any:
    return lambda o: {"sf": xi(getattr(o, attr))}


def _r_dddid(o: Any) -> dict[str, Any]:
    return {"dddid": xi(o.dynamically_defined_data_identifier)}


def _r_count(o: Any) -> dict[str, Any]:
    return {"mask": xi(o.dtc_status_availability_mask), "fmt": xi(int(o.dtc_format_identifier)),
            "count": xi(o.dtc_count)}


def _r_list(o: Any) -> dict[str, Any]:
    d = o.dtc_and_status_record
    return {"mask": xi(o.dtc_status_availability_mask), "dtcs": [xi(k) for k in d.keys()],
            "statuses": [xi(v) for v in d.values()]}


def _r_ext(o: Any) -> dict[str, Any]:
    recs = list(o.dtc_ext_data_records.items())
    out = {"dtc": xi(o.dtc_and_status_record[0]), "status": xi(o.dtc_and_status_record[1]),
           "has_rec": len(recs) > 0, "recnum": 0, "data": []}
    if recs:
        out["recnum"] = xi(recs[0][0])
        out["data"] = xb(recs[0][1])
        # gallia decodes everything behind the first record number as ONE record; an object exposing several
        # records is laid out the way they would stand on the wire (number, data, number, data ...) so that the
        # contract compares it with the bytes received
        for num, data in recs[1:]:
            out["data"] = out["data"] + [xi(num)] + xb(data)
    return out


def _r_iocbi(o: Any) -> dict[str, Any]:
    return {"did": xi(o.data_identifier), "status": xb(o.control_status_record)}


def _r_routine(o: Any) -> dict[str, Any]:
    return {"rid": xi(o.routine_identifier), "record": xb(o.routine_status_record)}


def _r_updl(o: Any) -> dict[str, Any]:
    return {"lfi": xi(o.length_format_identifier), "blocklen": unbig(o.max_number_of_block_length)}


def _r_rdbi(o: Any) -> dict[str, Any]:
    if len(o.data_identifiers) != 1 or len(o.data_records) != 1:
        raise Machinery("binding: parsed ReadDataByIdentifierResponse with several identifiers")
    return {"did": xi(o.data_identifiers[0]), "record": xb(o.data_records[0])}


def _r_cleardddi(o: Any) -> dict[str, Any]:
    v = o.dynamically_defined_data_identifier
    return {"has_id": v is not None, "dddid": 0 if v is None else xi(v)}


# kind -> (expose, public attributes the exposure accounts for)
RESP_EXPOSE: dict[str, tuple[Any, set[str]]] = {
    "DiagnosticSessionControl": (lambda o: {"sf": xi(o.diagnostic_session_type),
                                            "record": xb(o.session_parameter_record)},
                                 {"diagnostic_session_type", "session_parameter_record"}),
    "ECUReset": (lambda o: {"sf": xi(o.reset_type), "has_pdt": o.power_down_time is not None,
                            "pdt": 0 if o.power_down_time is None else xi(o.power_down_time)},
                 {"reset_type", "power_down_time"}),
    "SecurityAccess": (lambda o: {"sf": xi(o.security_access_type), "seed": xb(o.security_seed)},
                       {"security_access_type", "security_seed"}),
    "CommunicationControl": (_r_sf("control_type"), {"control_type"}),
    "TesterPresent": (lambda o: {}, set()),
    "ControlDTCSetting": (_r_sf("dtc_setting_type"), {"dtc_setting_type"}),
    "ReadDataByIdentifier": (_r_rdbi, {"data_identifiers", "data_records"}),
    "ReadMemoryByAddress": (lambda o: {"record": xb(o.data_record)}, {"data_record"}),
    "DefineByIdentifier": (_r_dddid, {"dynamically_defined_data_identifier"}),
    "DefineByMemoryAddress": (_r_dddid, {"dynamically_defined_data_identifier"}),
    "ClearDynamicallyDefinedDataIdentifier": (_r_cleardddi, {"dynamically_defined_data_identifier"}),
    "WriteDataByIdentifier": (lambda o: {"did": xi(o.data_identifier)}, {"data_identifier"}),
    "WriteMemoryByAddress": (_x_mem1, {"memory_address", "memory_size", "address_and_length_format_identifier"}),
    "ClearDiagnosticInformation": (lambda o: {}, set()),
    "ReportDTCExtDataRecordByDTCNumber": (_r_ext, {"dtc_and_status_record", "dtc_ext_data_records"}),
    "RequestDownload": (_r_updl, {"max_number_of_block_length", "length_format_identifier"}),
    "RequestUpload": (_r_updl, {"max_number_of_block_length", "length_format_identifier"}),
    "TransferData": (lambda o: {"bsc": xi(o.block_sequence_counter),
                                "record": xb(o.transfer_response_parameter_record)},
                     {"block_sequence_counter", "transfer_response_parameter_record"}),
    "RequestTransferExit": (lambda o: {"record": xb(o.transfer_response_parameter_record)},
                            {"transfer_response_parameter_record"}),
    "NegativeResponse": (lambda o: {"rsid": xi(o.request_service_id), "nrc": xi(int(o.response_code))},
                         {"request_service_id", "response_code"}),
}
for _k in ("ReportNumberOfDTCByStatusMask", "ReportNumberOfMirrorMemoryDTCByStatusMask",
           "ReportNumberOfEmissionsRelatedOBDDTCByStatusMask"):
    RESP_EXPOSE[_k] = (_r_count, {"dtc_status_availability_mask", "dtc_format_identifier", "dtc_count"})
for _k in ("ReportDTCByStatusMask", "ReportSupportedDTC", "ReportFirstTestFailedDTC", "ReportFirstConfirmedDTC",
           "ReportMostRecentTestFailedDTC", "ReportMostRecentConfirmedDTC", "ReportMirrorMemoryDTCByStatusMask",
           "ReportEmissionsRelatedOBDDTCByStatusMask", "ReportDTCWithPermanentStatus"):
    RESP_EXPOSE[_k] = (_r_list, {"dtc_status_availability_mask", "dtc_and_status_record"})
for _k in ("InputOutputControlByIdentifier", "ReturnControlToECU", "ResetToDefault", "FreezeCurrentState",
           "ShortTermAdjustment"):
    RESP_EXPOSE[_k] = (_r_iocbi, {"data_identifier", "control_status_record"})
for _k in ("StartRoutine", "StopRoutine", "RequestRoutineResults"):
    RESP_EXPOSE[_k] = (_r_routine, {"routine_identifier", "routine_status_record", "routine_control_type"})

IGNORED_ATTRS = {"trigger_request"}
UNCOVERED_ATTRS: dict[str, set[str]] = {}


def expose_request(obj: Any) -> tuple[str, dict[str, Any]]:
    k = req_kind(type(obj))
    if k not in REQ_EXPOSE:
        raise Machinery(f"binding: no exposure for request class {type(obj).__name__}")
    try:
        return k, REQ_EXPOSE[k](obj)
    except AttributeError as e:
        raise Machinery(f"binding: {type(obj).__name__} lacks an attribute the binding reads: {e}") from e


def expose_response(obj: Any) -> tuple[str, dict[str, Any]]:
    k = resp_kind(type(obj))
    if k not in RESP_EXPOSE:
        raise Machinery(f"binding: no exposure for response class {type(obj).__name__}")
    fn, attrs = RESP_EXPOSE[k]
    public = {a for a in vars(obj) if not a.startswith("_")} - IGNORED_ATTRS
    extra = public - attrs
    if extra:
        # attributes the ISO layout does not know (derived / convenience values) are not judged; they are
        # counted so that the evidence shows the binding no longer covers everything the class exposes
        UNCOVERED_ATTRS.setdefault(type(obj).__name__, set()).update(extra)
    try:
        return k, fn(obj)
    except AttributeError as e:
        raise Machinery(f"binding: {type(obj).__name__} lacks an attribute the binding reads: {e}") from e
