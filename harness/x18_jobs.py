"""X18: session families (jobs for the worker processes) and the worker itself.

job = {"spec": log specification, "sessions": [{"script": [items], "size": [h, w], "fam": str, "opts": {...},
       "design": [...] (spec -> code only)}]}
The worker writes the log with gallia's writer, runs every session on the real viewer, names what the user saw by
the harness's ground truth and returns one record per session (harness/props/x18.py sends them to TLC).
"""

from __future__ import annotations

import random
from typing import Any

from harness import x18_cases as C
from harness import x18_run as R

PRIO_OF_OPT = {"critical": 2, "error": 3, "warning": 4, "notice": 5, "info": 6, "debug": 7, "trace": 8}

EXHAUSTIVE_NOTE = {
    "quick": "every sequence of <= 2 key commands out of 17 (6 movements, P to WARNING / TRACE, v, p to INFO / TRACE, u, r, "
             "two filters, empty filter, help) followed by q, on 4 logs (hidden and multi-line records) x 2 terminal sizes; every "
             "sequence of <= 2 of 10 reflow commands (G, up, down, Page Up, g, x, t, three resizes) on 4 logs with a long last record; "
             "design layer: every key sequence up to the depth bounds of MC_CursedHr_{all3,nav4,cfg3}; the other families "
             "are seeded samples",
    "thorough": "every sequence of <= 3 key commands out of 17 followed by q on 2 logs, <= 2 on 4 logs x 2 sizes; every sequence of "
                "<= 3 of 10 reflow commands on 4 logs with a long last record; design "
                "layer: every key sequence up to the depth bounds of MC_CursedHr_{all3deep,nav4deep,cfg3deep}; the other "
                "families are seeded samples",
}


# ------------------------------------------------------------------ the worker
def run_job(job: dict[str, Any]) -> list[dict[str, Any]]:
    d = R.workdir()
    try:
        log = R.Log(job["spec"], d)
        ground = C.ground(log)
        out = []
        for s in job["sessions"]:
            sc = s["script"]
            if s.get("resolve"):
                sc = resolve(log, s["resolve"])
            opts = s.get("opts", {})
            res = R.run_session(log.path, [it["key"] for it in sc], tuple(s["size"]), priority=opts.get("priority"),
                                filters=opts.get("filters"), prefix=opts.get("prefix", True),
                                relative=opts.get("relative", False), mutant=s.get("mutant"))
            used = res["end"]["keys_used"]
            obs = []
            for snap in res["snaps"]:
                p = R.project(log, snap)
                obs.append({"kind": p["kind"], "rows": p["rows"], "cur": p["cur"], "other": p["other"], "h": p["h"], "w": p["w"]})
            rec = {"fam": s["fam"], "spec": job["spec"], "size": list(s["size"]), "opts": opts, "script": sc,
                   "log": ground, "prio0": PRIO_OF_OPT.get(opts.get("priority", "debug"), 7), "filt0": int(opts.get("filt0", 0)),
                   "keys": [{"t": it["t"], "n": it["n"]} for it in sc[:used]], "obs": obs, "how": res["end"]["how"],
                   "restored": res["end"]["curses_ended"] >= 1, "end": res["end"]}
            if "design" in s:
                rec["design"] = s["design"]
            out.append(rec)
        return out
    finally:
        R.cleanup(d)


def resolve(log: R.Log, plan: dict[str, Any]) -> list[dict[str, Any]]:
    """scripts that need the written log (filter texts naming a character of a record) are built in the worker"""
    kind = plan["kind"]
    m = C.macros(log)
    if kind == "macros":
        sc: list[dict[str, Any]] = []
        for name in plan["names"]:
            if isinstance(name, dict):
                sc.append(name)
            else:
                sc += m[name]
        return sc
    if kind == "random":
        rnd = random.Random(plan["seed"])
        sc = C.random_script(rnd, log, plan["length"], size=tuple(plan["size"]), wild=plan.get("wild", 0.0),
                             resize_p=plan.get("resize_p", 0.06), sizes=[tuple(x) for x in plan["sizes"]] if plan.get("sizes") else None)
        if plan.get("quit"):
            sc.append(C.tok("quit"))
        return sc
    raise ValueError(kind)


# ------------------------------------------------------------------ families
def _sess(fam: str, size: tuple[int, int], *, names: list[Any] | None = None, script: list[dict[str, Any]] | None = None,
          plan: dict[str, Any] | None = None, opts: dict[str, Any] | None = None) -> dict[str, Any]:
    s: dict[str, Any] = {"fam": fam, "size": list(size), "opts": opts or {}, "script": script or []}
    if names is not None:
        s["resolve"] = {"kind": "macros", "names": names}
    if plan is not None:
        s["resolve"] = plan
    return s


LONG_TRUE = " and len(data) >= 0 and len(module) > 0 and len(host) >= 0 and priority >= 0"


def build_jobs(tier: str, seed: int) -> list[dict[str, Any]]:
    rnd = random.Random(f"x18-{seed}-{tier}")
    thorough = tier == "thorough"
    jobs: list[dict[str, Any]] = []

    # ---- exh: every short sequence of key commands, then q
    import itertools

    for li in range(4):
        spec = C.small_log_spec(li)
        sessions = []
        for size in ((6, 100), (5, 120)):
            depth = 3 if (thorough and li < 2 and size == (6, 100)) else 2
            for n in range(1, depth + 1):
                for combo in itertools.product(C.CORE, repeat=n):
                    sessions.append(_sess("exh", size, names=list(combo) + ["quit"]))
        for k in range(0, len(sessions), 450):
            jobs.append({"spec": spec, "sessions": sessions[k:k + 450]})

    # ---- rand: long random sessions on random logs
    for i in range(60 if not thorough else 400):
        n = rnd.choice([1, 2, 3, 5, 8, 12, 20, 40])
        spec = R.gen_log_spec(rnd, n, name=f"rand{i}", maxlines=rnd.choice([1, 3, 4]))
        if i % 7 == 3:
            spec["container"] = "plain"
        if i % 7 == 5:
            spec["container"] = "gz"
        sessions = []
        for k in range(5 if not thorough else 8):
            size = rnd.choice([(6, 110), (10, 120), (5, 130), (8, 160), (24, 120)])
            sessions.append(_sess("rand", size, plan={"kind": "random", "seed": rnd.randrange(1 << 30), "length": rnd.randint(3, 28),
                                                      "size": list(size), "quit": k % 2 == 0}))
        jobs.append({"spec": spec, "sessions": sessions})

    # ---- wrap: long lines, width changes, prefix / timestamp toggles, the default 80x24 terminal
    for i in range(20 if not thorough else 150):
        spec = R.gen_log_spec(rnd, rnd.choice([3, 6, 15]), name=f"wrap{i}", maxlines=3, longline=rnd.choice([90, 180, 300]))
        sessions = []
        for k in range(5 if not thorough else 8):
            size = rnd.choice([(24, 80), (10, 80), (8, 100), (12, 132)])
            sessions.append(_sess("wrap", size, plan={"kind": "random", "seed": rnd.randrange(1 << 30), "length": rnd.randint(3, 24),
                                                      "size": list(size), "resize_p": 0.12,
                                                      "sizes": [[24, 80], [10, 100], [7, 132], [30, 80], [6, 90]]}))
        jobs.append({"spec": spec, "sessions": sessions})

    # ---- reflow: a long last record, the terminal gets wider / narrower, the prefix goes away (entries change their
    #      number of display lines while the view stands in the middle of one)
    rf = ["end", "up", "down", "ppage", "home", "x", "t", C.resize(5, 160), C.resize(5, 80), C.resize(9, 110)]
    for i, (ll, size) in enumerate([(400, (4, 80)), (900, (6, 80)), (2500, (24, 80)), (300, (5, 100))]):
        spec = C.spec_from([6, 7, 6], [1, 2, 1], name=f"reflow{i}", long_at={2: ll, 0: 120})
        sessions = []
        for n in range(1, (3 if thorough else 2) + 1):
            for combo in itertools.product(rf, repeat=n):
                sessions.append(_sess("reflow", size, names=list(combo) + ["down", "quit"]))
        for k in range(0, len(sessions), 300):
            jobs.append({"spec": spec, "sessions": sessions[k:k + 300]})

    # ---- help: the help screen on usual terminal sizes, keys inside the help
    helpkeys = ["up", "down", "ppage", "npage", "home", "end"]
    for i, size in enumerate([(24, 80), (24, 100), (30, 120), (50, 160), (10, 132), (24, 106), (24, 110)]):
        spec = C.small_log_spec(i)
        sessions = [_sess("help", size, names=[C.tok("help"), C.tok("quit"), "down", "quit"]),
                    _sess("help", size, names=["down", "down", C.tok("help"), C.tok("esc"), "up", "quit"])]
        for hk in helpkeys:
            sessions.append(_sess("help", size, names=["npage", C.tok("help"), C.tok(hk), C.tok(hk), C.tok("quit"), "down", "quit"]))
        for _ in range(3 if not thorough else 12):
            ks = [C.tok(rnd.choice(helpkeys)) for _ in range(rnd.randint(1, 8))]
            sessions.append(_sess("help", size, names=["end", C.tok("help"), *ks, C.tok(rnd.choice(["quit", "esc"])), "up"]))
        jobs.append({"spec": spec, "sessions": sessions})

    # ---- input: filter input (long texts, refused texts, texts that raise on real records, history keys)
    for i in range(3 if not thorough else 10):
        spec = C.small_log_spec(i + 1)
        sessions = []
        for size in ((24, 80), (10, 120)):
            sessions.append(_sess("input", size, script=C.typed("priority <= 5" + LONG_TRUE, 1) + [C.tok("down"), C.tok("quit")]))
            sessions.append(_sess("input", size, script=C.typed(" " * (size[1] - 15) + "priority <= 5", 1) + [C.tok("quit")]))
            for t in C.INVALID_FILTERS:
                sessions.append(_sess("input", size, script=C.typed(t, -1) + [C.tok("esc"), C.tok("down"), C.tok("quit")]))
            for t in C.RAISING_FILTERS:
                sessions.append(_sess("input", size, script=C.typed(t, -2) + [C.tok("down"), C.tok("end"), C.tok("quit")]))
            sessions.append(_sess("input", size, names=["f1", C.tok("f"), C.other("KEY_UP"), C.tok("enter", -2), "down", "quit"]))
            sessions.append(_sess("input", size, names=["f2", "f-none", "undo", "undo", "redo", "end", "quit"]))
            for hw in ((size[0] - 3, size[1]), (size[0] + 4, size[1]), (size[0], size[1] - 30)):
                sessions.append(_sess("input", size, script=[C.tok("f"), {"t": "ch", "n": 0, "key": "1"},
                                                             {"t": "other", "n": 0, "key": {"resize": list(hw)}},
                                                             {"t": "other", "n": 0, "key": "1"}, C.tok("esc"), C.tok("quit")]))
            sessions.append(_sess("input", size, script=[C.tok("f")] + [C.other(k) for k in
                                  ["a", "KEY_LEFT", "KEY_BACKSPACE", "KEY_DC", "KEY_RIGHT", "KEY_DOWN", "KEY_UP", "KEY_RESIZE"]] + [C.tok("esc")]))
        jobs.append({"spec": spec, "sessions": sessions})

    # ---- opts: the command line options (--priority, --filter, --no-prefix, --relative-timings)
    for i in range(2 if not thorough else 7):
        spec = C.small_log_spec(i)
        sessions = []
        for pr in ("info", "trace", "warning", "critical"):
            sessions.append(_sess("opts", (8, 120), names=["down", "end", "home", "npage", "quit"], opts={"priority": pr}))
        sessions.append(_sess("opts", (8, 120), names=["down", "end", "ppage", "quit"], opts={"filters": ["priority != 6"], "filt0": 3}))
        sessions.append(_sess("opts", (8, 120), names=["down", "end", "x", "ppage", "quit"], opts={"prefix": False}))
        sessions.append(_sess("opts", (8, 120), names=["down", "z", "t", "end", "ppage", "quit"], opts={"relative": True}))
        jobs.append({"spec": spec, "sessions": sessions})

    # ---- wild: keys the sources say nothing about (crash / hang / terminal clauses only)
    for i in range(10 if not thorough else 80):
        spec = R.gen_log_spec(rnd, rnd.choice([1, 4, 10]), name=f"wild{i}")
        sessions = []
        for _ in range(5 if not thorough else 8):
            size = rnd.choice([(6, 110), (24, 120)])
            sessions.append(_sess("wild", size, plan={"kind": "random", "seed": rnd.randrange(1 << 30), "length": rnd.randint(3, 20),
                                                      "size": list(size), "wild": 0.25}))
        jobs.append({"spec": spec, "sessions": sessions})

    # ---- narrow: terminals narrower than the documented ground (observations only)
    if thorough:
        for i in range(12):
            spec = C.small_log_spec(i)
            sessions = [_sess("narrow", (rnd.choice([6, 24]), w), names=["down", "end", "help", "quit"])
                        for w in (20, 30, 40, 50, 60, 70)]
            jobs.append({"spec": spec, "sessions": sessions})
    return jobs


# ------------------------------------------------------------------ spec -> code
def sim_jobs(behs: list[list[tuple[str, dict[str, Any]]]]) -> list[dict[str, Any]]:
    jobs = []
    for bi, beh in enumerate(behs):
        if len(beh) < 2 or not isinstance(beh[0][1].get("log"), list):
            continue
        mlog = beh[0][1]["log"]
        n = len(mlog)
        prios = [x["prio"] for x in mlog]
        nls = [len(x["lens"]) for x in mlog]
        raising = any(any(x["und"]) for x in mlog)
        # filter 1 of the model = `"ta" in (tags or [])`: the records it passes carry the tag
        tags: list[list[str] | None] = [(["ta"] if x["sat"][0] else (None if raising else ["tb"])) for x in mlog]
        f2 = '"ta" in tags' if n == 3 else f'module == "{R.MODULE}"'
        spec = C.spec_from(prios, nls, name=f"sim{bi}", tags=tags)
        h0 = beh[0][1]["s"]["H"]
        script: list[dict[str, Any]] = []
        design = []
        refused = False  # a refused text is still in the input line: the next ENTER completes it to something valid
        for _act, st in beh[1:]:
            k = st["lastkey"]
            t, num = k["t"], k["n"]
            if t == "resize":
                script.append(C.resize(num, 120))
            elif t == "ch":
                script.append({"t": "ch", "n": 0, "key": " "})
            elif t == "enter":
                if num == -1:
                    text, arg = "0 +", -1
                    refused = True
                else:
                    text = {0: "", 1: '"ta" in (tags or [])', 2: f2}[num]
                    arg = -2 if (num == 2 and n == 3) else (2 if num == 1 else (5 if num == 2 else 0))
                    if refused:
                        text = " 1" if num == 0 else " 1 and " + text
                        arg = 5 if num == 0 else arg
                    refused = False
                script += [{"t": "ch", "n": 0, "key": c} for c in text] + [C.tok("enter", arg)]
            elif t == "lvl":
                script.append(C.tok("lvl", num))
            else:
                if t == "esc":
                    refused = False
                script.append(C.tok(t))
            s = st["s"]
            if s["mode"] == "main":
                if s["rows"][0]["f"]:
                    want = {"kind": "none", "rows": [], "cur": 0}
                else:
                    want = {"kind": "log", "rows": [[x["r"], x["k"]] for x in s["rows"]], "cur": s["cur"]}
            else:
                want = {"kind": "skip"}
            design.append({"after_key": len(script), "want": want, "mode": s["mode"]})
        jobs.append({"spec": spec, "sessions": [{"fam": "sim", "size": [h0, 120], "opts": {}, "script": script, "design": design}]})
    return jobs


def mutant_job() -> dict[str, Any]:
    return {"spec": C.small_log_spec(0), "sessions": [{"fam": "mutant", "size": [6, 100], "opts": {}, "mutant": "newline-ignored",
                                                       "script": [C.tok("down"), C.tok("down"), C.tok("quit")]}]}
