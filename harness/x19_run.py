"""X19 helpers: drive the REAL logging front end of gallia in-process and record
(action, observation) traces for TLC (spec/Trace_LogFront.tla).

Nothing in here judges the property.  The module

* installs two scripted stream objects (write() calls recorded one by one,
  isatty() scripted) and makes the stderr one `sys.stderr` WHILE gallia.log is
  imported (resolve_color_mode binds its default stream at import time) and
  while a case runs,
* runs sessions of setup_logging / add_zst_log_handler / remove_zst_log_handler /
  logger calls, waits after every action until all QueueListener threads are
  idle, and attributes the write() calls seen meanwhile to that action,
* reads closed log files back by decompressing them itself (the reader is C17's),
* runs the hr entry point on log files and records what it prints per record,
* extracts syntactic facts from every printed chunk (escape codes, whether the
  message text is complete, what follows it, visible width, the clock fields).

Import this module before anything else imports gallia (worker processes are
spawned, see harness/props/x19.py).
"""

from __future__ import annotations

import datetime as dt
import json
import logging
import os
import re
import shutil
import sys
import tempfile
import threading
import time
import types
from logging.handlers import QueueListener
from pathlib import Path
from typing import Any

from harness.common import Machinery


class Scripted:
    """A text stream whose write() calls are kept apart and whose isatty() is scripted."""

    def __init__(self) -> None:
        self.tty = False
        self.writes: list[str] = []
        self.encoding = "utf-8"

    def write(self, s: str) -> int:
        if s:
            self.writes.append(s)
        return len(s)

    def flush(self) -> None:
        pass

    def isatty(self) -> bool:
        return self.tty

    def fileno(self) -> int:
        raise OSError("scripted stream")

    def reset(self, tty: bool) -> None:
        self.tty = tty
        self.writes = []


ERR = Scripted()
OUT = Scripted()

if "gallia.log" in sys.modules:
    raise Machinery("harness.x19_run must be imported before gallia.log (run X19 cases in spawned workers)")
_real_err = sys.stderr
sys.stderr = ERR  # type: ignore[assignment]
try:
    import zstandard
    from gallia import log as glog
    from gallia import utils as gutils
    from gallia.cli import hr as ghr
finally:
    sys.stderr = _real_err

MARK_L, MARK_R = "⟦", "⟧"
MARK_RE = re.compile(MARK_L + r"(\d+)" + MARK_R)
# complete CSI sequences, and CSI sequences cut short by the next ESC (a terminal drops those)
CSI_RE = re.compile(r"\x1b\[[0-?]*[ -/]*[@-~]|\x1b(?:\[[0-?]*[ -/]*)?(?=\x1b)")
SGR_RE = re.compile(r"\x1b\[([0-9;]*)m")
TS_RE = re.compile(r"(\d\d):(\d\d):(\d\d)(?:[.,](\d{3}))?")

# RFC 3164 severities (+ trace): the harness' own table, not read from gallia
NAME_OF = {2: "CRITICAL", 3: "ERROR", 4: "WARNING", 5: "NOTICE", 6: "INFO", 7: "DEBUG", 8: "TRACE"}
PRIO_OF = {v: k for k, v in NAME_OF.items()}
LOGGER_OF = {"root": "", "gallia": "gallia", "child": "gallia.x19child", "other": "x19other"}
STYLE_NAMES = {"0;38;5;245": "gray", "1": "bold", "33": "yellow", "31": "red", "31+1": "redbold", "": "nop"}


class X19Error(Exception):
    pass


def _raise(msg: str, depth: int = 1) -> None:
    if depth == 0:
        raise X19Error(msg)
    _raise(msg, depth - 1)


# ----------------------------------------------------------------------------
# listener threads

def _listeners() -> list[tuple[threading.Thread, QueueListener]]:
    out = []
    for t in threading.enumerate():
        tgt = getattr(t, "_target", None)
        owner = getattr(tgt, "__self__", None)
        if isinstance(owner, QueueListener):
            out.append((t, owner))
    return out


def drain() -> None:
    """Wait until every QueueListener of the process has handled what was queued."""
    deadline = time.monotonic() + 20
    for t, lst in _listeners():
        q = lst.queue
        while t.is_alive() and getattr(q, "unfinished_tasks", 0) > 0:
            if time.monotonic() > deadline:
                raise Machinery("a QueueListener did not become idle within 20 s")
            time.sleep(0.0002)


def stop_listeners() -> None:
    for t, lst in _listeners():
        try:
            lst.enqueue_sentinel()
        except Exception:  # noqa: BLE001
            pass
        t.join(5)


class _Clock(logging.Filter):
    """Deterministic record clock (no wall-clock dependence)."""

    def __init__(self) -> None:
        super().__init__()
        self.next: float | None = None

    def filter(self, record: logging.LogRecord) -> bool:
        if self.next is not None:
            record.created = self.next
            record.msecs = (record.created - int(record.created)) * 1000
        return True


CLOCK = _Clock()


def reset_logging() -> None:
    stop_listeners()
    for name in LOGGER_OF.values():
        lg = logging.getLogger(name)
        for h in list(lg.handlers):
            try:
                h.close()
            except Exception:  # noqa: BLE001
                pass
            lg.removeHandler(h)
        for f in list(lg.filters):
            lg.removeFilter(f)
        lg.setLevel(logging.WARNING if name == "" else logging.NOTSET)
        lg.propagate = True
        lg.disabled = False
    logging.disable(logging.NOTSET)
    for k in ("NO_COLOR", "GALLIA_LOGLEVEL", "COLUMNS"):
        os.environ.pop(k, None)


# ----------------------------------------------------------------------------
# observations

def created_of(base: int, i: int) -> tuple[float, dict[str, int]]:
    ms = (137 * i + 5) % 1000
    created = float(base + 61 * i) + ms / 1000.0 + 0.0002
    lt = time.localtime(int(created))
    return created, {"eh": lt.tm_hour, "em": lt.tm_min, "es": lt.tm_sec, "ems": ms}


def make_msg(i: int, shape: str, long: bool, cols: int) -> str:
    head = f"{MARK_L}{i}{MARK_R} "
    if shape == "multi":
        body = "first line\n  second line ü\nthird"
    elif shape == "exc":
        body = "operation failed"
    else:
        body = f"message number {i}"
    if long:
        body += " " + "x" * (cols + 25)
    return head + body


def style_of(raw: str, msg: str) -> str:
    """Design-level projection only: the SGR codes in front of the message, by name."""
    idx = raw.find(msg[:4])
    pre = raw[:idx] if idx >= 0 else raw
    codes = [p for p in SGR_RE.findall(pre) if p not in ("0",)]
    key = "+".join(codes)
    return STYLE_NAMES.get(key, key or "nop")


def chunk_obs(raw: str, msg: str, name: str, tags: list[str], exc: str | None) -> dict[str, Any]:
    sgrs = SGR_RE.findall(raw)
    rst = sum(1 for p in sgrs if p in ("0", ""))
    plain = CSI_RE.sub("", raw)
    idx = plain.find(msg)
    whole = idx >= 0
    if whole:
        after = plain[idx + len(msg): idx + len(msg) + 1]
        before = plain[:idx]
        rest = plain[idx + len(msg):]
    else:
        after = plain[-1:]
        before = plain
        rest = ""
    end = {"\n": "nl", "\r": "cr", "": "none"}.get(after, "other")
    m = TS_RE.search(before)
    return {
        "sgr": len(sgrs) - rst, "rst": rst, "esc": raw.count("\x1b") - len(sgrs),
        "whole": whole, "name": whole and name in before,
        "tags": whole and all(t in before for t in tags),
        "trace": whole and exc is not None and "Traceback (most recent call last)" in rest and "X19Error" in rest
        and exc in rest,
        "end": end, "vis": len(plain.rstrip("\r\n")),
        "th": int(m.group(1)) if m else -1, "tm": int(m.group(2)) if m else -1,
        "tsec": int(m.group(3)) if m else -1, "tms": int(m.group(4)) if m and m.group(4) else -1,
        "style": style_of(raw, msg), "colored": bool(sgrs),
    }


def read_ids(path: Path) -> list[int]:
    """Record ids (markers) of a closed log file, decompressed and split here."""
    with path.open("rb") as f:
        raw = zstandard.ZstdDecompressor().stream_reader(f).read()
    out = []
    for ln in raw.split(b"\n"):
        if not ln:
            continue
        if ln.startswith(b"<") and b">" in ln[:6]:
            ln = ln[ln.index(b">") + 1:]
        try:
            data = json.loads(ln.decode())["data"]
            m = MARK_RE.search(data)
            out.append(int(m.group(1)) if m else 0)
        except Exception:  # noqa: BLE001
            out.append(0)
    return out


# ----------------------------------------------------------------------------
# sessions

def _set_env(e: dict[str, Any]) -> None:
    for k, v in (("NO_COLOR", "1" if e.get("nocolor") else None), ("GALLIA_LOGLEVEL", e.get("env")),
                 ("COLUMNS", str(e["cols"]))):
        if v is None:
            os.environ.pop(k, None)
        else:
            os.environ[k] = v


def run_session(case: dict[str, Any], keep_raw: bool = False) -> dict[str, Any]:
    """Run one scripted session against the real code; returns the recorded trace."""
    reset_logging()
    tmp = Path(tempfile.mkdtemp(prefix="x19-"))
    base = 1_700_000_000 + (case.get("cn", 0) * 7919) % 50_000_000
    ev_out: list[dict[str, Any]] = []
    handlers: dict[int, Any] = {}
    removed: dict[int, Any] = {}
    paths: dict[int, Path] = {}
    raws: list[str] = []
    nlog = 0
    cols = 80
    for name in ("gallia", "child", "other"):
        logging.getLogger(LOGGER_OF[name]).addFilter(CLOCK)
    old_err = sys.stderr
    sys.stderr = ERR  # type: ignore[assignment]
    ERR.reset(False)
    seen_writes = [0]
    try:
        dead = False

        def do(e: dict[str, Any]) -> None:
            nonlocal dead, nlog, cols
            a = e["a"]
            ERR.writes = []
            if a == "setup":
                cols = e["cols"]
                ERR.tty = e["tty"]
                _set_env(e)
                kw: dict[str, Any] = {"color_mode": glog.ColorMode(e["mode"]), "no_volatile_info": not e["vol"]}
                if e["lvl"] != -1:
                    kw["level"] = glog.Loglevel[NAME_OF[e["lvl"]]]
                if e["node"] == "root" or e.get("explicit_name"):
                    kw["logger_name"] = LOGGER_OF[e["node"]]
                try:
                    glog.setup_logging(**kw)
                    e["ok"] = True
                except Exception as ex:  # noqa: BLE001
                    e["ok"] = False
                    e["exc"] = repr(ex)
                    dead = True
            elif a == "add":
                paths[e["f"]] = tmp / f"log{e['f']}-{len(ev_out)}.json.zst"
                try:
                    handlers[e["f"]] = glog.add_zst_log_handler("gallia", paths[e["f"]], glog.Loglevel[NAME_OF[e["lvl"]]])
                    e["ok"] = True
                except Exception as ex:  # noqa: BLE001
                    e["ok"] = False
                    e["exc"] = repr(ex)
                    dead = True
            elif a == "rm":
                try:
                    removed[e["f"]] = handlers.pop(e["f"])
                    glog.remove_zst_log_handler("gallia", removed[e["f"]])
                    e["ok"] = True
                except Exception as ex:  # noqa: BLE001
                    e["ok"] = False
                    e["exc"] = repr(ex)
                e["got"] = read_ids(paths[e["f"]]) if e["ok"] else []
            elif a == "log":
                nlog += 1
                e["id"] = nlog
                created, exp = created_of(base, nlog)
                e.update(exp)
                CLOCK.next = created
                lg = glog.get_logger(LOGGER_OF[e["src"]])
                msg = make_msg(nlog, e["shape"], bool(e.get("long")), cols)
                tags = ["alpha", "beta-ß"] if e["shape"] == "tags" else []
                kw2: dict[str, Any] = {}
                if tags:
                    kw2["extra"] = {"tags": list(tags)}
                lname = NAME_OF[e["prio"]]
                try:
                    if e["shape"] == "result":
                        lg.result(msg)
                    elif e["shape"] == "exc":
                        try:
                            _raise(f"boom-{nlog}")
                        except X19Error:
                            if e.get("via") == "log":
                                lg.log(int(glog.Loglevel[lname]), msg, exc_info=True)
                            else:
                                getattr(lg, lname.lower())(msg, exc_info=True)
                    elif e.get("via") == "log":
                        lg.log(int(glog.Loglevel[lname]), msg, **kw2)
                    else:
                        getattr(lg, lname.lower())(msg, **kw2)
                except Exception as ex:  # noqa: BLE001
                    e["exc"] = repr(ex)
                drain()
                CLOCK.next = None
                exc = f"boom-{nlog}" if e["shape"] == "exc" else None
                if case.get("mutant") == "drop-writes":
                    # binding self-test only: a stream fake that loses every second write() call
                    kept = []
                    for w in ERR.writes:
                        seen_writes[0] += 1
                        if seen_writes[0] % 2 == 1:
                            kept.append(w)
                    ERR.writes = kept
                e["w"] = [chunk_obs(w, msg, LOGGER_OF[e["src"]], tags, exc) for w in ERR.writes]
                if keep_raw:
                    raws.extend(ERR.writes)
            elif a == "end":
                e["files"] = [read_ids(paths[f]) if f in paths and f not in handlers else [] for f in (1, 2)]
                # records that were still handed to a handler after its removal (they sit in its queue)
                e["late"] = [removed[f].queue_handler.queue.qsize() if f in removed and f not in handlers else 0
                             for f in (1, 2)]
            else:
                raise Machinery(f"unknown action {a!r}")
            if a != "log":
                drain()
                if ERR.writes:
                    e["stray"] = len(ERR.writes)
            ev_out.append(e)

        for e0 in case["ev"]:
            if dead:
                break
            do(dict(e0))
        if not dead:
            # the harness closes what the script left open, then looks at every file once more
            for f in sorted(handlers):
                do({"a": "rm", "f": f, "by": "harness"})
            do({"a": "end"})
    finally:
        sys.stderr = old_err
        for h in handlers.values():
            try:
                glog.remove_zst_log_handler("gallia", h)
            except Exception:  # noqa: BLE001
                pass
        reset_logging()
        shutil.rmtree(tmp, ignore_errors=True)
    out = {"kind": "run", "origin": case.get("origin", "?"), "ev": ev_out}
    if keep_raw:
        out["raw"] = raws
    return out


# ----------------------------------------------------------------------------
# hr

def _iso(created: float) -> str:
    return dt.datetime.fromtimestamp(created, tz=dt.timezone(dt.timedelta(hours=2))).isoformat()


def synth_line(i: int, r: dict[str, Any], created: float, prefix: bool) -> tuple[bytes, str, dict[str, int]]:
    """One penlog v2 line as a producer would write it (ground truth of the hr cases)."""
    msg = make_msg(i, r["shape"], False, 80)
    iso = _iso(created)
    rec: dict[str, Any] = {"module": "gallia.x19synth", "host": "host", "data": msg, "datetime": iso,
                           "priority": r["prio"], "version": 2, "line": "/src/x19.py:12"}
    if r["shape"] == "tags":
        rec["tags"] = ["alpha", "beta-ß"]
    elif r.get("tags_null"):
        rec["tags"] = None
    if r["shape"] == "exc":
        rec["stacktrace"] = ("Traceback (most recent call last):\n  File \"/src/x19.py\", line 12, in f\n"
                             f"X19Error: boom-{i}")
    if r.get("pylevel") and r["prio"] >= 2:
        rec["_python_level_no"] = int({2: 50, 3: 40, 4: 30, 5: 25, 6: 20, 7: 10, 8: 5}[r["prio"]])
        rec["_python_level_name"] = NAME_OF[r["prio"]]
        rec["_python_func_name"] = "f"
    line = json.dumps(rec).encode()
    if prefix:
        line = f"<{r['prio']}>".encode() + line
    return line, msg, _fields(iso)


def _fields(iso: str) -> dict[str, int]:
    m = re.search(r"T(\d\d):(\d\d):(\d\d)(?:\.(\d{3}))?", iso)
    assert m, iso
    return {"eh": int(m.group(1)), "em": int(m.group(2)), "es": int(m.group(3)), "ems": int(m.group(4) or 0)}


def _write_real(recs: list[dict[str, Any]], path: Path, base: int) -> list[tuple[str, dict[str, int]]]:
    """The log file produced by gallia's own writer for `recs` (no console installed)."""
    reset_logging()
    lg = glog.get_logger("gallia.x19synth")
    top = logging.getLogger("gallia")
    top.setLevel(1)
    top.addFilter(CLOCK)
    lg.addFilter(CLOCK)
    h = glog.add_zst_log_handler("gallia", path, glog.Loglevel.TRACE)
    msgs = []
    try:
        for i, r in enumerate(recs, 1):
            created, _ = created_of(base, i)
            CLOCK.next = created
            msg = make_msg(i, r["shape"], False, 80)
            fn = getattr(lg, NAME_OF[r["prio"]].lower())
            if r["shape"] == "exc":
                try:
                    _raise(f"boom-{i}")
                except X19Error:
                    fn(msg, exc_info=True)
            elif r["shape"] == "tags":
                fn(msg, extra={"tags": ["alpha", "beta-ß"]})
            else:
                fn(msg)
            msgs.append(msg)
    finally:
        CLOCK.next = None
        glog.remove_zst_log_handler("gallia", h)
        lg.removeFilter(CLOCK)
        reset_logging()
    with path.open("rb") as f:
        raw = zstandard.ZstdDecompressor().stream_reader(f).read()
    out = []
    for msg, ln in zip(msgs, [x for x in raw.split(b"\n") if x]):
        body = ln[ln.index(b">") + 1:] if ln.startswith(b"<") else ln
        out.append((msg, _fields(json.loads(body.decode())["datetime"])))
    if len(out) != len(recs):
        raise Machinery(f"writer produced {len(out)} lines for {len(recs)} records")
    return out


def run_hr(case: dict[str, Any], keep_raw: bool = False) -> dict[str, Any]:
    """hr -p trace --color MODE FILE with scripted stdout / stderr; one observation per printed chunk."""
    reset_logging()
    tmp = Path(tempfile.mkdtemp(prefix="x19-"))
    base = 1_700_000_000 + (case.get("cn", 0) * 104_729) % 50_000_000
    recs = [dict(r) for r in case["recs"]]
    try:
        path = tmp / "log.json.zst"
        if case["source"] == "writer":
            info = _write_real(recs, path, base)
            if case["prefix"] != "all":
                with path.open("rb") as f:
                    raw = zstandard.ZstdDecompressor().stream_reader(f).read()
                lines = [x for x in raw.split(b"\n") if x]
                lines = [re.sub(rb"^<\d+>", b"", ln) if (case["prefix"] == "none" or j % 2 == 0) else ln
                         for j, ln in enumerate(lines)]
                path.write_bytes(zstandard.ZstdCompressor().compress(b"\n".join(lines) + b"\n"))
        else:
            lines, info = [], []
            for i, r in enumerate(recs, 1):
                created, _ = created_of(base, i)
                pfx = case["prefix"] == "all" or (case["prefix"] == "mixed" and i % 2 == 1)
                ln, msg, flds = synth_line(i, r, created, pfx)
                lines.append(ln)
                info.append((msg, flds))
            path.write_bytes(zstandard.ZstdCompressor().compress(b"\n".join(lines) + b"\n"))
        for r, (_, flds) in zip(recs, info):
            r.update(flds)
        os.environ.pop("NO_COLOR", None)
        if case["nocolor"]:
            os.environ["NO_COLOR"] = "1"
        OUT.reset(case["tty"])
        ERR.reset(case["etty"])
        old = (sys.argv, sys.stdout, sys.stderr)
        sys.argv = ["hr", "-p", "trace", "--color", case["mode"], str(path)]
        sys.stdout, sys.stderr = OUT, ERR  # type: ignore[assignment]
        exc = None
        try:
            ghr.main()
            code = 0
        except SystemExit as ex:
            code = ex.code if isinstance(ex.code, int) else (0 if ex.code is None else 1)
        except Exception as ex:  # noqa: BLE001
            code = 70
            exc = repr(ex)
        finally:
            sys.argv, sys.stdout, sys.stderr = old
        writes = list(OUT.writes)
        w = []
        if len(writes) == len(recs):
            for j, (r, (msg, _), raw_) in enumerate(zip(recs, info, writes), 1):
                w.append(chunk_obs(raw_, msg, "gallia.x19synth", ["alpha", "beta-ß"] if r["shape"] == "tags" else [],
                                   f"boom-{j}" if r["shape"] == "exc" else None))
        else:
            w = [{"sgr": 0, "rst": 0, "esc": 0, "whole": False, "name": False, "tags": False, "trace": False,
                  "end": "none", "vis": 0, "th": -1, "tm": -1, "tsec": -1, "tms": -1, "style": "?", "colored": False}
                 for _ in writes]
        out = {"kind": "hr", "origin": case.get("origin", "hr"), "mode": case["mode"], "tty": case["tty"],
               "etty": case["etty"], "nocolor": case["nocolor"], "prefix": case["prefix"], "source": case["source"],
               "exit": code, "exc": exc, "errlines": len(ERR.writes), "recs": recs, "w": w}
        if keep_raw:
            out["raw"] = writes
        return out
    finally:
        os.environ.pop("NO_COLOR", None)
        shutil.rmtree(tmp, ignore_errors=True)


# ----------------------------------------------------------------------------
# pairs and tables

def run_pair(case: dict[str, Any]) -> dict[str, Any]:
    def side(c: dict[str, Any]) -> list[str]:
        t = run_hr(c, keep_raw=True) if c["kind"] == "hr" else run_session(c, keep_raw=True)
        return list(t["raw"])

    a, b = side(case["A"]), side(case["B"])
    if case.get("strip"):
        a = [CSI_RE.sub("", s) for s in a]
    return {"kind": "pair", "origin": "pair", "what": case["what"], "a": a, "b": b,
            "nonempty": bool(a) and bool(b)}


def _prio_of_level(x: Any) -> int:
    return PRIO_OF.get(getattr(x, "name", "?"), -1)


def run_table(case: dict[str, Any]) -> dict[str, Any]:
    k = case["kind"]
    out = dict(case)
    out["origin"] = "table"
    if k == "levels":
        rows = []
        for name, member in glog.Loglevel.__members__.items():
            try:
                p = int(glog.PenlogPriority.from_level(int(member)).value)
            except Exception:  # noqa: BLE001
                p = -1
            try:
                back = int(glog.PenlogPriority(p).to_level())
            except Exception:  # noqa: BLE001
                back = -1
            rows.append({"name": name, "lv": int(member), "prio": p, "back": back})
        tl = []
        for p in range(9):
            try:
                lv = int(glog.PenlogPriority(p).to_level())
            except Exception:  # noqa: BLE001
                lv = -1
            tl.append({"p": p, "lv": lv})
        out.update(rows=rows, tolevel=tl)
    elif k == "fromstr":
        try:
            out["res"] = int(glog.PenlogPriority.from_str(case["s"]).value)
        except ValueError:
            out["res"] = -1
        except Exception:  # noqa: BLE001
            out["res"] = -2
    elif k == "verb":
        out["prio"] = _prio_of_level(gutils.get_log_level(case["n"]))
    elif k == "filelevel":
        ns = types.SimpleNamespace()
        if case["has_tl"]:
            ns.trace_log = case["tl"]
        if case["verbose"] is not None:
            ns.verbose = case["verbose"]
        out["prio"] = _prio_of_level(gutils.get_file_log_level(ns))
        out["verbose"] = case["verbose"] if case["verbose"] is not None else 0
    else:
        raise Machinery(f"unknown table {k}")
    return out


def run_case(case: dict[str, Any]) -> dict[str, Any]:
    k = case["kind"]
    if k == "run":
        return run_session(case)
    if k == "hr":
        return run_hr(case)
    if k == "pair":
        return run_pair(case)
    return run_table(case)


def run_chunk(cases: list[dict[str, Any]]) -> list[dict[str, Any]]:
    return [run_case(c) for c in cases]
