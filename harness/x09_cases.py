"""X09 — families of cases (ECU script x configuration) for the real PDU fuzzer and the two primitives.

Options that gallia parses from strings are generated as a DENOTATION first and rendered into the documented
grammar in varying spellings (harness.c10_cases.render_list); the command gets the strings, the contract gets
the denotation.  All generators are deterministic functions of (tier, seed).
"""

from __future__ import annotations

import itertools
import random
from typing import Any

from harness.c10_cases import render_list

# answer classes of the enumerated scripts (one representative per class of the contract)
ALPHABET: list[list[Any]] = [["pos"], ["neg", 0x31], ["neg", 0x33], ["sil"], ["mis", 0], ["mal", 0], ["drop"]]
NRCS = [0x10, 0x11, 0x12, 0x13, 0x22, 0x24, 0x31, 0x33, 0x35, 0x72, 0x7E, 0x7F]
SERVICE_SPELLINGS = {0x2E: [None, "0x2e", "46", "WriteDataByIdentifier", "0x2E"], 0x31: ["0x31", "49", "RoutineControl"]}


def fuzz_case(svc: int, dids: list[int], sessions: list[int] | None, mn: int | None, mx: int | None,
              iterations: int | None, prefix: str, ecu: dict[str, Any], seed: int, style: int, origin: str,
              extra: dict[str, Any] | None = None) -> dict[str, Any]:
    sp = SERVICE_SPELLINGS[svc]
    cfg: dict[str, Any] = {
        "dids": render_list(dids, style),
        "sessions": None if sessions is None else render_list(sessions, style + 1),
        "service": sp[style % len(sp)],
        "min_length": None if mn is None else [str(mn), hex(mn)][style % 2],
        "max_length": None if mx is None else [hex(mx), str(mx)][style % 2],
        "iterations": None if iterations is None else str(iterations),
        "prefixed_payload": prefix or None,
    }
    cfg.update(extra or {})
    e = dict(ecu)
    e["service"] = svc
    e.setdefault("sessions", [1, 2, 3])
    return {
        "kind": "fuzz", "ecu": e, "cfg": cfg, "seed": seed, "origin": origin,
        "den": {"service": svc, "dids": sorted(set(dids)), "sessions": sorted(set(sessions)) if sessions else [1],
                "min": 1 if mn is None else mn, "max": 42 if mx is None else mx,
                "iterations": 1 if iterations is None else iterations, "prefix": prefix},
    }


def enumerated(tier: str) -> list[dict[str, Any]]:
    """EVERY script of length L over the 7 answer classes (the rest of the run is answered positively):
    two sessions x two iterations, so that the script covers both blocks."""
    out = []
    plan = [(0x2E, 3 if tier == "quick" else 4, [1, 2]), (0x31, 2 if tier == "quick" else 3, [2, 3])]
    for svc, length, sessions in plan:
        for n, combo in enumerate(itertools.product(range(len(ALPHABET)), repeat=length)):
            script = [ALPHABET[i] for i in combo]
            out.append(fuzz_case(svc, [0x0102], sessions, 1, 3, 2, "", {"script": script, "default": ["pos"]},
                                 seed=n, style=n, origin=f"enum-{svc:02x}-L{length}"))
    if tier == "thorough":
        # longer scripts over the four classes that drive the retry loop and the counters: one session x 3 iterations
        small = [["pos"], ["neg", 0x22], ["sil"], ["drop"]]
        for n, combo in enumerate(itertools.product(range(4), repeat=5)):
            out.append(fuzz_case(0x2E, [0xFFFF], [3], 0, 1, 3, "", {"script": [small[i] for i in combo], "default": ["sil"]},
                                 seed=n, style=n, origin="enum-2e-4cls-L5", extra={"tester_present": False}))
    return out


def retry_shapes(tier: str) -> list[dict[str, Any]]:
    """Runs of unanswered requests (silent / connection dropped) of every pattern up to length 5, followed by each
    class: the client's retries are new requests at the ECU."""
    out = []
    maxlen = 4 if tier == "quick" else 5
    n = 0
    for k in range(1, maxlen + 1):
        for pat in itertools.product((["sil"], ["drop"]), repeat=k):
            for follow in ALPHABET[:3] + ALPHABET[4:6]:
                if tier == "quick" and (n % 3) != 0:
                    n += 1
                    continue
                script = [["pos"]] + [list(p) for p in pat] + [follow]
                out.append(fuzz_case(0x2E if n % 2 else 0x31, [0xF1A0], [2], 0, 2, 3, "aa" if n % 3 == 0 else "",
                                     {"script": script, "default": ["neg", 0x31]}, seed=n, style=n,
                                     origin="retry-shapes", extra={"tester_present": bool(n % 4 == 0)}))
                n += 1
    return out


def _rand_class(rng: random.Random, allow_mis1: bool, busy: bool) -> list[Any]:
    r = rng.random()
    if r < 0.30:
        c: list[Any] = ["pos"]
    elif r < 0.55:
        c = ["neg", rng.choice(NRCS)]
    elif r < 0.68:
        c = ["sil"]
    elif r < 0.78:
        c = ["mis", rng.choice([0, 1, 2] if allow_mis1 else [0, 2])]
    elif r < 0.88:
        c = ["mal", rng.randrange(3)]
    elif r < 0.97 or not busy:
        c = ["drop"]
    else:
        c = ["neg", 0x21]
    if c[0] in ("pos", "neg") and c[-1] != 0x21 and rng.random() < 0.06:
        c = c + ["fb"]
    return c


def seeded(tier: str, seed: int) -> list[dict[str, Any]]:
    """Random configurations x random scripts."""
    rng = random.Random(1000 + seed)
    out = []
    for n in range(150 if tier == "quick" else 3000):
        svc = rng.choice([0x2E, 0x31])
        dids = rng.sample([0x0000, 0x00FF, 0x0100, 0x0102, 0x1234, 0xF190, 0xFFFE, 0xFFFF], rng.choice([1, 1, 2, 3]))
        if rng.random() < 0.2:
            d0 = rng.randrange(0, 0xFFF0)
            dids = list(range(d0, d0 + rng.choice([2, 3])))
        sessions: list[int] | None = rng.choice([None, [1], [2], [1, 2], [2, 3], [1, 2, 3], [3, 1], [2, 5], [4], [1, 0x40, 3]])
        mn = rng.choice([None, 0, 1, 1, 2, 5, 8])
        mx = None if mn is None else (mn + rng.choice([0, 0, 1, 3, 10]))
        if mn is None and rng.random() < 0.5:
            mx = rng.choice([1, 7, 42, 60])
        iterations = rng.choice([None, 0, 1, 2, 3, 5, 8])
        prefix = rng.choice(["", "", "00", "aa", "aabbccdd", "ff" * 7])
        paylen_may_be_zero = (1 if mn is None else mn) + len(prefix) // 2 == 0
        busy = rng.random() < 0.1
        script = [_rand_class(rng, not paylen_may_be_zero, busy) for _ in range(rng.choice([0, 4, 10, 25, 40]))]
        default = _rand_class(rng, not paylen_may_be_zero, False)
        if default[0] in ("sil", "drop") and rng.random() < 0.7:
            default = ["pos"]
        ecu: dict[str, Any] = {"script": script, "default": default, "sessions": rng.choice([[1, 2, 3], [1, 2], [1, 2, 3, 0x40]])}
        if rng.random() < 0.3:
            ecu["dsc_neg"] = rng.sample([1, 2, 3], rng.choice([1, 1, 2]))
        if rng.random() < 0.2:
            ecu["reset_ok"] = False
        extra: dict[str, Any] = {}
        if rng.random() < 0.5:
            extra["tester_present"] = False
        if rng.random() < 0.06:
            ecu["down_after_drop"] = rng.choice([0.1, 0.3, 5.0])
        elif rng.random() < 0.06:
            ecu["refuse_next"] = rng.choice([1, 1, 2])
        if rng.random() < 0.04:
            # a long response timeout without TesterPresent: the virtual ECU's own 10 s inactivity reset
            extra["timeout"] = 12
            extra["tester_present"] = False
        out.append(fuzz_case(svc, dids, sessions, mn, mx, iterations, prefix, ecu, seed=rng.randrange(1 << 30),
                             style=n, origin="seeded", extra=extra))
    return out


def special() -> list[dict[str, Any]]:
    """Hand-picked corners."""
    out = [
        # every fuzz request unanswered
        fuzz_case(0x2E, [0x0102], [1, 2], 1, 2, 2, "", {"script": [], "default": ["sil"]}, 1, 0, "special"),
        # connection dropped on every fuzz request (the ECU accepts new connections)
        fuzz_case(0x31, [0x0102], [2], 1, 2, 3, "", {"script": [], "default": ["drop"]}, 2, 1, "special"),
        # all sessions refused
        fuzz_case(0x2E, [1, 2], [2, 3], 1, 2, 2, "", {"script": [], "default": ["pos"], "dsc_neg": [2, 3]}, 3, 2, "special"),
        # min_length > max_length (sources silent)
        fuzz_case(0x2E, [1], [1], 5, 2, 1, "", {"script": [], "default": ["pos"]}, 4, 0, "special"),
        # busyRepeatRequest forever / responsePending once (resolved inside the UDS client: not compared)
        fuzz_case(0x2E, [1], [2], 1, 1, 2, "", {"script": [], "default": ["neg", 0x21]}, 5, 0, "special"),
        fuzz_case(0x2E, [1], [2], 1, 1, 2, "", {"script": [["neg", 0x78]], "default": ["pos"]}, 6, 0, "special"),
        # the ECU falls back to its default session after the first answer
        fuzz_case(0x2E, [0x1234], [3], 2, 2, 4, "", {"script": [["pos", "fb"]], "default": ["neg", 0x31]}, 7, 1, "special"),
        # ECU unreachable after a drop (connection attempts refused)
        fuzz_case(0x2E, [0x1234], [2], 2, 2, 3, "", {"script": [["pos"], ["drop"]], "default": ["pos"],
                                                   "down_after_drop": 3.0}, 8, 1, "special"),
        # after a drop exactly one connection attempt is refused: the command's own ConnectionError handler reconnects
        fuzz_case(0x2E, [0x1234], [2], 2, 2, 3, "", {"script": [["pos"], ["drop"]], "default": ["pos"],
                                                   "refuse_next": 1}, 11, 1, "special"),
        fuzz_case(0x31, [0x1234], [2, 3], 1, 2, 2, "", {"script": [["drop"], ["neg", 0x31], ["drop"]], "default": ["pos"],
                                                      "refuse_next": 1}, 12, 1, "special"),
        fuzz_case(0x2E, [0x1234], [2], 2, 2, 3, "", {"script": [["pos"], ["drop"]], "default": ["pos"],
                                                   "refuse_next": 2}, 13, 1, "special"),
        # defaults of every option
        fuzz_case(0x2E, [0xF190], None, None, None, None, "", {"script": [["neg", 0x13], ["mis", 1]], "default": ["pos"]},
                  9, 0, "special"),
        # many iterations, long random payloads
        fuzz_case(0x31, [0xFFFF], [1, 3], 30, 60, 25, "0102", {"script": [], "default": ["neg", 0x72]}, 10, 2, "special"),
    ]
    return out


# ------------------------------------------------------------------ primitives
def prim_cases(tier: str) -> list[dict[str, Any]]:
    out = []
    n = 0
    answers: list[list[Any]] = [["pos"], ["neg", 0x31], ["neg", 0x33]]
    for did in (0x0000, 0x0102, 0xF190, 0xFFFF):
        for session in (None, 1, 2, 3):
            for refused in (False, True):
                if refused and session in (None, 1):
                    continue
                for ans in answers:
                    spell = [hex(did), str(did), f"0x{did:04X}"][n % 3]
                    ecu = {"service": 0x22, "sessions": [1, 2, 3], "script": [ans], "default": ["pos"],
                           "dsc_neg": [session] if refused else []}
                    out.append({"kind": "prim", "prim": "rdbi", "ecu": ecu, "origin": "prim-rdbi",
                                "cfg": {"data_identifier": spell, "session": None if session is None else [str(session), hex(session)][n % 2],
                                        "tester_present": bool(n % 2)},
                                "den": {"want": bytes([0x22, did >> 8, did & 0xFF]).hex(), "session": session or 1}})
                    n += 1
    pdus = ["22f190", "2e1234aabb", "31010203", "3101ff00" + "5a" * 20, "2e0001" + "00" * 4, "220102"]
    for pdu in pdus:
        for session in (None, 2, 3):
            for refused in (False, True):
                if refused and session is None:
                    continue
                for ans in answers + [["sil"]]:
                    n += 1
                    if tier == "quick" and n % 2:
                        continue
                    ecu = {"service": int(pdu[:2], 16), "sessions": [1, 2, 3], "script": [ans], "default": ["pos"],
                           "dsc_neg": [session] if refused else []}
                    out.append({"kind": "prim", "prim": "pdu", "ecu": ecu, "origin": "prim-pdu",
                                "cfg": {"pdu": pdu if (n // 2) % 2 else pdu.upper(),
                                        "session": None if session is None else str(session),
                                        "tester_present": bool((n // 4) % 2)},
                                "den": {"want": pdu, "session": session or 0}})
    return out
