"""X17: runs the REAL gallia command-line front end / plugin registry in-process and records what
happened, in the vocabulary of spec/CliTreeContract.tla.  Nothing here judges the property.

Stubs (class level, in THIS process only):
  * dispatch jobs:  BaseCommand.entry_point -> records (class, config), returns the job's `ret`
  * rerun jobs:     the concrete command class' run() -> records (class, config), returns `ret`;
                    entry_point, DBHandler, Rerunner are the real ones (normal asyncio loop, sqlite file)
  * gallia.cli.gallia.setup_logging -> no-op (logging is not the subject; keeps handlers out of the process)
Environment of one job: fresh directory as cwd / HOME, GALLIA_* and XDG_* removed, sys.argv patched.
"""

from __future__ import annotations

import ast
import contextlib
import io
import json
import logging
import os
import re
import shutil
import subprocess
import sys
import tempfile
import tomllib
import urllib.parse
from pathlib import Path
from typing import Any

import gallia.command  # noqa: F401
from gallia.cli import gallia as gcli
from gallia.cli import hr as ghr
from gallia.command.base import BaseCommand
from gallia.plugins import plugin as gplugin

from harness import x17_synth as S
from harness.common import Machinery

_REAL_ENTRY = BaseCommand.entry_point
RUNS: list[dict[str, Any]] = []
_RET = [0]
_ROOT: list[str] = []


def _noop_logging(**_kw: Any) -> None:
    return None


gcli.setup_logging = _noop_logging  # type: ignore[assignment]


def root() -> str:
    if not _ROOT:
        _ROOT.append(tempfile.mkdtemp(prefix="x17-"))
    return _ROOT[0]


def cleanup() -> None:
    while _ROOT:
        shutil.rmtree(_ROOT.pop(), ignore_errors=True)


def _record(self: Any) -> None:
    k = type(self)
    cfg = self.config
    try:
        dump = cfg.model_dump_json()
    except Exception as e:  # noqa: BLE001
        dump = f"<dump failed {type(e).__name__}>"
    RUNS.append({"cls": S.qual(k), "cfgok": isinstance(cfg, k.CONFIG_TYPE), "cfgtype": S.qual(k.CONFIG_TYPE),
                 "dump": dump})


async def _fake_entry(self: Any) -> int:
    _record(self)
    return _RET[0]


async def _fake_run(self: Any) -> int:
    _record(self)
    return _RET[0]


class Env:
    """one job's process environment; restored on exit"""

    def __init__(self, *, synth: str | None = None, scenario: dict[str, Any] | None = None, n: int = 2,
                 broken: bool = False) -> None:
        self.synth = synth  # None | "first" | "last"
        self.scenario = scenario
        self.n = n
        self.broken = broken

    def __enter__(self) -> "Env":
        self.saved_env = dict(os.environ)
        self.saved_cwd = os.getcwd()
        self.saved_argv = sys.argv
        self.saved_path = list(sys.path)
        self.dir = tempfile.mkdtemp(prefix="job-", dir=root())
        for k in list(os.environ):
            if k.startswith("GALLIA_") and k not in ("GALLIA_SRC", "GALLIA_VERIF") or k.startswith("XDG_"):
                del os.environ[k]
        os.environ["HOME"] = self.dir
        self.cwd = os.path.join(self.dir, "cwd")
        os.makedirs(self.cwd)
        os.chdir(self.cwd)
        S.SCENARIO.clear()
        S.SCENARIO.update(self.scenario or {"pls": []})
        if self.synth is not None:
            self.pdir = os.path.join(self.dir, "plug")
            os.makedirs(self.pdir)
            S.install(self.pdir, self.n, first=self.synth == "first", broken=self.broken)
        return self

    def __exit__(self, *a: Any) -> None:
        os.chdir(self.saved_cwd)
        os.environ.clear()
        os.environ.update(self.saved_env)
        sys.argv = self.saved_argv
        sys.path[:] = self.saved_path
        S.SCENARIO.clear()
        S.SCENARIO.update({"pls": []})
        shutil.rmtree(self.dir, ignore_errors=True)


def cli(argv: list[str], *, stub: str = "entry", ret: int = 0, leaf_classes: list[type] | None = None,
        main: Any = None) -> dict[str, Any]:
    """one `gallia <argv>` in-process -> {exit, exc, out, err, ran}"""
    RUNS.clear()
    _RET[0] = ret
    out, err = io.StringIO(), io.StringIO()
    sys.argv = ["gallia", *argv]
    patched: list[tuple[type, Any]] = []
    if stub == "entry":
        BaseCommand.entry_point = _fake_entry  # type: ignore[method-assign]
    else:
        for k in leaf_classes or []:
            patched.append((k, k.__dict__.get("run")))
            k.run = _fake_run  # type: ignore[attr-defined]
    code: Any = -1
    exc = ""
    try:
        with contextlib.redirect_stdout(out), contextlib.redirect_stderr(err):
            try:
                (main or gcli.main)()
            except SystemExit as e:
                c = e.code
                code = 0 if c is None else (c if isinstance(c, int) else 1)
            except BaseException as e:  # noqa: BLE001
                code = -2
                exc = f"{type(e).__name__}: {e}"[:400]
    finally:
        BaseCommand.entry_point = _REAL_ENTRY  # type: ignore[method-assign]
        for k, orig in patched:
            if orig is None:
                with contextlib.suppress(AttributeError):
                    del k.run
            else:
                k.run = orig
    return {"exit": code, "exc": exc, "out": out.getvalue(), "err": err.getvalue(), "ran": list(RUNS)}


# ------------------------------------------------------------------ ground truth of the registrations
def registrations(scenario: dict[str, Any] | None) -> dict[str, Any]:
    """what each installed plugin registers, in discovery order: synthetic plugins from the scenario (the
    harness's own data), builtin plugins from their declaration (Plugin.commands(): the INPUT of the merge)"""
    regs: list[dict[str, Any]] = []
    descs: list[dict[str, Any]] = []
    cfg: dict[str, str] = {}
    names = (scenario or {}).get("names", {"a": "xa", "b": "xb"})
    dtext = (scenario or {}).get("descs", {})
    plugins = []
    for i, p in enumerate(S.discovered(), start=1):
        plugins.append(S.qual(p))
        if isinstance(p, type) and issubclass(p, S._SynthPlugin):
            pls = (scenario or {}).get("pls", [])
            if p.INDEX - 1 >= len(pls):
                continue
            pl = pls[p.INDEX - 1]
            for path, cls in pl.get("leaves", []):
                k = S.CLASSES[cls]
                regs.append({"pl": i, "path": [names[t] for t in path], "cls": S.qual(k)})
                cfg[S.qual(k)] = S.qual(k.CONFIG_TYPE)
            if any(len(path) == 2 and path[0] == "a" for path, _ in pl.get("leaves", [])):
                descs.append({"pl": i, "path": [names["a"]], "d": dtext.get(pl.get("desc", ""), None) or ""})
            if any(len(path) == 2 and path[0] == "b" for path, _ in pl.get("leaves", [])):
                descs.append({"pl": i, "path": [names["b"]], "d": ""})
        elif isinstance(p, type) and issubclass(p, gplugin.Plugin):
            t = p.commands()
            for path, k in S.walk(t):
                regs.append({"pl": i, "path": list(path), "cls": S.qual(k)})
                cfg[S.qual(k)] = S.qual(k.CONFIG_TYPE)
            for path, d in S.walk_groups(t):
                descs.append({"pl": i, "path": list(path), "d": d or ""})
    return {"regs": regs, "descs": descs, "cfg": cfg, "plugins": plugins}


def _tree_of(t: Any) -> list[dict[str, Any]]:
    return [{"path": list(p), "cls": S.qual(k)} for p, k in S.walk(t)]


# ------------------------------------------------------------------ jobs
def job_load(job: dict[str, Any]) -> dict[str, Any]:
    """load_commands() with the scenario's plugins installed"""
    with Env(synth=job.get("synth", "last"), scenario=job["scenario"], broken=job.get("broken", False)):
        g = registrations(job["scenario"]) if not job.get("broken") else {"regs": [], "descs": [], "cfg": {}, "plugins": []}
        rec: dict[str, Any] = {"kind": "load", "regs": g["regs"], "descs": g["descs"], "ok": False, "tree": [],
                               "tdescs": [], "raised": "", "msg": ""}
        if job.get("mutant"):
            # mutant of the harness's own fake: the installed plugin registers another class than the harness's
            # ground truth says (binding self-test; TLC must reject the record)
            pl = S.SCENARIO["pls"][0]
            pl["leaves"] = [[pl["leaves"][0][0], "c2ba"]] + pl["leaves"][1:]
        try:
            t = gplugin.load_commands()
            rec["ok"] = True
            rec["tree"] = _tree_of(t)
            rec["tdescs"] = [{"path": list(p), "d": d or ""} for p, d in S.walk_groups(t)]
        except Exception as e:  # noqa: BLE001
            rec["raised"] = type(e).__name__
            rec["msg"] = str(e)[:300]
        if job.get("broken"):
            rec["kind"] = "broken"
    return rec


def _argv_for(cls_: str, path: list[str], spec: dict[str, Any]) -> list[str]:
    """instantiate one argument-vector class exported by the design on one command
    spec: {"valid": [...option tokens...], "required": [[tokens of one required option], ...],
           "foreign": [tokens of an option this command does not have]}"""
    opts = list(spec["valid"])
    if cls_ == "valid":
        return path + opts
    if cls_ == "unknown_leaf":
        return path[:-1] + ["zz-no-such-command"] + opts
    if cls_ == "unknown_group":
        i = spec.get("pos", 0)
        return path[:i] + ["zz-no-such-group"] + path[i + 1:] + opts
    if cls_ == "prefix":
        return path[:-1]
    if cls_ == "missing_required":
        drop = spec["required"][spec.get("drop", 0)]
        o = list(opts)
        # remove the contiguous token run of that option
        for i in range(len(o) - len(drop) + 1):
            if o[i:i + len(drop)] == drop:
                del o[i:i + len(drop)]
                break
        return path + o
    if cls_ == "foreign_option":
        return path + opts + list(spec["foreign"])
    if cls_ == "help":
        return path + ["-h"]
    if cls_ == "help_group":
        return path[:-1] + ["-h"]
    if cls_ == "top_then_path":
        return [spec.get("top", "--version")] + path + opts
    if cls_ == "no_args":
        return []
    raise Machinery(f"argument-vector class {cls_!r} exported by the design is unknown to the driver")


def job_dispatch(job: dict[str, Any]) -> dict[str, Any]:
    """job: {scenario|None, synth, items: [{cls_, path, spec, ret}]} -> one record per item"""
    out = []
    with Env(synth=job.get("synth"), scenario=job.get("scenario")):
        g = registrations(job.get("scenario"))
        tree = [{"path": r["path"], "cls": r["cls"], "cfg": g["cfg"][r["cls"]]} for r in g["regs"]]
        from importlib.metadata import version as _v

        for it in job["items"]:
            argv = _argv_for(it["cls_"], it["path"], it["spec"])
            r = cli(argv, stub="entry", ret=it.get("ret", 0))
            children = it.get("children", [])
            text = r["out"]
            rec = {"kind": "dispatch", "cls_": it["cls_"], "path": it["path"], "ret": it.get("ret", 0),
                   "tree": [t for t in tree if t["path"] == it["path"]],
                   "exit": r["exit"], "ran": [{"cls": x["cls"], "cfgok": x["cfgok"]} for x in r["ran"]],
                   "err": bool(r["err"].strip()), "outs": bool(text.strip()),
                   "children": children,
                   "listed": [c for c in children if re.search(r"(?<![\w-])" + re.escape(c) + r"(?![\w-])", text)],
                   "top": it["spec"].get("top", ""),
                   "version": _v("gallia"), "shown_version": (re.findall(r"\d+\.\d+[\w.\-+]*", text) or [""])[0],
                   "argv": argv, "exc": r["exc"], "stderr": r["err"][-300:], "item": it}
            out.append(rec)
    return {"records": out}


def job_lookup(job: dict[str, Any]) -> dict[str, Any]:
    """registry look-ups with the scenario's transports / ECUs installed
    job: {scenario, synth, queries: [{"what": "transport", "uri": ...} | {"what": "ecu", "vendor": ...}]}"""
    from gallia.transports import TargetURI

    out = []
    with Env(synth=job.get("synth", "last"), scenario=job["scenario"]):
        reg_t: list[dict[str, str]] = []
        reg_e: list[dict[str, str]] = []
        for p in S.discovered():
            if isinstance(p, type) and issubclass(p, S._SynthPlugin):
                pls = job["scenario"].get("pls", [])
                if p.INDEX - 1 < len(pls):
                    reg_t += [{"key": s, "cls": f"{S.__name__}.{c}"} for s, c in pls[p.INDEX - 1].get("tr", [])]
                    reg_e += [{"key": o, "cls": f"{S.__name__}.{c}"} for o, c in pls[p.INDEX - 1].get("ecus", [])]
            else:
                reg_t += [{"key": t.SCHEME, "cls": S.qual(t)} for t in p.transports()]
                reg_e += [{"key": e.OEM, "cls": S.qual(e)} for e in p.ecus()]
        for q in job["queries"]:
            rec: dict[str, Any] = {"kind": "lookup", "what": q["what"], "res": "", "raised": "", "msg": "", "item": q}
            try:
                if q["what"] == "transport":
                    rec["reg"] = reg_t
                    rec["q"] = urllib.parse.urlparse(q["uri"]).scheme  # RFC 3986 scheme (Python's parser, not gallia's)
                    rec["uri"] = q["uri"]
                    rec["res"] = S.qual(gplugin.load_transport(TargetURI(q["uri"])))
                elif q["what"] == "ecu":
                    rec["reg"] = reg_e
                    rec["q"] = q["vendor"]
                    rec["res"] = S.qual(gplugin.load_ecu(q["vendor"]))
                elif q["what"] == "transports":
                    rec["kind"] = "list"
                    rec["reg"] = reg_t
                    rec["got"] = [S.qual(t) for t in gplugin.load_transports()]
                elif q["what"] == "ecus":
                    rec["kind"] = "list"
                    rec["reg"] = reg_e
                    rec["got"] = [S.qual(t) for t in gplugin.load_ecus()]
            except Exception as e:  # noqa: BLE001
                rec["raised"] = type(e).__name__
                rec["msg"] = str(e)[:200]
            out.append(rec)
    return {"records": out}


# ---- --show-config
LOCS = ("env", "cwd", "git", "xdg", "home")


def job_showcfg(job: dict[str, Any]) -> dict[str, Any]:
    """have: {env: unset|file|missing, cwd, git: True|False|"norepo", xdgset, xdg, home}"""
    have = job["have"]
    with Env() as e:
        base = Path(e.dir)
        files: dict[str, Path] = {}
        repo = base / "repo"
        if have["git"] == "norepo":
            cwd = base / "plain" / "sub"
            cwd.mkdir(parents=True)
        else:
            cwd = repo / "sub" / "dir"
            cwd.mkdir(parents=True)
            subprocess.run(["git", "init", "-q", str(repo)], check=True, capture_output=True)
            if have["git"] is True:
                files["git"] = repo / "gallia.toml"
        os.chdir(cwd)
        if have["cwd"]:
            files["cwd"] = cwd / "gallia.toml"
        xdg = base / "xdgconf"
        if have["xdgset"]:
            os.environ["XDG_CONFIG_HOME"] = str(xdg)
            if have["xdg"]:
                files["xdg"] = xdg / "gallia" / "gallia.toml"
        if have["home"]:
            files["home"] = base / ".config" / "gallia" / "gallia.toml"
        if have["env"] != "unset":
            p = base / "elsewhere" / "my.toml"
            os.environ["GALLIA_CONFIG"] = str(p)
            if have["env"] == "file":
                files["env"] = p
        content: dict[str, dict[str, Any]] = {}
        for i, loc in enumerate(LOCS):
            if loc in files:
                files[loc].parent.mkdir(parents=True, exist_ok=True)
                content[loc] = {"gallia": {"scanner": {"target": f"tcp-lines://127.0.0.1:{4000 + i}"},
                                           "protocols": {"uds": {"max_retries": 10 + i}}}, "x17": {"loc": loc}}
                files[loc].write_text(f'[gallia.scanner]\ntarget = "tcp-lines://127.0.0.1:{4000 + i}"\n'
                                      f"[gallia.protocols.uds]\nmax_retries = {10 + i}\n[x17]\nloc = \"{loc}\"\n")
        r = cli(["--show-config"] + job.get("tail", []), stub="entry")
        text = r["out"] + "\n" + r["err"]
        shown = [loc for loc, p in files.items() if str(p) in text or str(p.resolve()) in text]
        parsed: Any = None
        body = r["out"].strip()
        for fn in (ast.literal_eval, tomllib.loads, json.loads):
            try:
                parsed = fn(body)
                break
            except Exception:  # noqa: BLE001
                continue
        if len(shown) == 1 and isinstance(parsed, dict):
            cont = "equal" if json.dumps(parsed, sort_keys=True) == json.dumps(content[shown[0]], sort_keys=True) else "differs"
        elif len(shown) == 1:
            cont = "unparsed"
        else:
            cont = "n/a"
        # which file do the defaults of a real command come from?
        r2 = cli(["primitive", "uds", "ping"], stub="entry")
        used = "none"
        if r2["ran"]:
            try:
                tgt = json.loads(r2["ran"][0]["dump"]).get("target")
                used = next((loc for i, loc in enumerate(LOCS) if tgt == f"tcp-lines://127.0.0.1:{4000 + i}"), "other")
            except Exception:  # noqa: BLE001
                used = "other"
        elif r2["exit"] == -2:
            used = "crash"
        rec = {"kind": "showcfg", "have": {k: (v if isinstance(v, str) else bool(v)) for k, v in have.items()},
               "gitrepo": have["git"] != "norepo", "git": have["git"] is True,
               "shown": shown[0] if len(shown) == 1 else ("none" if not shown else "several"),
               "used": used, "exit": r["exit"], "ran": len(r["ran"]), "content": cont,
               "exc": r["exc"], "stderr": r["err"][-300:]}
    return {"records": [rec]}


# ---- --template
def _canon_ids(values: list[str]) -> list[int]:
    table: dict[str, int] = {}
    return [table.setdefault(v, len(table) + 1) for v in values]


def job_template(job: dict[str, Any]) -> dict[str, Any]:
    """--template through the CLI; then every command of `items` once without config file and once with the
    printed template as its gallia.toml"""
    out: list[dict[str, Any]] = []
    with Env() as e:
        r = cli(["--template"], stub="entry")
        text = r["out"]
        try:
            doc = tomllib.loads(text)
            parses = True
        except Exception as ex:  # noqa: BLE001
            doc = {}
            parses = False
            text_err = str(ex)
        if job.get("head", True):
            out.append({"kind": "template", "parses": parses, "exit": r["exit"], "ran": len(r["ran"]),
                        "nkeys": sum(1 for ln in text.splitlines() if re.match(r"\s*(# )?[A-Za-z_][\w-]* = ", ln)),
                        "active": _flat(doc), "detail": "" if parses else text_err})
        tpl = Path(e.dir) / "template.toml"
        tpl.write_text(text)
        for it in job["items"]:
            argv = it["path"] + it["valid"]
            os.environ.pop("GALLIA_CONFIG", None)
            a = cli(argv, stub="entry")
            os.environ["GALLIA_CONFIG"] = str(tpl)
            b = cli(argv, stub="entry")
            os.environ.pop("GALLIA_CONFIG", None)
            da = a["ran"][0]["dump"] if a["ran"] else "<none>"
            db = b["ran"][0]["dump"] if b["ran"] else "<none-with-template>"
            ia, ib = _canon_ids([da, db])
            diff = []
            if a["ran"] and b["ran"]:
                ja, jb = json.loads(da), json.loads(db)
                diff = sorted(k for k in set(ja) | set(jb) if ja.get(k) != jb.get(k))
            out.append({"kind": "template_cmd", "path": it["path"], "base_ran": bool(a["ran"]), "with_ran": bool(b["ran"]),
                        "base": ia, "with": ib, "parses": parses, "differs": diff, "argv": argv,
                        "stderr": b["err"][-300:], "item": it})
    return {"records": out}


def _flat(d: dict[str, Any], pre: str = "") -> list[str]:
    out: list[str] = []
    for k, v in d.items():
        if isinstance(v, dict):
            out += _flat(v, f"{pre}{k}.")
        else:
            out.append(f"{pre}{k}")
    return sorted(out)


# ---- --show-plugins
def job_plugins(job: dict[str, Any]) -> dict[str, Any]:
    with Env(synth=job.get("synth"), scenario=job.get("scenario")):
        expect: list[dict[str, Any]] = []
        counts: list[dict[str, Any]] = []
        for p in S.discovered():
            if isinstance(p, type) and issubclass(p, S._SynthPlugin):
                pls = (job.get("scenario") or {}).get("pls", [])
                if p.INDEX - 1 >= len(pls):
                    continue
            expect.append({"k": "plugin", "name": p.name(), "cls": ""})
            for t in p.transports():
                expect.append({"k": "transport", "name": t.SCHEME, "cls": S.qual(t)})
            for x in p.ecus():
                expect.append({"k": "ecu", "name": x.OEM, "cls": S.qual(x)})
            leaves = S.walk(p.commands())
            for path, k in leaves:
                expect.append({"k": "command", "name": path[-1], "cls": S.qual(k)})
            counts.append({"plugin": p.name(), "commands": len(leaves), "transports": len(p.transports()),
                           "ecus": len(p.ecus())})
        r = cli(["--show-plugins"] + job.get("tail", []), stub="entry")
        lines = r["out"].splitlines()
        found = []
        for x in expect:
            if x["k"] == "plugin":
                found.append(any(x["name"] in ln for ln in lines))
            else:
                found.append(any(re.search(r"(?<![\w-])" + re.escape(x["name"]) + r"(?![\w-])", ln) and x["cls"] in ln
                                 for ln in lines))
        # the counts the listing itself announces ("Commands (34):"), in the order of the plugins; -1 = not announced
        ann = {"commands": [int(n) for n in re.findall(r"Commands \((\d+)\)", r["out"])],
               "transports": [int(n) for n in re.findall(r"Transports \((\d+)\)", r["out"])],
               "ecus": [int(n) for n in re.findall(r"ECUs \((\d+)\)", r["out"])]}
        cnt = []
        for i, c in enumerate(counts):
            for what in ("commands", "transports", "ecus"):
                cnt.append({"plugin": c["plugin"], "what": what, "want": c[what],
                            "got": ann[what][i] if len(ann[what]) == len(counts) else -1})
        rec = {"kind": "plugins", "expect": expect, "found": found, "counts": cnt, "exit": r["exit"],
               "ran": len(r["ran"]), "exc": r["exc"]}
    return {"records": [rec]}


# ---- script rerun
def job_rerun(job: dict[str, Any]) -> dict[str, Any]:
    """items: [{path, valid, cls (qualified name expected at that path)}]: run the command through the CLI with
    --db and --artifacts-base (real entry_point, run() stubbed), then `gallia script rerun` by --id and by --file"""
    import importlib
    import sqlite3

    out: list[dict[str, Any]] = []
    with Env(synth=job.get("synth"), scenario=job.get("scenario")) as e:
        g = registrations(job.get("scenario"))
        leaf_names = sorted({r["cls"] for r in g["regs"]})
        leaves = []
        for q in leaf_names:
            mod, _, name = q.rpartition(".")
            k = getattr(importlib.import_module(mod), name)
            if q != "gallia.commands.script.rerun.Rerunner":
                leaves.append(k)
        for n, it in enumerate(job["items"]):
            db = Path(e.dir) / f"runs-{n}.sqlite"
            art = Path(e.dir) / f"art-{n}"
            extra = ["--db", str(db), "--artifacts-base", str(art), "--no-hooks"]
            first = cli(it["path"] + it["valid"] + extra, stub="run", ret=0, leaf_classes=leaves)
            if len(first["ran"]) != 1:
                out.append({"kind": "rerun", "how": "setup", "path": it["path"], "stored_cls": "", "stored": 0,
                            "want_cls": it["cls"], "ran": [], "exit": first["exit"], "ret": 0,
                            "argv": it["path"] + it["valid"] + extra, "item": it,
                            "stderr": first["err"][-300:] + first["exc"], "setup_failed": True})
                continue
            stored = first["ran"][0]
            # ground truth of what the database holds: read with sqlite3, not with gallia
            rows = []
            with contextlib.suppress(Exception), contextlib.closing(sqlite3.connect(db)) as c:
                rows = c.execute("SELECT id, script FROM run_meta ORDER BY id").fetchall()
            rid = rows[0][0] if rows else 1
            metas = sorted(art.glob("*/run-*/META.json"))
            hows: list[tuple[str, list[str]]] = [("id", ["--db", str(db), "--id", str(rid)])]
            if metas:
                hows.append(("file", ["--file", str(metas[0])]))
            hows.append(("missing-id", ["--db", str(db), "--id", str(rid + 4711)]))
            for how, tail in hows:
                ret = it.get("ret", 0) if how != "missing-id" else 0
                r = cli(["script", "rerun", "--no-hooks"] + tail, stub="run", ret=ret, leaf_classes=leaves)
                dumps = [stored["dump"]] + [x["dump"] for x in r["ran"]]
                ids = _canon_ids(dumps)
                diff: list[str] = []
                if r["ran"]:
                    with contextlib.suppress(Exception):
                        ja, jb = json.loads(stored["dump"]), json.loads(r["ran"][0]["dump"])
                        diff = sorted(k for k in set(ja) | set(jb) if ja.get(k) != jb.get(k))
                out.append({"kind": "rerun", "how": how, "path": it["path"], "stored_cls": stored["cls"],
                            "want_cls": it["cls"], "stored": ids[0], "ret": ret,
                            "ran": [{"cls": x["cls"], "cfgok": x["cfgok"], "cfg": i} for x, i in zip(r["ran"], ids[1:])],
                            "exit": r["exit"], "differs": diff, "argv": ["script", "rerun"] + tail,
                            "stderr": (r["err"][-300:] + r["exc"]), "setup_failed": False, "item": it})
    return {"records": out}


# ---- hr argument handling
def job_hr(job: dict[str, Any]) -> dict[str, Any]:
    out = []
    with Env() as e:
        log = Path(e.dir) / "log.json"
        log.write_text("")
        for it in job["items"]:
            argv = [a.replace("@LOG", str(log)).replace("@DIR", e.dir) for a in it["argv"]]
            RUNS.clear()
            o, er = io.StringIO(), io.StringIO()
            sys.argv = ["hr", *argv]
            code: Any = -1
            exc = ""
            with contextlib.redirect_stdout(o), contextlib.redirect_stderr(er):
                try:
                    ghr.main()
                except SystemExit as ex:
                    c = ex.code
                    code = 0 if c is None else (c if isinstance(c, int) else 1)
                except BaseException as ex:  # noqa: BLE001
                    code = -2
                    exc = f"{type(ex).__name__}: {ex}"[:200]
            out.append({"kind": "hr", "cls_": it["cls_"], "exit": code, "out_empty": not o.getvalue().strip(),
                        "err": bool(er.getvalue().strip()), "argv": it["argv"], "exc": exc, "item": it})
    return {"records": out}


JOBS = {"load": job_load, "dispatch": job_dispatch, "lookup": job_lookup, "showcfg": job_showcfg,
        "template": job_template, "plugins": job_plugins, "rerun": job_rerun, "hr": job_hr}


def run_job(job: dict[str, Any]) -> dict[str, Any]:
    logging.disable(logging.CRITICAL)
    try:
        res = JOBS[job["job"]](job)
    finally:
        pass
    if "records" not in res:
        res = {"records": [res]}
    for r in res["records"]:
        r["job"] = {k: v for k, v in job.items() if k not in ("items", "queries")}
    return res


def command_specs() -> list[dict[str, Any]]:
    """every command of the REAL tree with a valid option vector, its required options and an option it does not
    have (built with the C18 helpers: declarations and value generators)"""
    from harness import c18_lib as L
    from harness.c18_cases import CommandCtx

    sb = L.Sandbox()
    try:
        cmds = L.walk_commands()
        allflags: dict[str, set[str]] = {}
        ctxs = []
        for path, cmd in cmds:
            ctx = CommandCtx(path, cmd, sb)
            ctxs.append(ctx)
            allflags["/".join(path)] = {o.long for o in ctx.opts if o.long} | {o.short for o in ctx.opts if o.short}
        out = []
        for ctx in ctxs:
            if ctx.base is None:
                continue
            mine = allflags["/".join(ctx.path)]
            foreign = None
            for other in ctxs:
                for o in other.opts:
                    if o.long and o.long not in mine and not o.is_positional_cli and o.kind == "scalar" \
                            and not any(m.startswith(o.long) or o.long.startswith(m) for m in mine):
                        cand = [r for r in other.cands[o.name].cli if isinstance(r, str) and r not in (L.BAD, L.CONST)]
                        if cand:
                            foreign = [o.long, cand[0]]
                            break
                if foreign:
                    break
            required = []
            for o in ctx.opts:
                if o.name in ctx.base and ctx.cfg_type.model_fields[o.name].is_required():
                    required.append(L.cli_tokens(o, ctx.base[o.name]))
            out.append({"path": list(ctx.path), "cls": S.qual(ctx.cmd), "valid": ctx.argv_of(ctx.base),
                        "required": required, "foreign": foreign or ["--zz-no-such-option", "1"]})
        return out
    finally:
        sb.close()
