"""Scripted environments for the real gallia objects.

ScriptedTransport: a BaseTransport whose peer is a Python object (`env`).
Every call is recorded (after the state change it reports, in a `finally:`)
with the virtual time and the name of the calling task.
"""

from __future__ import annotations

import asyncio
from typing import Any, Self

from gallia.transports.base import BaseTransport, TargetURI

from harness.vloop import now_ms

_REGISTRY: dict[str, "ScriptEnv"] = {}


def task_name() -> str:
    t = asyncio.current_task()
    return t.get_name() if t is not None else "?"


class ScriptEnv:
    """Base class of scripted peers.  Subclasses override on_write / on_read.

    on_write(data) -> None | "WConnErr" | "WTimeout"
    on_read(timeout) -> ("Timeout", None) | ("ConnErr", None) | ("Empty", None) | (cls, bytes)
    """

    _n = 0

    def __init__(self) -> None:
        ScriptEnv._n += 1
        self.key = f"fake://env{ScriptEnv._n}"
        _REGISTRY[self.key] = self
        self.log: list[dict[str, Any]] = []
        self.connections = 1
        self.refuse_connect = 0  # number of upcoming connect() calls that fail
        self.write_delay = 0.0   # seconds a successful write takes (flow control, gateway acknowledgement, ...)
        self.reply_delay = 0.0   # seconds after which a scripted reply arrives (applied when it fits the read timeout)

    def dispose(self) -> None:
        _REGISTRY.pop(self.key, None)

    def rec(self, **kw: Any) -> None:
        kw.setdefault("t", now_ms())
        kw.setdefault("task", task_name())
        self.log.append(kw)

    def on_write(self, data: bytes) -> str | None:
        return None

    def on_read(self, timeout: float | None) -> tuple[str, bytes | None]:
        return ("Timeout", None)


class ScriptedTransport(BaseTransport, scheme="fake"):
    def __init__(self, env: ScriptEnv) -> None:
        super().__init__(TargetURI(env.key))
        self.env = env

    @classmethod
    async def connect(cls, target: str | TargetURI, timeout: float | None = None) -> Self:
        env = _REGISTRY[str(target)]
        if env.refuse_connect > 0:
            env.refuse_connect -= 1
            env.rec(e="ConnectRefused")
            raise ConnectionRefusedError("scripted: peer refuses")
        env.connections += 1
        env.rec(e="RC")
        return cls(env)

    async def close(self) -> None:
        self.is_closed = True
        self.env.rec(e="Close")

    def _refuse_when_closed(self, op: str) -> None:
        # like every real gallia transport: reconnect() returns a NEW object, the closed one refuses I/O
        if self.is_closed:
            self.env.rec(e="IoOnClosed", op=op)
            raise ConnectionResetError(f"scripted: {op} on a closed transport")

    async def write(self, data: bytes, timeout: float | None = None, tags: list[str] | None = None) -> int:
        self._refuse_when_closed("write")
        fault = None
        try:
            fault = self.env.on_write(data)
            if fault == "WConnErr":
                raise BrokenPipeError("scripted: write failed")
            if fault == "WTimeout":
                if timeout is None:
                    await asyncio.Event().wait()
                await asyncio.sleep(timeout or 0)
                raise TimeoutError("scripted: write timed out")
            if self.env.write_delay and (timeout is None or self.env.write_delay < timeout):
                await asyncio.sleep(self.env.write_delay)
            return len(data)
        finally:
            self.env.rec(e="W", data=data.hex(), timeout=timeout)
            if fault:
                self.env.rec(e=fault)

    async def read(self, timeout: float | None = None, tags: list[str] | None = None) -> bytes:
        self._refuse_when_closed("read")
        cls, data = self.env.on_read(timeout)
        t0 = now_ms()
        try:
            if cls == "Timeout":
                if timeout is None:
                    await asyncio.Event().wait()  # silence without a caller timeout: blocks
                await asyncio.sleep(timeout or 0)
                raise TimeoutError("scripted: read timed out")
            if cls == "ConnErr":
                raise ConnectionResetError("scripted: connection reset")
            if cls == "Empty":
                return b""
            assert data is not None
            if self.env.reply_delay and (timeout is None or self.env.reply_delay < timeout):
                await asyncio.sleep(self.env.reply_delay)
            return data
        finally:
            if cls == "Timeout":
                self.env.rec(e=cls, d=now_ms() - t0, timeout=timeout)
            else:
                self.env.rec(e=cls, data=None if data is None else data.hex(), timeout=timeout)
